fn main() {
    println!("cargo:rerun-if-changed=build.rs");
}
