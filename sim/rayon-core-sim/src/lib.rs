//! Deterministic-simulation stand-in for `rayon-core` 1.13.
//!
//! The real `rayon` iterator layer, `ndarray::parallel` and the code under
//! test are compiled unchanged on top of this crate (through a cargo
//! `[patch.crates-io]`).  What is replaced is the *runtime*: a pool is `T`
//! real OS threads of which only the **token holder** runs; every decision a
//! work-stealing pool takes at run time (who continues, who steals which job,
//! which idle worker picks up an injected job) is taken here by a seeded PRNG
//! under a policy, recorded, and replayable.
//!
//! Structure mirrors rayon-core (`registry::in_worker`, `join_context`,
//! `wait_until`, LIFO local deque / FIFO steals / injector), see DESIGN.md §2.1.

use std::any::Any;
use std::cell::{Cell, UnsafeCell};
use std::collections::VecDeque;
use std::marker::PhantomData;
use std::panic::{self, AssertUnwindSafe};
use std::sync::atomic::{AtomicBool, AtomicU64, AtomicUsize, Ordering};
use std::sync::{Arc, Condvar, Mutex, MutexGuard};

pub mod sim;
use sim::{Config, Trace};

// ---------------------------------------------------------------------------
// PRNG (xoshiro256** seeded by splitmix64) — no dependency, no entropy.
// ---------------------------------------------------------------------------
#[derive(Clone)]
pub(crate) struct Rng([u64; 4]);
impl Rng {
    pub(crate) fn new(seed: u64) -> Rng {
        let mut z = seed;
        let mut s = [0u64; 4];
        for v in s.iter_mut() {
            z = z.wrapping_add(0x9E3779B97F4A7C15);
            let mut x = z;
            x = (x ^ (x >> 30)).wrapping_mul(0xBF58476D1CE4E5B9);
            x = (x ^ (x >> 27)).wrapping_mul(0x94D049BB133111EB);
            *v = x ^ (x >> 31);
        }
        Rng(s)
    }
    fn next_u64(&mut self) -> u64 {
        let s = &mut self.0;
        let r = s[1].wrapping_mul(5).rotate_left(7).wrapping_mul(9);
        let t = s[1] << 17;
        s[2] ^= s[0];
        s[3] ^= s[1];
        s[1] ^= s[2];
        s[0] ^= s[3];
        s[2] ^= t;
        s[3] = s[3].rotate_left(45);
        r
    }
    fn below(&mut self, n: u64) -> u64 {
        // n is tiny (number of enabled actions / total weight); modulo bias is irrelevant
        self.next_u64() % n
    }
    fn unit(&mut self) -> f64 {
        (self.next_u64() >> 11) as f64 / (1u64 << 53) as f64
    }
}

// ---------------------------------------------------------------------------
// Jobs
// ---------------------------------------------------------------------------
#[derive(Clone, Copy)]
pub(crate) struct JobRef {
    ptr: *const (),
    exec: unsafe fn(*const ()),
}
unsafe impl Send for JobRef {}
impl JobRef {
    fn id(&self) -> usize {
        self.ptr as usize
    }
    unsafe fn execute(self) {
        (self.exec)(self.ptr)
    }
}

enum JobResult<R> {
    None,
    Ok(R),
    Panic(Box<dyn Any + Send>),
}

/// Waiter for a thread that is *not* a worker of the registry it waits on.
/// `done` is set by the worker when the awaited condition holds; the thread is
/// released (`go`) only when the pool has become quiescent, so that the point at
/// which an uncontrolled thread resumes is deterministic.
pub(crate) struct ExtWaiter {
    done: AtomicBool,
    go: Mutex<bool>,
    cv: Condvar,
}
impl ExtWaiter {
    fn new() -> Arc<ExtWaiter> {
        Arc::new(ExtWaiter {
            done: AtomicBool::new(false),
            go: Mutex::new(false),
            cv: Condvar::new(),
        })
    }
    fn wait(&self) {
        let mut g = self.go.lock().unwrap();
        while !*g {
            g = self.cv.wait(g).unwrap();
        }
    }
    fn release(&self) {
        *self.go.lock().unwrap() = true;
        self.cv.notify_all();
    }
}

struct StackJob<F, R> {
    func: UnsafeCell<Option<F>>,
    result: UnsafeCell<JobResult<R>>,
    latch: AtomicBool,
    ext: Option<Arc<ExtWaiter>>,
}
impl<F, R> StackJob<F, R>
where
    F: FnOnce(bool) -> R,
{
    fn new(f: F, ext: Option<Arc<ExtWaiter>>) -> Self {
        StackJob {
            func: UnsafeCell::new(Some(f)),
            result: UnsafeCell::new(JobResult::None),
            latch: AtomicBool::new(false),
            ext,
        }
    }
    unsafe fn as_job_ref(&self) -> JobRef {
        JobRef {
            ptr: self as *const Self as *const (),
            exec: Self::exec,
        }
    }
    unsafe fn exec(p: *const ()) {
        let this = &*(p as *const Self);
        let f = (*this.func.get()).take().expect("job executed twice");
        let r = panic::catch_unwind(AssertUnwindSafe(|| f(true)));
        *this.result.get() = match r {
            Ok(v) => JobResult::Ok(v),
            Err(e) => JobResult::Panic(e),
        };
        let ext = this.ext.clone();
        this.latch.store(true, Ordering::Release);
        // `this` may be gone from here on (join frame may return)
        if let Some(e) = ext {
            e.done.store(true, Ordering::Release);
        }
    }
    unsafe fn run_inline(&self, migrated: bool) -> R {
        let f = (*self.func.get()).take().expect("job executed twice");
        f(migrated)
    }
    unsafe fn into_result(self) -> R {
        match self.result.into_inner() {
            JobResult::Ok(v) => v,
            JobResult::Panic(e) => panic::resume_unwind(e),
            JobResult::None => unreachable!("job result taken before completion"),
        }
    }
}

type HeapFn = Box<dyn FnOnce() + Send>;
struct HeapJob;
impl HeapJob {
    /// lifetime-erased heap job; caller guarantees it runs before borrowed data dies
    unsafe fn new_ref<'a, F: FnOnce() + Send + 'a>(f: F) -> JobRef {
        let b: Box<dyn FnOnce() + Send + 'a> = Box::new(f);
        let b: HeapFn = std::mem::transmute(b);
        let p = Box::into_raw(Box::new(b));
        JobRef {
            ptr: p as *const (),
            exec: Self::exec,
        }
    }
    unsafe fn exec(p: *const ()) {
        let b: Box<HeapFn> = Box::from_raw(p as *mut HeapFn);
        (*b)()
    }
}

// ---------------------------------------------------------------------------
// Registry
// ---------------------------------------------------------------------------
#[derive(Clone, Copy, PartialEq)]
enum Status {
    /// parked in the worker main loop, nothing on its stack
    Idle,
    /// holds the token
    Running,
    /// preempted at a yield point (can always continue)
    Yield,
    /// waiting for a latch inside a join / scope
    Wait(*const AtomicBool),
}

enum Assign {
    Resume,
    Run(JobRef),
    Exit,
}

#[derive(Clone, Copy)]
enum Action {
    Resume(usize),
    LocalPop(usize),
    Pinned(usize),
    Steal(usize, usize),
    Inject(usize),
}
impl Action {
    fn worker(&self) -> usize {
        match *self {
            Action::Resume(w) | Action::LocalPop(w) | Action::Pinned(w) | Action::Inject(w) => w,
            Action::Steal(w, _) => w,
        }
    }
}

struct Inner {
    deques: Vec<VecDeque<JobRef>>,
    pinned: Vec<VecDeque<JobRef>>,
    injector: VecDeque<JobRef>,
    status: Vec<Status>,
    assignment: Vec<Option<Assign>>,
    token: Option<usize>,
    rng: Rng,
    cfg: Config,
    replay_pos: usize,
    trace: Trace,
    ext_waiters: Vec<Arc<ExtWaiter>>,
    scratch: Vec<Action>,
    terminated: bool,
}
unsafe impl Send for Inner {}

pub(crate) struct Registry {
    id: u64,
    n: usize,
    state: Mutex<Inner>,
    cvs: Vec<Condvar>,
    threads: Mutex<Vec<std::thread::JoinHandle<()>>>,
}

pub(crate) struct WorkerCtx {
    registry: Arc<Registry>,
    index: usize,
}

thread_local! {
    static WORKER: Cell<*const WorkerCtx> = const { Cell::new(std::ptr::null()) };
}

fn current_worker<'a>() -> Option<&'a WorkerCtx> {
    let p = WORKER.with(|w| w.get());
    if p.is_null() {
        None
    } else {
        Some(unsafe { &*p })
    }
}

static GLOBAL: Mutex<Option<Arc<Registry>>> = Mutex::new(None);
static NEXT_POOL_ID: AtomicU64 = AtomicU64::new(0);

pub(crate) fn global_registry() -> Arc<Registry> {
    let mut g = GLOBAL.lock().unwrap();
    if g.is_none() {
        *g = Some(Registry::new(sim::default_config()));
    }
    g.as_ref().unwrap().clone()
}

fn harness_error(msg: &str) -> ! {
    eprintln!("rayon-core-sim: HARNESS ERROR: {msg}");
    std::process::exit(2);
}

impl Registry {
    pub(crate) fn new(cfg: Config) -> Arc<Registry> {
        let n = cfg.threads.max(1);
        let id = NEXT_POOL_ID.fetch_add(1, Ordering::SeqCst);
        let inner = Inner {
            deques: (0..n).map(|_| VecDeque::new()).collect(),
            pinned: (0..n).map(|_| VecDeque::new()).collect(),
            injector: VecDeque::new(),
            status: vec![Status::Idle; n],
            assignment: (0..n).map(|_| None).collect(),
            token: None,
            rng: Rng::new(cfg.seed ^ 0x5EED_0F_5C4ED),
            trace: Trace::new(n),
            cfg,
            replay_pos: 0,
            ext_waiters: Vec::new(),
            scratch: Vec::new(),
            terminated: false,
        };
        let reg = Arc::new(Registry {
            id,
            n,
            state: Mutex::new(inner),
            cvs: (0..n).map(|_| Condvar::new()).collect(),
            threads: Mutex::new(Vec::new()),
        });
        let mut hs = Vec::new();
        for i in 0..n {
            let r = reg.clone();
            let h = std::thread::Builder::new()
                .name(format!("sim-rayon-{id}-{i}"))
                .stack_size(16 << 20)
                .spawn(move || worker_main(r, i))
                .expect("spawn sim worker");
            hs.push(h);
        }
        *reg.threads.lock().unwrap() = hs;
        reg
    }

    fn lock(&self) -> MutexGuard<'_, Inner> {
        match self.state.lock() {
            Ok(g) => g,
            Err(p) => p.into_inner(),
        }
    }

    pub(crate) fn terminate(&self) {
        {
            let mut g = self.lock();
            if g.terminated {
                return;
            }
            if g.token.is_some() {
                harness_error("terminate() while the pool is running");
            }
            g.terminated = true;
            for w in 0..self.n {
                g.assignment[w] = Some(Assign::Exit);
                self.cvs[w].notify_one();
            }
        }
        let hs = std::mem::take(&mut *self.threads.lock().unwrap());
        let me = std::thread::current().id();
        for h in hs {
            if h.thread().id() != me {
                let _ = h.join();
            }
        }
    }

    pub(crate) fn trace_snapshot(&self) -> Trace {
        self.lock().trace.clone()
    }

    // -- scheduling core -----------------------------------------------------

    fn enabled(g: &mut Inner, n: usize, cur: Option<usize>) {
        g.scratch.clear();
        let start = cur.unwrap_or(0);
        for k in 0..n {
            let w = (start + k) % n;
            // canonical order: current worker first, then ascending (cyclic)
            match g.status[w] {
                Status::Running => {}
                Status::Yield => g.scratch.push(Action::Resume(w)),
                st => {
                    if let Status::Wait(l) = st {
                        if unsafe { (*l).load(Ordering::Acquire) } {
                            g.scratch.push(Action::Resume(w));
                            continue;
                        }
                    }
                    if !g.pinned[w].is_empty() {
                        g.scratch.push(Action::Pinned(w));
                    } else if !g.deques[w].is_empty() {
                        g.scratch.push(Action::LocalPop(w));
                    } else {
                        for j in 1..n {
                            let v = (w + j) % n;
                            if !g.deques[v].is_empty() {
                                g.scratch.push(Action::Steal(w, v));
                            }
                        }
                        if !g.injector.is_empty() {
                            g.scratch.push(Action::Inject(w));
                        }
                    }
                }
            }
        }
    }

    fn choose(g: &mut Inner, cur: Option<usize>, at_yield: bool) -> usize {
        let len = g.scratch.len();
        if len == 1 {
            return 0;
        }
        let dno = g.trace.decisions;
        g.trace.decisions += 1;
        if (len as u32) > g.trace.max_options {
            g.trace.max_options = len as u32;
        }
        let pick = if let Some(rp) = g.cfg.replay.as_ref() {
            let mut c = 0usize;
            if g.replay_pos < rp.len() && rp[g.replay_pos].0 == dno {
                c = rp[g.replay_pos].1 as usize % len;
                g.replay_pos += 1;
            }
            c
        } else {
            let pol = g.cfg.policy;
            if pol.p_uniform > 0.0 && g.rng.unit() < pol.p_uniform {
                g.rng.below(len as u64) as usize
            } else {
                let wts = if at_yield { pol.at_yield } else { pol.at_wait };
                let class = |a: &Action| -> usize {
                    if Some(a.worker()) == cur {
                        0
                    } else {
                        match a {
                            Action::Steal(..) | Action::Inject(..) => 1,
                            _ => 2,
                        }
                    }
                };
                let total: u64 = g.scratch.iter().map(|a| wts[class(a)] as u64).sum();
                if total == 0 || (wts[1] == 0 && wts[2] == 0) {
                    0
                } else {
                    let mut x = g.rng.below(total);
                    let mut idx = 0;
                    for (i, a) in g.scratch.iter().enumerate() {
                        let w = wts[class(a)] as u64;
                        if x < w {
                            idx = i;
                            break;
                        }
                        x -= w;
                    }
                    idx
                }
            }
        };
        if pick != 0 {
            g.trace.nonzero.push((dno, pick as u32));
        }
        pick
    }

    /// Take one scheduling decision.  Called with the lock held, either by the
    /// token holder (`cur = Some(me)`, whose status has already been updated) or
    /// by an external thread when the pool is quiescent (`cur = None`).
    fn schedule_locked(&self, g: &mut Inner, cur: Option<usize>, at_yield: bool) {
        Self::enabled(g, self.n, cur);
        if g.scratch.is_empty() {
            g.token = None;
            // quiescent: release external waiters whose condition holds
            let mut i = 0;
            while i < g.ext_waiters.len() {
                if g.ext_waiters[i].done.load(Ordering::Acquire) {
                    let w = g.ext_waiters.swap_remove(i);
                    w.release();
                } else {
                    i += 1;
                }
            }
            if !g.ext_waiters.is_empty() {
                harness_error("deadlock: pool quiescent while a caller still waits for work");
            }
            for w in 0..self.n {
                if g.status[w] != Status::Idle {
                    harness_error("deadlock: worker blocked inside a join with nothing runnable");
                }
            }
            return;
        }
        let idx = Self::choose(g, cur, at_yield);
        let act = g.scratch[idx];
        let w = act.worker();
        let t = &mut g.trace;
        let code: u64 = match act {
            Action::Resume(_) => {
                t.resumes += 1;
                1
            }
            Action::LocalPop(_) => {
                t.local_pops += 1;
                2
            }
            Action::Pinned(_) => 3,
            Action::Steal(_, v) => {
                t.steals += 1;
                4 + 16 * v as u64
            }
            Action::Inject(_) => {
                t.injected += 1;
                5
            }
        };
        if Some(w) != cur {
            t.handoffs += 1;
        }
        t.sched_hash = (t.sched_hash ^ (code + 1024 * w as u64)).wrapping_mul(0x100000001b3);
        let asg = match act {
            Action::Resume(_) => Assign::Resume,
            Action::LocalPop(_) => Assign::Run(g.deques[w].pop_back().unwrap()),
            Action::Pinned(_) => Assign::Run(g.pinned[w].pop_front().unwrap()),
            Action::Steal(_, v) => Assign::Run(g.deques[v].pop_front().unwrap()),
            Action::Inject(_) => Assign::Run(g.injector.pop_front().unwrap()),
        };
        if matches!(asg, Assign::Run(_)) {
            g.trace.jobs_per_worker[w] += 1;
        }
        debug_assert!(g.assignment[w].is_none());
        g.assignment[w] = Some(asg);
        g.token = Some(w);
        if Some(w) != cur {
            self.cvs[w].notify_one();
        }
    }

    /// A scheduling point of worker `me` (token holder).  Optionally pushes a
    /// job on its own deque first.  Returns what `me` does next.
    fn sched_point(&self, me: usize, st: Status, push: Option<JobRef>) -> Assign {
        let mut g = self.lock();
        if g.token != Some(me) {
            harness_error("scheduling point reached by a worker that does not hold the token");
        }
        if let Some(j) = push {
            g.deques[me].push_back(j);
            g.trace.pushes += 1;
        }
        g.status[me] = st;
        self.schedule_locked(&mut g, Some(me), st == Status::Yield);
        loop {
            if let Some(a) = g.assignment[me].take() {
                g.status[me] = Status::Running;
                return a;
            }
            g = match self.cvs[me].wait(g) {
                Ok(g) => g,
                Err(p) => p.into_inner(),
            };
        }
    }

    /// Wait (as worker `me`) until `latch` is set, executing other work meanwhile.
    /// `on_job` may intercept a popped job (used by join to run `b` inline).
    fn wait_until(&self, me: usize, latch: &AtomicBool, mut on_job: impl FnMut(JobRef) -> bool) {
        while !latch.load(Ordering::Acquire) {
            match self.sched_point(me, Status::Wait(latch as *const _), None) {
                Assign::Resume => {}
                Assign::Run(job) => {
                    if on_job(job) {
                        return;
                    }
                }
                Assign::Exit => harness_error("pool terminated while a worker waits in a join"),
            }
        }
    }

    fn inject(&self, job: JobRef, ext: Option<Arc<ExtWaiter>>, kick: bool) {
        let mut g = self.lock();
        if g.terminated {
            harness_error("job injected into a terminated pool");
        }
        g.injector.push_back(job);
        g.trace.injections += 1;
        if let Some(e) = ext {
            g.ext_waiters.push(e);
        }
        if kick && g.token.is_none() {
            self.schedule_locked(&mut g, None, false);
        }
    }

    fn register_ext_and_kick(&self, ext: Arc<ExtWaiter>) {
        let mut g = self.lock();
        g.ext_waiters.push(ext);
        if g.token.is_none() {
            self.schedule_locked(&mut g, None, false);
        }
    }

    fn is_current(self: &Arc<Self>) -> Option<&WorkerCtx> {
        current_worker().filter(|c| Arc::ptr_eq(&c.registry, self))
    }

    pub(crate) fn in_worker<OP, R>(self: &Arc<Self>, op: OP) -> R
    where
        OP: FnOnce(&WorkerCtx, bool) -> R + Send,
        R: Send,
    {
        if let Some(ctx) = self.is_current() {
            op(ctx, false)
        } else {
            // cold path (non-worker thread) and cross-pool path: inject and block.
            let ext = ExtWaiter::new();
            let job = StackJob::new(
                |_| {
                    let ctx = current_worker().expect("injected job runs on a worker");
                    op(ctx, true)
                },
                Some(ext.clone()),
            );
            self.inject(unsafe { job.as_job_ref() }, Some(ext.clone()), true);
            ext.wait();
            unsafe { job.into_result() }
        }
    }

    /// push on the local deque when called from a worker of this pool (followed
    /// by a yield point), inject otherwise
    fn inject_or_push(self: &Arc<Self>, job: JobRef, kick: bool) {
        if let Some(ctx) = self.is_current() {
            match self.sched_point(ctx.index, Status::Yield, Some(job)) {
                Assign::Resume => {}
                _ => unreachable!(),
            }
        } else {
            self.inject(job, None, kick);
        }
    }
}

fn in_worker<OP, R>(op: OP) -> R
where
    OP: FnOnce(&WorkerCtx, bool) -> R + Send,
    R: Send,
{
    if let Some(ctx) = current_worker() {
        op(ctx, false)
    } else {
        global_registry().in_worker(op)
    }
}

pub(crate) fn preempt_point() {
    if let Some(ctx) = current_worker() {
        let reg = ctx.registry.clone();
        {
            let mut g = reg.lock();
            g.trace.preempt_points += 1;
        }
        match reg.sched_point(ctx.index, Status::Yield, None) {
            Assign::Resume => {}
            _ => unreachable!(),
        }
    }
}

fn worker_main(reg: Arc<Registry>, index: usize) {
    sim::call_thread_hook(reg.id, index);
    let ctx = WorkerCtx {
        registry: reg.clone(),
        index,
    };
    WORKER.with(|w| w.set(&ctx as *const _));
    // first assignment arrives without us holding the token
    let mut asg = {
        let mut g = reg.lock();
        loop {
            if let Some(a) = g.assignment[index].take() {
                if !matches!(a, Assign::Exit) {
                    g.status[index] = Status::Running;
                }
                break a;
            }
            g = match reg.cvs[index].wait(g) {
                Ok(g) => g,
                Err(p) => p.into_inner(),
            };
        }
    };
    loop {
        match asg {
            Assign::Exit => break,
            Assign::Resume => {}
            Assign::Run(job) => unsafe { job.execute() },
        }
        asg = reg.sched_point(index, Status::Idle, None);
    }
    WORKER.with(|w| w.set(std::ptr::null()));
}

// ---------------------------------------------------------------------------
// join
// ---------------------------------------------------------------------------

/// Provides the calling context to a closure called by `join_context`.
#[derive(Debug)]
pub struct FnContext {
    migrated: bool,
    _marker: PhantomData<*mut ()>,
}
impl FnContext {
    fn new(migrated: bool) -> Self {
        FnContext {
            migrated,
            _marker: PhantomData,
        }
    }
    /// `true` if the closure runs on a different thread than it was provided from.
    pub fn migrated(&self) -> bool {
        self.migrated
    }
}

pub fn join<A, B, RA, RB>(oper_a: A, oper_b: B) -> (RA, RB)
where
    A: FnOnce() -> RA + Send,
    B: FnOnce() -> RB + Send,
    RA: Send,
    RB: Send,
{
    join_context(|_| oper_a(), |_| oper_b())
}

pub fn join_context<A, B, RA, RB>(oper_a: A, oper_b: B) -> (RA, RB)
where
    A: FnOnce(FnContext) -> RA + Send,
    B: FnOnce(FnContext) -> RB + Send,
    RA: Send,
    RB: Send,
{
    in_worker(|ctx, injected| unsafe {
        let reg = &ctx.registry;
        let me = ctx.index;
        let job_b = StackJob::new(move |migrated| oper_b(FnContext::new(migrated)), None);
        let job_b_ref = job_b.as_job_ref();
        let job_b_id = job_b_ref.id();
        // push b; yield point: others may steal it from now on
        match reg.sched_point(me, Status::Yield, Some(job_b_ref)) {
            Assign::Resume => {}
            _ => unreachable!(),
        }
        let status_a = panic::catch_unwind(AssertUnwindSafe(|| oper_a(FnContext::new(injected))));
        match status_a {
            Err(err) => {
                // a panicked: b must still complete before we unwind
                reg.wait_until(me, &job_b.latch, |job| {
                    job.execute();
                    false
                });
                panic::resume_unwind(err)
            }
            Ok(result_a) => {
                let mut inline: Option<RB> = None;
                reg.wait_until(me, &job_b.latch, |job| {
                    if job.id() == job_b_id {
                        inline = Some(job_b.run_inline(injected));
                        true
                    } else {
                        job.execute();
                        false
                    }
                });
                match inline {
                    Some(rb) => (result_a, rb),
                    None => (result_a, job_b.into_result()),
                }
            }
        }
    })
}

// ---------------------------------------------------------------------------
// scope
// ---------------------------------------------------------------------------
struct ScopeBase<'scope> {
    registry: Arc<Registry>,
    pending: AtomicUsize,
    latch: AtomicBool,
    ext: Mutex<Option<Arc<ExtWaiter>>>,
    panic: Mutex<Option<Box<dyn Any + Send>>>,
    marker: PhantomData<Box<dyn FnOnce(&Scope<'scope>) + Send + Sync + 'scope>>,
}

pub struct Scope<'scope> {
    base: ScopeBase<'scope>,
}
pub struct ScopeFifo<'scope> {
    inner: Scope<'scope>,
}

struct SendPtr<T>(*const T);
unsafe impl<T> Send for SendPtr<T> {}
unsafe impl<T> Sync for SendPtr<T> {}

impl<'scope> ScopeBase<'scope> {
    fn new(registry: Arc<Registry>) -> Self {
        ScopeBase {
            registry,
            pending: AtomicUsize::new(1),
            latch: AtomicBool::new(false),
            ext: Mutex::new(None),
            panic: Mutex::new(None),
            marker: PhantomData,
        }
    }
    fn job_completed(&self) {
        if self.pending.fetch_sub(1, Ordering::SeqCst) == 1 {
            let ext = self.ext.lock().unwrap().clone();
            self.latch.store(true, Ordering::Release);
            if let Some(e) = ext {
                e.done.store(true, Ordering::Release);
            }
        }
    }
    fn store_panic(&self, e: Box<dyn Any + Send>) {
        let mut p = self.panic.lock().unwrap();
        if p.is_none() {
            *p = Some(e);
        }
    }
    fn complete<R>(&self, f: impl FnOnce() -> R) -> R {
        let reg = self.registry.clone();
        let owner = reg.is_current().map(|c| c.index);
        let ext = if owner.is_none() {
            let e = ExtWaiter::new();
            *self.ext.lock().unwrap() = Some(e.clone());
            Some(e)
        } else {
            None
        };
        let r = match panic::catch_unwind(AssertUnwindSafe(f)) {
            Ok(v) => Some(v),
            Err(e) => {
                self.store_panic(e);
                None
            }
        };
        self.job_completed();
        match owner {
            Some(me) => reg.wait_until(me, &self.latch, |job| {
                unsafe { job.execute() };
                false
            }),
            None => {
                let e = ext.unwrap();
                if !self.latch.load(Ordering::Acquire) {
                    reg.register_ext_and_kick(e.clone());
                    e.wait();
                }
            }
        }
        if let Some(e) = self.panic.lock().unwrap().take() {
            panic::resume_unwind(e);
        }
        r.unwrap()
    }
}

impl<'scope> Scope<'scope> {
    fn new(registry: Arc<Registry>) -> Self {
        Scope {
            base: ScopeBase::new(registry),
        }
    }
    pub fn spawn<BODY>(&self, body: BODY)
    where
        BODY: FnOnce(&Scope<'scope>) + Send + 'scope,
    {
        self.base.pending.fetch_add(1, Ordering::SeqCst);
        let sp = SendPtr(self as *const Scope<'scope>);
        let job = unsafe {
            HeapJob::new_ref(move || {
                let sp = sp;
                let scope = &*sp.0;
                if let Err(e) = panic::catch_unwind(AssertUnwindSafe(|| body(scope))) {
                    scope.base.store_panic(e);
                }
                scope.base.job_completed();
            })
        };
        // an in-place scope owned by a non-worker thread must not start the pool
        // before the owner blocks (it would run concurrently with it)
        self.base.registry.inject_or_push(job, false);
    }
    pub fn spawn_broadcast<BODY>(&self, body: BODY)
    where
        BODY: Fn(&Scope<'scope>, BroadcastContext<'_>) + Send + Sync + 'scope,
    {
        let n = self.base.registry.n;
        let body = Arc::new(body);
        for i in 0..n {
            self.base.pending.fetch_add(1, Ordering::SeqCst);
            let sp = SendPtr(self as *const Scope<'scope>);
            let body = body.clone();
            let job = unsafe {
                HeapJob::new_ref(move || {
                    let sp = sp;
                    let scope = &*sp.0;
                    let r = panic::catch_unwind(AssertUnwindSafe(|| {
                        BroadcastContext::with(|ctx| body(scope, ctx))
                    }));
                    if let Err(e) = r {
                        scope.base.store_panic(e);
                    }
                    scope.base.job_completed();
                })
            };
            let reg = &self.base.registry;
            let mut g = reg.lock();
            g.pinned[i].push_back(job);
        }
    }
}

impl<'scope> ScopeFifo<'scope> {
    /// FIFO order is not modelled: spawns behave like [`Scope::spawn`] (stub).
    pub fn spawn_fifo<BODY>(&self, body: BODY)
    where
        BODY: FnOnce(&ScopeFifo<'scope>) + Send + 'scope,
    {
        let sp = SendPtr(self as *const ScopeFifo<'scope>);
        self.inner.spawn(move |_| {
            let sp = sp;
            body(unsafe { &*sp.0 })
        });
    }
    pub fn spawn_broadcast<BODY>(&self, body: BODY)
    where
        BODY: Fn(&ScopeFifo<'scope>, BroadcastContext<'_>) + Send + Sync + 'scope,
    {
        let sp = SendPtr(self as *const ScopeFifo<'scope>);
        self.inner.spawn_broadcast(move |_, ctx| {
            let sp = &sp;
            body(unsafe { &*sp.0 }, ctx)
        });
    }
}

impl std::fmt::Debug for Scope<'_> {
    fn fmt(&self, f: &mut std::fmt::Formatter<'_>) -> std::fmt::Result {
        f.debug_struct("Scope").field("pool_id", &self.base.registry.id).finish()
    }
}
impl std::fmt::Debug for ScopeFifo<'_> {
    fn fmt(&self, f: &mut std::fmt::Formatter<'_>) -> std::fmt::Result {
        f.debug_struct("ScopeFifo").finish()
    }
}

fn scope_in<'scope, OP, R>(reg: Option<&Arc<Registry>>, op: OP) -> R
where
    OP: FnOnce(&Scope<'scope>) -> R + Send,
    R: Send,
{
    let body = |ctx: &WorkerCtx, _| {
        let scope = Scope::<'scope>::new(ctx.registry.clone());
        scope.base.complete(|| op(&scope))
    };
    match reg {
        Some(r) => r.in_worker(body),
        None => in_worker(body),
    }
}

fn in_place_scope_in<'scope, OP, R>(reg: Option<&Arc<Registry>>, op: OP) -> R
where
    OP: FnOnce(&Scope<'scope>) -> R,
{
    let registry = match reg {
        Some(r) => r.clone(),
        None => match current_worker() {
            Some(c) => c.registry.clone(),
            None => global_registry(),
        },
    };
    let scope = Scope::<'scope>::new(registry);
    scope.base.complete(|| op(&scope))
}

pub fn scope<'scope, OP, R>(op: OP) -> R
where
    OP: FnOnce(&Scope<'scope>) -> R + Send,
    R: Send,
{
    scope_in(None, op)
}
pub fn scope_fifo<'scope, OP, R>(op: OP) -> R
where
    OP: FnOnce(&ScopeFifo<'scope>) -> R + Send,
    R: Send,
{
    in_worker(|ctx, _| {
        let s = ScopeFifo {
            inner: Scope::<'scope>::new(ctx.registry.clone()),
        };
        s.inner.base.complete(|| op(&s))
    })
}
pub fn in_place_scope<'scope, OP, R>(op: OP) -> R
where
    OP: FnOnce(&Scope<'scope>) -> R,
{
    in_place_scope_in(None, op)
}
pub fn in_place_scope_fifo<'scope, OP, R>(op: OP) -> R
where
    OP: FnOnce(&ScopeFifo<'scope>) -> R,
{
    let registry = match current_worker() {
        Some(c) => c.registry.clone(),
        None => global_registry(),
    };
    let s = ScopeFifo {
        inner: Scope::<'scope>::new(registry),
    };
    s.inner.base.complete(|| op(&s))
}

// ---------------------------------------------------------------------------
// spawn / broadcast
// ---------------------------------------------------------------------------
pub fn spawn<F>(func: F)
where
    F: FnOnce() + Send + 'static,
{
    let reg = match current_worker() {
        Some(c) => c.registry.clone(),
        None => global_registry(),
    };
    spawn_in(&reg, func)
}
fn spawn_in<F>(reg: &Arc<Registry>, func: F)
where
    F: FnOnce() + Send + 'static,
{
    let job = unsafe {
        HeapJob::new_ref(move || {
            if panic::catch_unwind(AssertUnwindSafe(func)).is_err() {
                eprintln!("rayon-core-sim: detached job panicked; aborting like rayon");
                std::process::abort();
            }
        })
    };
    // detached spawn from a non-worker thread starts the pool at once: the one
    // place where an uncontrolled thread races with the pool (unused by linfa)
    reg.inject_or_push(job, true);
}
pub fn spawn_fifo<F>(func: F)
where
    F: FnOnce() + Send + 'static,
{
    spawn(func)
}

pub struct BroadcastContext<'a> {
    worker: &'a WorkerCtx,
    _marker: PhantomData<&'a mut dyn Fn()>,
}
impl<'a> BroadcastContext<'a> {
    fn with<R>(f: impl FnOnce(BroadcastContext<'_>) -> R) -> R {
        let w = current_worker().expect("broadcast job on a worker");
        f(BroadcastContext {
            worker: w,
            _marker: PhantomData,
        })
    }
    pub fn index(&self) -> usize {
        self.worker.index
    }
    pub fn num_threads(&self) -> usize {
        self.worker.registry.n
    }
}
impl std::fmt::Debug for BroadcastContext<'_> {
    fn fmt(&self, f: &mut std::fmt::Formatter<'_>) -> std::fmt::Result {
        f.debug_struct("BroadcastContext").field("index", &self.index()).finish()
    }
}

fn broadcast_in<OP, R>(reg: &Arc<Registry>, op: OP) -> Vec<R>
where
    OP: Fn(BroadcastContext<'_>) -> R + Sync,
    R: Send,
{
    let n = reg.n;
    let results: Vec<Mutex<Option<R>>> = (0..n).map(|_| Mutex::new(None)).collect();
    let res = &results;
    let op = &op;
    in_place_scope_in(Some(reg), |s| {
        s.spawn_broadcast(move |_, ctx| {
            let i = ctx.index();
            let r = op(ctx);
            *res[i].lock().unwrap() = Some(r);
        });
    });
    results
        .into_iter()
        .map(|m| m.into_inner().unwrap().expect("broadcast result"))
        .collect()
}
pub fn broadcast<OP, R>(op: OP) -> Vec<R>
where
    OP: Fn(BroadcastContext<'_>) -> R + Sync,
    R: Send,
{
    let reg = match current_worker() {
        Some(c) => c.registry.clone(),
        None => global_registry(),
    };
    broadcast_in(&reg, op)
}
pub fn spawn_broadcast<OP>(op: OP)
where
    OP: Fn(BroadcastContext<'_>) + Send + Sync + 'static,
{
    let reg = match current_worker() {
        Some(c) => c.registry.clone(),
        None => global_registry(),
    };
    spawn_broadcast_in(&reg, op)
}
fn spawn_broadcast_in<OP>(reg: &Arc<Registry>, op: OP)
where
    OP: Fn(BroadcastContext<'_>) + Send + Sync + 'static,
{
    let op = Arc::new(op);
    let mut g = reg.lock();
    for i in 0..reg.n {
        let op = op.clone();
        let job = unsafe { HeapJob::new_ref(move || BroadcastContext::with(|c| op(c))) };
        g.pinned[i].push_back(job);
    }
    if g.token.is_none() {
        reg.schedule_locked(&mut g, None, false);
    }
}

// ---------------------------------------------------------------------------
// thread-pool facade
// ---------------------------------------------------------------------------
pub fn max_num_threads() -> usize {
    1 << 16
}
pub fn current_num_threads() -> usize {
    match current_worker() {
        Some(c) => c.registry.n,
        None => global_registry().n,
    }
}
pub fn current_thread_index() -> Option<usize> {
    current_worker().map(|c| c.index)
}
pub fn current_thread_has_pending_tasks() -> Option<bool> {
    current_worker().map(|c| !c.registry.lock().deques[c.index].is_empty())
}

#[derive(Clone, Copy, Debug, PartialEq, Eq)]
pub enum Yield {
    Executed,
    Idle,
}
fn yield_impl(local_only: bool) -> Option<Yield> {
    let c = current_worker()?;
    let job = {
        let mut g = c.registry.lock();
        let me = c.index;
        if let Some(j) = g.deques[me].pop_back() {
            Some(j)
        } else if local_only {
            None
        } else {
            let n = c.registry.n;
            let mut found = None;
            for j in 1..n {
                let v = (me + j) % n;
                if let Some(job) = g.deques[v].pop_front() {
                    found = Some(job);
                    break;
                }
            }
            found.or_else(|| g.injector.pop_front())
        }
    };
    match job {
        Some(j) => {
            unsafe { j.execute() };
            Some(Yield::Executed)
        }
        None => Some(Yield::Idle),
    }
}
pub fn yield_now() -> Option<Yield> {
    yield_impl(false)
}
pub fn yield_local() -> Option<Yield> {
    yield_impl(true)
}

#[derive(Debug)]
pub struct ThreadPoolBuildError {
    msg: &'static str,
}
impl std::fmt::Display for ThreadPoolBuildError {
    fn fmt(&self, f: &mut std::fmt::Formatter<'_>) -> std::fmt::Result {
        f.write_str(self.msg)
    }
}
impl std::error::Error for ThreadPoolBuildError {}

pub struct ThreadBuilder {
    index: usize,
}
impl ThreadBuilder {
    pub fn index(&self) -> usize {
        self.index
    }
    pub fn name(&self) -> Option<&str> {
        None
    }
    pub fn stack_size(&self) -> Option<usize> {
        None
    }
    pub fn run(self) {
        harness_error("custom spawn handlers are not supported by the simulated pool");
    }
}
impl std::fmt::Debug for ThreadBuilder {
    fn fmt(&self, f: &mut std::fmt::Formatter<'_>) -> std::fmt::Result {
        f.debug_struct("ThreadBuilder").field("index", &self.index).finish()
    }
}

#[derive(Default)]
pub struct ThreadPoolBuilder {
    num_threads: usize,
}
impl std::fmt::Debug for ThreadPoolBuilder {
    fn fmt(&self, f: &mut std::fmt::Formatter<'_>) -> std::fmt::Result {
        f.debug_struct("ThreadPoolBuilder").field("num_threads", &self.num_threads).finish()
    }
}
impl ThreadPoolBuilder {
    pub fn new() -> Self {
        Self::default()
    }
    fn config(&self) -> Config {
        let mut c = sim::default_config();
        if self.num_threads > 0 {
            c.threads = self.num_threads;
        }
        c
    }
    pub fn build(self) -> Result<ThreadPool, ThreadPoolBuildError> {
        Ok(ThreadPool {
            registry: Registry::new(self.config()),
        })
    }
    pub fn build_global(self) -> Result<(), ThreadPoolBuildError> {
        let mut g = GLOBAL.lock().unwrap();
        if g.is_some() {
            return Err(ThreadPoolBuildError {
                msg: "The global thread pool has already been initialized.",
            });
        }
        *g = Some(Registry::new(self.config()));
        Ok(())
    }
    pub fn num_threads(mut self, n: usize) -> Self {
        self.num_threads = n;
        self
    }
    pub fn thread_name<F>(self, _f: F) -> Self
    where
        F: FnMut(usize) -> String + 'static,
    {
        self
    }
    pub fn stack_size(self, _s: usize) -> Self {
        self
    }
    pub fn breadth_first(self) -> Self {
        self
    }
    pub fn use_current_thread(self) -> Self {
        self
    }
    pub fn panic_handler<H>(self, _h: H) -> Self
    where
        H: Fn(Box<dyn Any + Send>) + Send + Sync + 'static,
    {
        self
    }
    pub fn start_handler<H>(self, _h: H) -> Self
    where
        H: Fn(usize) + Send + Sync + 'static,
    {
        self
    }
    pub fn exit_handler<H>(self, _h: H) -> Self
    where
        H: Fn(usize) + Send + Sync + 'static,
    {
        self
    }
}

pub struct ThreadPool {
    registry: Arc<Registry>,
}
impl std::fmt::Debug for ThreadPool {
    fn fmt(&self, f: &mut std::fmt::Formatter<'_>) -> std::fmt::Result {
        f.debug_struct("ThreadPool")
            .field("num_threads", &self.registry.n)
            .field("id", &self.registry.id)
            .finish()
    }
}
impl ThreadPool {
    pub fn install<OP, R>(&self, op: OP) -> R
    where
        OP: FnOnce() -> R + Send,
        R: Send,
    {
        self.registry.in_worker(|_, _| op())
    }
    pub fn broadcast<OP, R>(&self, op: OP) -> Vec<R>
    where
        OP: Fn(BroadcastContext<'_>) -> R + Sync,
        R: Send,
    {
        broadcast_in(&self.registry, op)
    }
    pub fn current_num_threads(&self) -> usize {
        self.registry.n
    }
    pub fn current_thread_index(&self) -> Option<usize> {
        self.registry.is_current().map(|c| c.index)
    }
    pub fn current_thread_has_pending_tasks(&self) -> Option<bool> {
        self.registry
            .is_current()
            .map(|c| !self.registry.lock().deques[c.index].is_empty())
    }
    pub fn join<A, B, RA, RB>(&self, a: A, b: B) -> (RA, RB)
    where
        A: FnOnce() -> RA + Send,
        B: FnOnce() -> RB + Send,
        RA: Send,
        RB: Send,
    {
        self.install(|| join(a, b))
    }
    pub fn scope<'scope, OP, R>(&self, op: OP) -> R
    where
        OP: FnOnce(&Scope<'scope>) -> R + Send,
        R: Send,
    {
        scope_in(Some(&self.registry), op)
    }
    pub fn scope_fifo<'scope, OP, R>(&self, op: OP) -> R
    where
        OP: FnOnce(&ScopeFifo<'scope>) -> R + Send,
        R: Send,
    {
        self.install(|| scope_fifo(op))
    }
    pub fn in_place_scope<'scope, OP, R>(&self, op: OP) -> R
    where
        OP: FnOnce(&Scope<'scope>) -> R,
    {
        in_place_scope_in(Some(&self.registry), op)
    }
    pub fn in_place_scope_fifo<'scope, OP, R>(&self, op: OP) -> R
    where
        OP: FnOnce(&ScopeFifo<'scope>) -> R,
    {
        let s = ScopeFifo {
            inner: Scope::<'scope>::new(self.registry.clone()),
        };
        s.inner.base.complete(|| op(&s))
    }
    pub fn spawn<OP>(&self, op: OP)
    where
        OP: FnOnce() + Send + 'static,
    {
        spawn_in(&self.registry, op)
    }
    pub fn spawn_fifo<OP>(&self, op: OP)
    where
        OP: FnOnce() + Send + 'static,
    {
        spawn_in(&self.registry, op)
    }
    pub fn spawn_broadcast<OP>(&self, op: OP)
    where
        OP: Fn(BroadcastContext<'_>) + Send + Sync + 'static,
    {
        spawn_broadcast_in(&self.registry, op)
    }
    pub fn yield_now(&self) -> Option<Yield> {
        self.registry.is_current()?;
        yield_impl(false)
    }
    pub fn yield_local(&self) -> Option<Yield> {
        self.registry.is_current()?;
        yield_impl(true)
    }
    /// simulator extension: what the scheduler of this pool did so far
    pub fn sim_trace(&self) -> Trace {
        self.registry.trace_snapshot()
    }
}
impl Drop for ThreadPool {
    fn drop(&mut self) {
        self.registry.terminate();
    }
}
