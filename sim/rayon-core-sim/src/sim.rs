//! Control surface of the simulated pool (not part of rayon-core's API).

use crate::{Registry, GLOBAL};
use std::sync::{Mutex, OnceLock};

/// Weights per action class `[current worker continues, another worker steals /
/// takes injected work, another parked worker resumes]`, separately for
/// decisions taken at a yield point (right after a push) and at a wait/idle point.
#[derive(Clone, Copy, Debug, PartialEq)]
pub struct Policy {
    pub at_yield: [u32; 3],
    pub at_wait: [u32; 3],
    /// with this probability a decision is uniform over all enabled actions
    pub p_uniform: f64,
}

impl Policy {
    pub const SEQUENTIAL: Policy = Policy { at_yield: [1, 0, 0], at_wait: [1, 0, 0], p_uniform: 0.0 };
    pub const EAGER_STEAL: Policy = Policy { at_yield: [1, 20, 1], at_wait: [1, 20, 1], p_uniform: 0.0 };
    pub const LATE_STEAL: Policy = Policy { at_yield: [1, 0, 0], at_wait: [1, 20, 2], p_uniform: 0.0 };
    pub const CHAOS: Policy = Policy { at_yield: [1, 1, 1], at_wait: [1, 1, 1], p_uniform: 0.0 };
    pub const SWITCHY: Policy = Policy { at_yield: [1, 2, 20], at_wait: [1, 2, 20], p_uniform: 0.0 };
    pub fn random(p: f64) -> Policy {
        Policy { at_yield: [1, 0, 0], at_wait: [1, 0, 0], p_uniform: p }
    }
    pub fn by_name(s: &str) -> Option<Policy> {
        Some(match s {
            "sequential" => Self::SEQUENTIAL,
            "eager-steal" => Self::EAGER_STEAL,
            "late-steal" => Self::LATE_STEAL,
            "chaos" => Self::CHAOS,
            "switchy" => Self::SWITCHY,
            _ => {
                let p = s.strip_prefix("random:")?.parse::<f64>().ok()?;
                Self::random(p)
            }
        })
    }
}

#[derive(Clone, Debug)]
pub struct Config {
    pub threads: usize,
    pub seed: u64,
    pub policy: Policy,
    /// replay mode: `(decision number, option index)` for every decision that did
    /// not take option 0; the PRNG and the policy are then ignored
    pub replay: Option<Vec<(u64, u32)>>,
}

impl Default for Config {
    fn default() -> Self {
        Config { threads: 4, seed: 0, policy: Policy::SEQUENTIAL, replay: None }
    }
}

/// What the scheduler did. `nonzero` + the code is sufficient to replay.
#[derive(Clone, Debug, Default)]
pub struct Trace {
    /// decisions with at least two enabled actions
    pub decisions: u64,
    pub nonzero: Vec<(u64, u32)>,
    pub max_options: u32,
    pub pushes: u64,
    /// cooperative preemption points reached inside jobs (vendored rayon combinators)
    pub preempt_points: u64,
    pub steals: u64,
    pub injections: u64,
    pub injected: u64,
    pub local_pops: u64,
    pub resumes: u64,
    pub handoffs: u64,
    pub jobs_per_worker: Vec<u64>,
    /// FNV-style hash over every applied action (forced ones included)
    pub sched_hash: u64,
}
impl Trace {
    pub(crate) fn new(n: usize) -> Trace {
        Trace { jobs_per_worker: vec![0; n], sched_hash: 0xcbf29ce484222325, ..Default::default() }
    }
    pub fn workers_used(&self) -> usize {
        self.jobs_per_worker.iter().filter(|&&c| c > 0).count()
    }
}

static DEFAULT: Mutex<Option<Config>> = Mutex::new(None);
static HOOK: OnceLock<fn(u64, usize)> = OnceLock::new();

/// configuration used for pools built without explicit simulation settings
/// (`ThreadPoolBuilder`, lazily created global pool)
pub fn set_default_config(c: Config) {
    *DEFAULT.lock().unwrap() = Some(c);
}
pub fn default_config() -> Config {
    DEFAULT.lock().unwrap().clone().unwrap_or_default()
}

/// called first thing on every simulated worker thread: `(pool id, worker index)`
pub fn set_thread_start_hook(f: fn(u64, usize)) {
    let _ = HOOK.set(f);
}
pub(crate) fn call_thread_hook(pool: u64, idx: usize) {
    if let Some(f) = HOOK.get() {
        f(pool, idx)
    }
}

/// Replace the global pool (the previous one must be quiescent; its threads are joined).
/// Returns the new pool's id.
pub fn install_global(cfg: Config) -> u64 {
    let old = GLOBAL.lock().unwrap().take();
    if let Some(o) = old {
        o.terminate();
    }
    let r = Registry::new(cfg);
    let id = r.id;
    *GLOBAL.lock().unwrap() = Some(r);
    id
}

/// Tear the global pool down, returning its trace.
pub fn shutdown_global() -> Option<Trace> {
    let old = GLOBAL.lock().unwrap().take();
    old.map(|o| {
        o.terminate();
        o.trace_snapshot()
    })
}

pub fn global_trace() -> Option<Trace> {
    GLOBAL.lock().unwrap().as_ref().map(|r| r.trace_snapshot())
}

/// id the next pool will get (pool ids feed the per-thread entropy stream key)
pub fn next_pool_id() -> u64 {
    crate::NEXT_POOL_ID.load(std::sync::atomic::Ordering::SeqCst)
}
/// reset pool numbering (so that a simulated process is a function of its seed,
/// not of how many pools this OS process created before)
pub fn reset_pool_ids(v: u64) {
    crate::NEXT_POOL_ID.store(v, std::sync::atomic::Ordering::SeqCst);
}

/// Cooperative preemption point for code running inside a job (used by the vendored
/// `rayon` at the places where its combinators touch shared state): when called on a
/// worker of a simulated pool, the scheduler may let another worker run before this one
/// continues.  No-op on other threads.
pub fn preempt() {
    crate::preempt_point();
}
