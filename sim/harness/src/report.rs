//! Evidence files, replay files, known findings, VIOLATION lines.

use serde::{Deserialize, Serialize};
use serde_json::{json, Value};
use std::path::PathBuf;

pub fn verif_root() -> PathBuf {
    if let Some(p) = std::env::var_os("VERIF_ROOT") {
        return PathBuf::from(p);
    }
    // binary lives in <root>/sim/target/release/
    if let Ok(exe) = std::env::current_exe() {
        if let Some(root) = exe.ancestors().nth(4) {
            if root.join("properties.jsonl").exists() {
                return root.to_path_buf();
            }
        }
    }
    PathBuf::from("/verif")
}

pub fn harness_error(msg: &str) -> ! {
    eprintln!("HARNESS ERROR: {msg}");
    std::process::exit(2)
}

pub fn seed_from_env() -> u64 {
    match std::env::var("VERIF_SEED") {
        Ok(s) => s.trim().parse::<u64>().unwrap_or_else(|_| {
            // accept negative / huge numbers by hashing the text
            crate::fp::fnv(s.as_bytes())
        }),
        Err(_) => 20261002,
    }
}

pub struct Evidence {
    pub property_id: &'static str,
    pub tier: String,
    pub seed: u64,
    pub level: &'static str,
    pub coverage: Value,
    pub assumptions: Vec<String>,
    pub wall_s: f64,
    pub violations: usize,
}

pub fn write_evidence(ev: &Evidence) {
    let dir = std::env::var_os("VERIF_EVIDENCE_DIR").map(PathBuf::from).unwrap_or_else(|| verif_root().join("evidence"));
    let _ = std::fs::create_dir_all(&dir);
    let v = json!({
        "property_id": ev.property_id,
        "tier": ev.tier,
        // JSON integers beyond 2^53 are awkward for some readers: keep the seed in i64 range
        "seed": (ev.seed & 0x7FFF_FFFF_FFFF_FFFF) as i64,
        "level": ev.level,
        "coverage": ev.coverage,
        "assumptions": ev.assumptions,
        "wall_s": (ev.wall_s * 1000.0).round() / 1000.0,
        "violations": ev.violations,
    });
    let path = dir.join(format!("{}.json", ev.property_id));
    let tmp = dir.join(format!(".{}.json.tmp", ev.property_id));
    std::fs::write(&tmp, serde_json::to_string_pretty(&v).unwrap()).unwrap_or_else(|e| harness_error(&format!("write evidence: {e}")));
    std::fs::rename(&tmp, &path).unwrap_or_else(|e| harness_error(&format!("rename evidence: {e}")));
}

/// write a replay file and print the VIOLATION line; returns the path
pub fn report_violation(property: &str, tag: &str, replay: &Value) -> PathBuf {
    // VERIF_REPLAY_DIR lets development runs against seeded changes keep /verif/replays clean
    let dir = std::env::var_os("VERIF_REPLAY_DIR").map(PathBuf::from).unwrap_or_else(|| verif_root().join("replays"));
    let _ = std::fs::create_dir_all(&dir);
    let path = dir.join(format!("{property}-{tag}.json"));
    std::fs::write(&path, serde_json::to_string_pretty(replay).unwrap()).unwrap_or_else(|e| harness_error(&format!("write replay: {e}")));
    println!("VIOLATION property={property} replay={}", path.display());
    path
}

#[derive(Clone, Debug, Serialize, Deserialize)]
pub struct Finding {
    pub property: String,
    /// "known" suppresses a matching violation (reported as KNOWN-FINDING);
    /// "fixed" is documentation only and suppresses nothing
    pub status: String,
    /// substring matched against the violation's identity string
    /// (`<scenario>|<cause>|<field>` for C20, case identity for the others)
    #[serde(default)]
    pub identity: String,
    pub what: String,
    #[serde(default)]
    pub commit: String,
}

pub fn known_findings() -> Vec<Finding> {
    let p = verif_root().join("known_findings.json");
    match std::fs::read_to_string(&p) {
        Ok(s) => serde_json::from_str::<Vec<Finding>>(&s).unwrap_or_else(|e| harness_error(&format!("known_findings.json: {e}"))),
        Err(_) => vec![],
    }
}

/// `Some(finding)` when the violation identity is a listed, still-open finding
pub fn match_known<'a>(fs: &'a [Finding], property: &str, identity: &str) -> Option<&'a Finding> {
    // `identity` of a finding may list several fragments separated by " && ": all must occur
    fs.iter().find(|f| {
        f.property == property && f.status == "known" && !f.identity.is_empty() && f.identity.split(" && ").all(|part| identity.contains(part.trim()))
    })
}
