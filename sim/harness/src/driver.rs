//! Host-side fan-out: simulated runs are distributed over child OS processes
//! (each pinned to one core: a simulated process is single-token, so one core per
//! child is optimal and makes hand-offs cheap).  The assignment of jobs to
//! children is static (job i → child i mod N after a seeded shuffle), so the whole
//! batch, including which job runs k-th in which OS process, is a function of
//! VERIF_SEED and the worker count.

use crate::env::{Env, RunStats};
use crate::fp::Fingerprint;
use crate::report::harness_error;
use crate::scen::{C19Outcome, P};
use serde::{Deserialize, Serialize};
use std::io::{BufRead, BufReader, Write};
use std::process::{Command, Stdio};

#[derive(Clone, Debug, Serialize, Deserialize)]
pub enum JobKind {
    C20 { scenario: String, p: P, env: Env },
    C19 { entry: String, p: P, env_a: Env, env_b: Env, storage_seed: u64 },
    C15 { case: serde_json::Value },
}

#[derive(Clone, Debug, Serialize, Deserialize)]
pub struct Job {
    pub id: usize,
    pub kind: JobKind,
}

#[derive(Clone, Debug, Serialize, Deserialize)]
pub enum Body {
    C20 {
        /// one fingerprint per task that ran the workload; Err = panic text
        fps: Result<Vec<Fingerprint>, String>,
        stats: RunStats,
        choices: Vec<(u64, u32)>,
    },
    C19 { out: C19Outcome },
    C15 { out: serde_json::Value },
    /// the job did not finish within the per-job time limit; the child was killed
    Timeout { seconds: u64 },
    /// not run: an earlier job of the same group (same scenario / entry and data) timed out
    Skipped,
}

#[derive(Clone, Debug, Serialize, Deserialize)]
pub struct JobResult {
    pub id: usize,
    pub wall_ms: f64,
    /// position of this job in its OS process (0 = first run in a fresh process)
    pub kth_in_process: usize,
    pub child: usize,
    pub body: Body,
}

static BASE_CORE: std::sync::atomic::AtomicUsize = std::sync::atomic::AtomicUsize::new(usize::MAX);

/// affinity mask of `n` CPUs starting at this process' base core (no-op before pinning)
pub fn set_cpus(n: usize) {
    let base = BASE_CORE.load(std::sync::atomic::Ordering::SeqCst);
    if base == usize::MAX {
        return;
    }
    unsafe {
        let mut set: libc::cpu_set_t = std::mem::zeroed();
        let ncpu = libc::sysconf(libc::_SC_NPROCESSORS_ONLN).max(1) as usize;
        for k in 0..n.min(ncpu) {
            libc::CPU_SET((base + k) % ncpu, &mut set);
        }
        libc::sched_setaffinity(0, std::mem::size_of::<libc::cpu_set_t>(), &set);
    }
}

pub fn pin_to_core(core: usize) {
    BASE_CORE.store(core, std::sync::atomic::Ordering::SeqCst);
    unsafe {
        let mut set: libc::cpu_set_t = std::mem::zeroed();
        let ncpu = libc::sysconf(libc::_SC_NPROCESSORS_ONLN).max(1) as usize;
        libc::CPU_SET(core % ncpu, &mut set);
        libc::sched_setaffinity(0, std::mem::size_of::<libc::cpu_set_t>(), &set);
    }
}

pub fn unpin() {
    BASE_CORE.store(usize::MAX, std::sync::atomic::Ordering::SeqCst);
    unsafe {
        let mut set: libc::cpu_set_t = std::mem::zeroed();
        let ncpu = libc::sysconf(libc::_SC_NPROCESSORS_ONLN).max(1) as usize;
        for c in 0..ncpu {
            libc::CPU_SET(c, &mut set);
        }
        libc::sched_setaffinity(0, std::mem::size_of::<libc::cpu_set_t>(), &set);
    }
}

pub fn host_workers() -> usize {
    if let Ok(s) = std::env::var("VERIF_WORKERS") {
        if let Ok(n) = s.parse::<usize>() {
            return n.max(1);
        }
    }
    let n = unsafe { libc::sysconf(libc::_SC_NPROCESSORS_ONLN) };
    (n.max(1) as usize).min(16)
}

/// child side: one JSON job per stdin line → one JSON result per stdout line
pub fn worker_main(core: usize, child: usize) -> i32 {
    pin_to_core(core);
    let reg = crate::scenarios::registry();
    let stdin = std::io::stdin();
    let stdout = std::io::stdout();
    let mut k = 0usize;
    for line in stdin.lock().lines() {
        let line = match line {
            Ok(l) => l,
            Err(_) => break,
        };
        if line.trim().is_empty() {
            continue;
        }
        let job: Job = serde_json::from_str(&line).unwrap_or_else(|e| harness_error(&format!("worker: bad job: {e}")));
        let t = crate::seams::real_now_s();
        let body = run_job(&reg, &job);
        let res = JobResult { id: job.id, wall_ms: (crate::seams::real_now_s() - t) * 1e3, kth_in_process: k, child, body };
        k += 1;
        let mut o = stdout.lock();
        serde_json::to_writer(&mut o, &res).unwrap();
        o.write_all(b"\n").unwrap();
        o.flush().unwrap();
    }
    0
}

pub fn run_job(reg: &crate::scen::Registry, job: &Job) -> Body {
    match &job.kind {
        JobKind::C20 { scenario, p, env } => {
            let s = reg.find(scenario).unwrap_or_else(|| harness_error(&format!("unknown scenario {scenario}")));
            // warm-up for Context::Warm: the same scenario on other data — once in another size
            // class and once in the SAME size class (same shapes, different contents: what a
            // cache keyed on shape or address would confuse with the real input)
            let pw = P { seed: p.seed ^ 0x5A5A_5A5A, size: if p.size == crate::scen::Size::S { crate::scen::Size::M } else { crate::scen::Size::S } };
            let ps = P { seed: p.seed ^ 0x0F0F_0F0F, size: p.size };
            // ... and once more with a fault armed in the caller-supplied callbacks (scenarios that
            // hand the library a distance function): the call is torn off half-way by a panic,
            // which the caller catches before it goes on to the workload proper
            // (three times, at seeded points early, further on and deep inside the run)
            let h = crate::prng::mix3(p.seed, env.sched_seed, 0xFA17);
            let fault_at = [h % 40, 40 + (h >> 8) % 360, 400 + (h >> 20) % 3600];
            crate::fault::take_fired();
            let mut o = crate::env::run_sim_warm(
                env,
                || {
                    let _ = (s.run)(&pw);
                    let _ = (s.run)(&ps);
                    for at in fault_at {
                        crate::fault::arm(at);
                        let r = std::panic::catch_unwind(std::panic::AssertUnwindSafe(|| (s.run)(&ps)));
                        crate::fault::disarm();
                        drop(r);
                        // a scenario without instrumented callbacks: nothing more to inject
                        if crate::fault::take_ticks() == 0 {
                            break;
                        }
                    }
                },
                || {
                    // the thread's floating-point control state (rounding mode, flush-to-zero,
                    // denormals-are-zero) must be after the run what it was before it
                    let before = crate::fault::fp_control_state();
                    let mut fp = (s.run)(p);
                    let after = crate::fault::fp_control_state();
                    fp.must_agree("floating_point_control_state_of_the_calling_thread_before_and_after_the_run", before, after);
                    // ... and arithmetic behaves as IEEE 754 default says (a subnormal result is not flushed)
                    fp.one("subnormal_arithmetic_canary", std::hint::black_box(f32::MIN_POSITIVE) * std::hint::black_box(0.5f32));
                    fp
                },
            );
            crate::fault::disarm();
            o.stats.callback_faults = crate::fault::take_fired();
            Body::C20 { fps: o.results, stats: o.stats, choices: o.choices }
        }
        JobKind::C19 { entry, p, env_a, env_b, storage_seed } => {
            let e = reg.find_c19(entry).unwrap_or_else(|| harness_error(&format!("unknown c19 entry {entry}")));
            let out = (e.run)(p, &crate::scen::C19Cfg { env_a, env_b, storage_seed: *storage_seed });
            Body::C19 { out }
        }
        JobKind::C15 { case } => Body::C15 { out: crate::c15::run_case_json(case) },
    }
}

pub fn job_timeout_s() -> u64 {
    std::env::var("VERIF_JOB_TIMEOUT_S").ok().and_then(|s| s.parse().ok()).unwrap_or(45)
}

/// jobs that share data and code: when one does not terminate the others are not tried
fn group_key(j: &Job) -> String {
    match &j.kind {
        JobKind::C20 { scenario, p, .. } => format!("C20|{scenario}|{}|{:?}", p.seed, p.size),
        JobKind::C19 { entry, p, .. } => format!("C19|{entry}|{}|{:?}", p.seed, p.size),
        JobKind::C15 { .. } => format!("C15|{}", j.id),
    }
}

struct Child {
    proc: std::process::Child,
    cin: std::process::ChildStdin,
    lines: std::sync::mpsc::Receiver<String>,
}

fn spawn_child(exe: &std::path::Path, c: usize) -> Child {
    let mut proc = Command::new(exe)
        .arg("worker")
        .arg(c.to_string())
        .arg(c.to_string())
        .stdin(Stdio::piped())
        .stdout(Stdio::piped())
        .stderr(Stdio::inherit())
        .spawn()
        .unwrap_or_else(|e| harness_error(&format!("spawn worker: {e}")));
    let cin = proc.stdin.take().unwrap();
    let cout = BufReader::new(proc.stdout.take().unwrap());
    let (tx, rx) = std::sync::mpsc::channel();
    std::thread::spawn(move || {
        for line in cout.lines() {
            match line {
                Ok(l) => {
                    if tx.send(l).is_err() {
                        break;
                    }
                }
                Err(_) => break,
            }
        }
    });
    Child { proc, cin, lines: rx }
}

/// Run `jobs` on `n` child processes with a static assignment; results come back
/// in job order.  A child that dies or returns garbage is a harness error; a job that
/// exceeds the per-job time limit is recorded as `Body::Timeout` (the child is killed and
/// replaced) and the remaining jobs of its group are skipped.
pub fn run_jobs(jobs: &[Job], n: usize) -> Vec<JobResult> {
    let n = n.min(jobs.len()).max(1);
    let exe = std::env::current_exe().unwrap_or_else(|e| harness_error(&format!("current_exe: {e}")));
    let hung: std::sync::Arc<std::sync::Mutex<std::collections::HashSet<String>>> = Default::default();
    let limit = std::time::Duration::from_secs(job_timeout_s());
    let mut handles = Vec::new();
    for c in 0..n {
        let mine: Vec<Job> = jobs.iter().skip(c).step_by(n).cloned().collect();
        let exe = exe.clone();
        let hung = hung.clone();
        handles.push(std::thread::spawn(move || -> Vec<JobResult> {
            let mut child = spawn_child(&exe, c);
            let mut out = Vec::with_capacity(mine.len());
            let mut kth = 0usize;
            for j in &mine {
                let key = group_key(j);
                if hung.lock().unwrap().contains(&key) {
                    out.push(JobResult { id: j.id, wall_ms: 0.0, kth_in_process: kth, child: c, body: Body::Skipped });
                    continue;
                }
                let mut line = serde_json::to_string(j).unwrap();
                line.push('\n');
                if child.cin.write_all(line.as_bytes()).and_then(|_| child.cin.flush()).is_err() {
                    harness_error(&format!("worker {c} closed its input (died) before job {}: {}", j.id, line.trim()));
                }
                match child.lines.recv_timeout(limit) {
                    Ok(resp) => {
                        let r: JobResult = serde_json::from_str(&resp).unwrap_or_else(|e| harness_error(&format!("worker {c}: bad result line ({e}): {resp}")));
                        if r.id != j.id {
                            harness_error("worker answered a different job");
                        }
                        out.push(r);
                        kth += 1;
                    }
                    Err(std::sync::mpsc::RecvTimeoutError::Timeout) => {
                        eprintln!("note: job exceeded {} s and was stopped (non-termination in the code under test?): {}", limit.as_secs(), line.trim());
                        let _ = child.proc.kill();
                        let _ = child.proc.wait();
                        hung.lock().unwrap().insert(key);
                        out.push(JobResult { id: j.id, wall_ms: limit.as_secs_f64() * 1e3, kth_in_process: kth, child: c, body: Body::Timeout { seconds: limit.as_secs() } });
                        child = spawn_child(&exe, c);
                        kth = 0;
                    }
                    Err(std::sync::mpsc::RecvTimeoutError::Disconnected) => {
                        let st = child.proc.wait().ok();
                        harness_error(&format!("worker {c} died ({st:?}) while running job {}", line.trim()));
                    }
                }
            }
            drop(child.cin);
            let _ = child.proc.wait();
            out
        }));
    }
    let mut all: Vec<JobResult> = handles.into_iter().flat_map(|h| h.join().unwrap_or_else(|_| harness_error("driver thread panicked"))).collect();
    all.sort_by_key(|r| r.id);
    if all.len() != jobs.len() {
        harness_error("lost job results");
    }
    all
}

/// run a short list of jobs in ONE fresh child process, in order
pub fn run_in_fresh_process(jobs: &[Job]) -> Vec<JobResult> {
    let mut js = jobs.to_vec();
    for (i, j) in js.iter_mut().enumerate() {
        j.id = i;
    }
    run_jobs_on_one(&js)
}

fn run_jobs_on_one(jobs: &[Job]) -> Vec<JobResult> {
    // n = 1 → every job goes to child 0 in order
    run_jobs(jobs, 1)
}

/// every job in its OWN fresh OS process (process-global state is new each time);
/// `n` children run concurrently
pub fn run_jobs_fresh_each(jobs: &[Job], n: usize) -> Vec<JobResult> {
    let n = n.min(jobs.len()).max(1);
    let jobs: std::sync::Arc<Vec<Job>> = std::sync::Arc::new(jobs.to_vec());
    let exe = std::env::current_exe().unwrap_or_else(|e| harness_error(&format!("current_exe: {e}")));
    let mut handles = Vec::new();
    for c in 0..n {
        let jobs = jobs.clone();
        let exe = exe.clone();
        handles.push(std::thread::spawn(move || {
            let mut out = Vec::new();
            let mut i = c;
            while i < jobs.len() {
                let mut child = Command::new(&exe)
                    .arg("worker")
                    .arg(c.to_string())
                    .arg(c.to_string())
                    .stdin(Stdio::piped())
                    .stdout(Stdio::piped())
                    .stderr(Stdio::inherit())
                    .spawn()
                    .unwrap_or_else(|e| harness_error(&format!("spawn worker: {e}")));
                let mut line = serde_json::to_string(&jobs[i]).unwrap();
                line.push('\n');
                {
                    let mut cin = child.stdin.take().unwrap();
                    let _ = cin.write_all(line.as_bytes());
                }
                let cout = BufReader::new(child.stdout.take().unwrap());
                let (tx, rx) = std::sync::mpsc::channel();
                std::thread::spawn(move || {
                    let mut cout = cout;
                    let mut resp = String::new();
                    let n = cout.read_line(&mut resp).unwrap_or(0);
                    let _ = tx.send((n, resp));
                });
                match rx.recv_timeout(std::time::Duration::from_secs(job_timeout_s())) {
                    Ok((n, resp)) => {
                        if n == 0 {
                            let st = child.wait().ok();
                            harness_error(&format!("fresh worker died ({st:?}) on job {}", line.trim()));
                        }
                        let _ = child.wait();
                        let r: JobResult = serde_json::from_str(&resp).unwrap_or_else(|e| harness_error(&format!("fresh worker: bad result ({e}): {resp}")));
                        out.push(r);
                    }
                    Err(_) => {
                        let _ = child.kill();
                        let _ = child.wait();
                        out.push(JobResult { id: jobs[i].id, wall_ms: 0.0, kth_in_process: 0, child: c, body: Body::Timeout { seconds: job_timeout_s() } });
                    }
                }
                i += n;
            }
            out
        }));
    }
    let mut all: Vec<JobResult> = handles.into_iter().flat_map(|h| h.join().unwrap_or_else(|_| harness_error("driver thread panicked"))).collect();
    all.sort_by_key(|r| r.id);
    all
}
