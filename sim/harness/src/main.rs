//! linfa-sim: deterministic simulation with fault injection for rust-ml/linfa.
//! See /verif/DESIGN.md.  Exit codes: 0 = property held on everything explored,
//! 1 = VIOLATION reported, 2 = harness error.

mod c19;
mod data;
mod env;
mod fp;
mod prng;
mod scen;
mod scenarios;
mod seams;
mod simfile;
mod smoke;

fn usage() -> ! {
    eprintln!(
        "usage: linfa-sim <command>\n  list                         scenario catalogue\n  smoke [name-prefix]          run scenarios / round trips once (development aid)\n"
    );
    std::process::exit(2)
}

fn main() {
    env::init();
    env::install_panic_hook();
    let args: Vec<String> = std::env::args().skip(1).collect();
    let cmd = args.first().map(|s| s.as_str()).unwrap_or("");
    match cmd {
        "list" => {
            let reg = scenarios::registry();
            for s in &reg.scenarios {
                println!("scenario {:40} {:22} {:?} pool={}", s.name, s.krate, s.kind, s.uses_pool);
            }
            for c in &reg.c19 {
                println!("c19      {:40} {:22} types={:?}", c.name, c.krate, c.types);
            }
        }
        "smoke" => smoke::run(args.get(1).map(|s| s.as_str()).unwrap_or("")),
        _ => usage(),
    }
}
