//! linfa-sim: deterministic simulation with fault injection for rust-ml/linfa.
//! See /verif/DESIGN.md.  Exit codes: 0 = property held on everything explored,
//! 1 = VIOLATION reported, 2 = harness error.

mod c01;
mod c15;
mod c19;
mod c20;
mod data;
mod driver;
mod env;
mod fault;

#[global_allocator]
static GLOBAL_ALLOCATOR: fault::PoisoningAllocator = fault::PoisoningAllocator;
mod fp;
mod prng;
mod report;
mod scen;
mod scenarios;
mod seams;
mod selftest;
mod simfile;
mod smoke;

fn usage() -> ! {
    eprintln!(
        "usage: linfa-sim <command>\n  list                         scenario catalogue\n  smoke [name-prefix]          run scenarios / round trips once (development aid)\n"
    );
    std::process::exit(2)
}

fn main() {
    env::init();
    env::install_panic_hook();
    let args: Vec<String> = std::env::args().skip(1).collect();
    let cmd = args.first().map(|s| s.as_str()).unwrap_or("");
    match cmd {
        "list" => {
            let reg = scenarios::registry();
            for s in &reg.scenarios {
                println!("scenario {:40} {:22} {:?} pool={}", s.name, s.krate, s.kind, s.uses_pool);
            }
            for c in &reg.c19 {
                println!("c19      {:40} {:22} types={:?}", c.name, c.krate, c.types);
            }
        }
        "check" => {
            let prop = args.get(1).map(|s| s.as_str()).unwrap_or("");
            let tier = args.get(2).cloned().or_else(|| std::env::var("VERIF_TIER").ok()).unwrap_or_else(|| "quick".into());
            let seed = report::seed_from_env();
            println!("linfa-sim check {prop} tier={tier} VERIF_SEED={seed}");
            let code = match prop {
                "C01" => c01::check(&tier, seed),
                "C15" => c15::check(&tier, seed),
                "C19" => c19::check(&tier, seed, std::env::var("VERIF_ONLY").ok().as_deref()),
                "C20" => c20::check(&tier, seed, std::env::var("VERIF_ONLY").ok().as_deref()),
                _ => usage(),
            };
            std::process::exit(code)
        }
        "replay" => {
            let path = args.get(1).unwrap_or_else(|| usage());
            let text = std::fs::read_to_string(path).unwrap_or_else(|e| report::harness_error(&format!("read {path}: {e}")));
            let v: serde_json::Value = serde_json::from_str(&text).unwrap_or_else(|e| report::harness_error(&format!("parse {path}: {e}")));
            let code = match v["property"].as_str().unwrap_or("") {
                "C01" => c01::replay(&v),
                "C15" => c15::replay(&v),
                "C19" => c19::replay(&v),
                "C20" => c20::replay(&v),
                other => report::harness_error(&format!("unknown property in replay file: {other}")),
            };
            if code == 1 {
                println!("VIOLATION property={} replay={path}", v["property"].as_str().unwrap_or(""));
            }
            std::process::exit(code)
        }
        "worker" => {
            let core = args.get(1).and_then(|s| s.parse().ok()).unwrap_or(0);
            let child = args.get(2).and_then(|s| s.parse().ok()).unwrap_or(0);
            std::process::exit(driver::worker_main(core, child))
        }
        "dettest" => {
            let n = args.get(1).and_then(|s| s.parse().ok()).unwrap_or(300);
            std::process::exit(c20::determinism_test(report::seed_from_env(), n))
        }
        "selftest" => std::process::exit(selftest::run()),
        "smoke" => smoke::run(args.get(1).map(|s| s.as_str()).unwrap_or("")),
        _ => usage(),
    }
}
