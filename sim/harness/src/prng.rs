//! The one PRNG of the harness (splitmix64-seeded xoshiro256**).  No dependency
//! that could ask the OS for entropy; logging never draws from it.

#[derive(Clone, Debug)]
pub struct Prng([u64; 4]);

pub fn splitmix(z: &mut u64) -> u64 {
    *z = z.wrapping_add(0x9E3779B97F4A7C15);
    let mut x = *z;
    x = (x ^ (x >> 30)).wrapping_mul(0xBF58476D1CE4E5B9);
    x = (x ^ (x >> 27)).wrapping_mul(0x94D049BB133111EB);
    x ^ (x >> 31)
}

/// stateless mix of up to three words (used for keyed streams)
pub fn mix3(a: u64, b: u64, c: u64) -> u64 {
    let mut z = a ^ 0x6A09E667F3BCC909;
    let mut r = splitmix(&mut z);
    z ^= b.wrapping_mul(0xD6E8FEB86659FD93);
    r ^= splitmix(&mut z);
    z ^= c.wrapping_mul(0xCA5A826395121157);
    r ^ splitmix(&mut z)
}

impl Prng {
    pub fn new(seed: u64) -> Prng {
        let mut z = seed;
        let mut s = [0u64; 4];
        for v in s.iter_mut() {
            *v = splitmix(&mut z);
        }
        Prng(s)
    }
    /// independent sub-stream
    pub fn fork(&mut self, tag: u64) -> Prng {
        Prng::new(self.next_u64() ^ tag.wrapping_mul(0x9E3779B97F4A7C15))
    }
    pub fn next_u64(&mut self) -> u64 {
        let s = &mut self.0;
        let r = s[1].wrapping_mul(5).rotate_left(7).wrapping_mul(9);
        let t = s[1] << 17;
        s[2] ^= s[0];
        s[3] ^= s[1];
        s[1] ^= s[2];
        s[0] ^= s[3];
        s[2] ^= t;
        s[3] = s[3].rotate_left(45);
        r
    }
    pub fn below(&mut self, n: u64) -> u64 {
        debug_assert!(n > 0);
        // Lemire-free simple rejection to stay unbiased and portable
        let zone = u64::MAX - (u64::MAX % n);
        loop {
            let v = self.next_u64();
            if v < zone {
                return v % n;
            }
        }
    }
    pub fn usize_in(&mut self, lo: usize, hi_incl: usize) -> usize {
        lo + self.below((hi_incl - lo + 1) as u64) as usize
    }
    pub fn unit(&mut self) -> f64 {
        (self.next_u64() >> 11) as f64 / (1u64 << 53) as f64
    }
    pub fn chance(&mut self, p: f64) -> bool {
        self.unit() < p
    }
    pub fn range(&mut self, lo: f64, hi: f64) -> f64 {
        lo + (hi - lo) * self.unit()
    }
    /// standard normal (Box–Muller, one value per call)
    pub fn normal(&mut self) -> f64 {
        let u1 = 1.0 - self.unit();
        let u2 = self.unit();
        (-2.0 * u1.ln()).sqrt() * (2.0 * std::f64::consts::PI * u2).cos()
    }
    pub fn pick<'a, T>(&mut self, xs: &'a [T]) -> &'a T {
        &xs[self.below(xs.len() as u64) as usize]
    }
    pub fn shuffle<T>(&mut self, xs: &mut [T]) {
        for i in (1..xs.len()).rev() {
            let j = self.below(i as u64 + 1) as usize;
            xs.swap(i, j);
        }
    }
}
