//! linfa-svm, linfa-trees, linfa-bayes, linfa-ftrl (scenario prefixes `svm_`, `tree_`, `nb_`, `ftrl_`).
//!
//! NOT SERDE (no `derive(Serialize, Deserialize)` in the crate, hence no C19 entry):
//!   linfa-svm   : SvmParams, SvmValidParams, SolverParams, SvmError
//!   linfa-bayes : GaussianNbParams, MultinomialNbParams (only the *Valid* sets derive serde),
//!                 NaiveBayesError; the crate has no BernoulliNb
//!   linfa-trees : NodeIter, Tikz
//! UNREACHABLE (private serde-deriving types, only round-tripped inside their owner):
//!   linfa-bayes : GaussianClassInfo (inside GaussianNb), MultinomialClassInfo (inside MultinomialNb)
//! linfa-ftrl's FtrlValidParams is not re-exported by the crate; it is reached as
//! `<FtrlParams<F, R> as ParamGuard>::Checked`.
//!
//! The naive-Bayes models have no public accessor at all; their learned state is observed
//! through their serde representation (JSON value, object keys sorted = canonicalised on the
//! label) in the field `state`.  Predictions are never canonicalised.

use crate::data;
use crate::fp::{fnv, Bits, Fingerprint};
use crate::scen::{Kind, Registry, P};
use linfa::composing::MultiClassModel;
use linfa::dataset::AsSingleTargets;
use linfa::prelude::*;
use linfa::Label;
use linfa_bayes::{GaussianNb, GaussianNbValidParams, MultinomialNb, MultinomialNbValidParams};
use linfa_ftrl::{Ftrl, FtrlError, FtrlParams};
use linfa_svm::{ExitReason, SeparatingHyperplane, Svm, SvmError, SvmParams, SvmValidParams};
use linfa_trees::{DecisionTree, DecisionTreeParams, DecisionTreeValidParams, SplitQuality, TreeNode};
use ndarray::{Array1, Array2, ArrayView1, Axis};
use rand::rngs::SmallRng;
use rand::RngCore;
use rand_xoshiro::rand_core::SeedableRng;
use rand_xoshiro::Xoshiro256Plus;
use serde::de::DeserializeOwned;
use serde::Serialize;
use std::collections::VecDeque;

// ---------------------------------------------------------------------------------------------
// labels
// ---------------------------------------------------------------------------------------------

/// label types used by the scenarios; `of(c)` maps a class index to a label.  The images are
/// deliberately not in sorted order and not contiguous.
trait Lab: Label + Bits + Serialize + DeserializeOwned + Send + Sync + 'static {
    /// number of distinct labels the type offers to the tree scenarios
    const TREE_K: usize = 3;
    fn of(c: usize) -> Self;
}
impl Lab for usize {
    fn of(c: usize) -> usize {
        [17, 3, 40, 8, 25, 1, 99][c % 7]
    }
}
impl Lab for String {
    fn of(c: usize) -> String {
        ["kappa", "alpha", "mu", "beta", "zeta", "Eta", "iota"][c % 7].to_string()
    }
}
impl Lab for Option<String> {
    fn of(c: usize) -> Option<String> {
        [Some("kappa"), None, Some("mu"), Some(""), Some("zeta"), Some("Eta"), Some("iota")][c % 7].map(|s| s.to_string())
    }
}
impl Lab for bool {
    const TREE_K: usize = 2;
    fn of(c: usize) -> bool {
        c % 2 == 1
    }
}

fn labels_of<L: Lab>(y: &Array1<usize>) -> Array1<L> {
    y.iter().map(|&c| L::of(c)).collect()
}

fn cast<F: Float>(a: &Array2<f64>) -> Array2<F> {
    a.mapv(|v| F::cast(v))
}
fn cast1<F: Float>(a: &Array1<f64>) -> Array1<F> {
    a.mapv(|v| F::cast(v))
}

// =============================================================================================
// linfa-svm
// =============================================================================================

#[derive(Clone, Copy)]
enum Kern {
    Lin,
    Gauss,
    Poly,
}

#[derive(Clone, Copy)]
enum Reg {
    /// classification: (C+, C-); regression: (C, loss epsilon)
    C(f64, f64),
    /// nu
    Nu(f64),
    /// leave the builder's default (C = (1, 1))
    Default,
}

#[derive(Clone, Copy)]
struct SvmCfg {
    kern: Option<Kern>,
    reg: Reg,
    shrink: bool,
    eps: Option<f64>,
}

const fn cfg(kern: Kern, reg: Reg, shrink: bool, eps: f64) -> SvmCfg {
    SvmCfg { kern: Some(kern), reg, shrink, eps: Some(eps) }
}

fn svm_base<F: Float, T>(c: SvmCfg) -> SvmParams<F, T> {
    let mut prm = Svm::<F, T>::params();
    if c.shrink {
        prm = prm.shrinking(true);
    }
    if let Some(e) = c.eps {
        prm = prm.eps(F::cast(e));
    }
    match c.kern {
        None => prm,
        Some(Kern::Lin) => prm.linear_kernel(),
        Some(Kern::Gauss) => prm.gaussian_kernel(F::cast(2.0)),
        Some(Kern::Poly) => prm.polynomial_kernel(F::cast(1.0), F::cast(2.0)),
    }
}

fn svm_cls_params<F: Float, T>(c: SvmCfg) -> SvmParams<F, T> {
    let prm = svm_base::<F, T>(c);
    match c.reg {
        Reg::C(a, b) => prm.pos_neg_weights(F::cast(a), F::cast(b)),
        Reg::Nu(nu) => prm.nu_weight(F::cast(nu)),
        Reg::Default => prm,
    }
}

fn svm_reg_params<F: Float>(c: SvmCfg) -> SvmParams<F, F> {
    let prm = svm_base::<F, F>(c);
    match c.reg {
        Reg::C(a, b) => prm.c_svr(F::cast(a), Some(F::cast(b))),
        Reg::Nu(nu) => prm.nu_svr(F::cast(nu), None),
        Reg::Default => prm,
    }
}

/// two overlapping classes on a quarter grid (many equal kernel entries), alternating labels
/// (balanced), plus exact duplicate rows carrying the opposite label
fn svm_cls_data(p: &P) -> (Array2<f64>, Array1<bool>) {
    let n = p.pick(24, 120, 480);
    let d = p.pick(2, 3, 4);
    let mut r = p.rng(0x5101);
    let mut x = Array2::<f64>::zeros((n, d));
    let mut y = Array1::from_elem(n, false);
    for i in 0..n {
        let pos = i % 2 == 0;
        y[i] = pos;
        for j in 0..d {
            let c = if pos { 1.0 } else { -1.0 } * if j == 0 { 1.0 } else { 0.5 };
            x[[i, j]] = ((c + 0.9 * r.normal()) * 4.0).round() / 4.0;
        }
    }
    // row i copies row i-1, which carries the opposite label
    for i in (3..n).step_by(9) {
        for j in 0..d {
            x[[i, j]] = x[[i - 1, j]];
        }
    }
    (x, y)
}

fn svm_queries(p: &P, train: &Array2<f64>) -> Array2<f64> {
    data::queries(&mut p.rng(0x5102), train, p.pick(6, 40, 120))
}

fn svm_reg_data(p: &P) -> (Array2<f64>, Array1<f64>) {
    let n = p.pick(20, 100, 300);
    let mut r = p.rng(0x5103);
    let mut x = Array2::<f64>::zeros((n, 2));
    let mut y = Array1::<f64>::zeros(n);
    for i in 0..n {
        for j in 0..2 {
            x[[i, j]] = (r.range(-2.0, 2.0) * 8.0).round() / 8.0;
        }
        y[i] = ((x[[i, 0]].sin() + 0.5 * x[[i, 1]] + 0.05 * r.normal()) * 64.0).round() / 64.0;
    }
    // duplicated rows with conflicting targets
    for i in (2..n).step_by(7) {
        for j in 0..2 {
            x[[i, j]] = x[[i - 1, j]];
        }
        y[i] = y[i - 1] + 0.5;
    }
    (x, y)
}

fn fp_svm_core<F: Float + Bits, T>(m: &Svm<F, T>, q: &Array2<F>, f: &mut Fingerprint) {
    f.seq("alpha", m.alpha.iter().copied());
    f.one("rho", m.rho);
    f.one("nsupport", m.nsupport());
    // contains the exit reason, the iteration count and the objective
    f.text("display", &m.to_string());
    f.seq("weighted_sum", q.outer_iter().map(|r| m.weighted_sum(&r)));
}

fn fp_svm_bool<F: Float + Bits>(m: &Svm<F, bool>, q: &Array2<F>, f: &mut Fingerprint) {
    fp_svm_core(m, q, f);
    let batch: Array1<bool> = m.predict(q);
    f.arr("predict", &batch);
    let single: Vec<bool> = q.outer_iter().take(8).map(|r| -> bool { m.predict(r) }).collect();
    f.seq("predict_single", single);
}

fn fp_svm_pr<F: Float + Bits>(m: &Svm<F, Pr>, q: &Array2<F>, f: &mut Fingerprint) {
    fp_svm_core(m, q, f);
    let batch: Array1<Pr> = m.predict(q);
    f.arr("predict", &batch);
    let single: Vec<Pr> = q.outer_iter().take(8).map(|r| -> Pr { m.predict(r) }).collect();
    f.seq("predict_single", single);
}

fn fp_svm_reg<F: Float + Bits>(m: &Svm<F, F>, q: &Array2<F>, f: &mut Fingerprint)
where
    Svm<F, F>: PredictInplace<Array2<F>, Array1<F>> + for<'a> Predict<ArrayView1<'a, F>, F>,
{
    fp_svm_core(m, q, f);
    let batch: Array1<F> = <Svm<F, F> as Predict<&Array2<F>, Array1<F>>>::predict(m, q);
    f.arr("predict", &batch);
    let single: Vec<F> = q.outer_iter().take(8).map(|r| <Svm<F, F> as Predict<ArrayView1<F>, F>>::predict(m, r)).collect();
    f.seq("predict_single", single);
}

/// `shrinking(true)` makes the SMO solver panic on many inputs (index underflow in
/// `SolverState::do_shrinking`, solver_smo.rs) — deterministically, in every environment.  A
/// panic inside `fit` is therefore recorded as an outcome, like an `Err`.
fn guarded<T>(fit: impl FnOnce() -> Result<T, SvmError>) -> Result<T, String> {
    match std::panic::catch_unwind(std::panic::AssertUnwindSafe(fit)) {
        Ok(Ok(m)) => Ok(m),
        Ok(Err(e)) => Err(e.to_string()),
        Err(pl) => {
            let msg = pl.downcast_ref::<String>().cloned().or_else(|| pl.downcast_ref::<&str>().map(|s| s.to_string())).unwrap_or_default();
            Err(format!("PANIC: {msg}"))
        }
    }
}

fn fit_cls<F: Float, T>(p: &P, c: SvmCfg) -> Result<Svm<F, T>, SvmError>
where
    SvmValidParams<F, T>: Fit<Array2<F>, Array1<bool>, SvmError, Object = Svm<F, T>>,
{
    let (x, y) = svm_cls_data(p);
    let ds = DatasetBase::new(cast::<F>(&x), y);
    svm_cls_params::<F, T>(c).check()?.fit(&ds)
}

fn fit_reg<F: Float>(p: &P, c: SvmCfg) -> Result<Svm<F, F>, SvmError>
where
    SvmValidParams<F, F>: Fit<Array2<F>, Array1<F>, SvmError, Object = Svm<F, F>>,
{
    let (x, y) = svm_reg_data(p);
    let ds = DatasetBase::new(cast::<F>(&x), cast1::<F>(&y));
    svm_reg_params::<F>(c).check()?.fit(&ds)
}

fn fit_one_class(p: &P, kern: Kern, nu: f64, shrink: bool) -> Result<Svm<f64, bool>, SvmError> {
    let (x, _) = svm_cls_data(p);
    let ds = DatasetBase::from(x);
    let prm: SvmParams<f64, Pr> = svm_cls_params(cfg(kern, Reg::Nu(nu), shrink, 1e-5));
    prm.check()?.fit(&ds)
}

fn cls_queries<F: Float>(p: &P) -> Array2<F> {
    let (x, _) = svm_cls_data(p);
    cast::<F>(&svm_queries(p, &x))
}
fn reg_queries<F: Float>(p: &P) -> Array2<F> {
    let (x, _) = svm_reg_data(p);
    cast::<F>(&svm_queries(p, &x))
}

fn run_cls_bool<F: Float + Bits>(p: &P, c: SvmCfg) -> Fingerprint {
    let mut f = Fingerprint::new();
    match guarded(|| fit_cls::<F, bool>(p, c)) {
        Ok(m) => fp_svm_bool(&m, &cls_queries::<F>(p), &mut f),
        Err(e) => f.err("fit", &e),
    }
    f
}
fn run_cls_pr<F: Float + Bits>(p: &P, c: SvmCfg) -> Fingerprint {
    let mut f = Fingerprint::new();
    match guarded(|| fit_cls::<F, Pr>(p, c)) {
        Ok(m) => fp_svm_pr(&m, &cls_queries::<F>(p), &mut f),
        Err(e) => f.err("fit", &e),
    }
    f
}
fn run_reg<F: Float + Bits>(p: &P, c: SvmCfg) -> Fingerprint
where
    SvmValidParams<F, F>: Fit<Array2<F>, Array1<F>, SvmError, Object = Svm<F, F>>,
    Svm<F, F>: PredictInplace<Array2<F>, Array1<F>> + for<'a> Predict<ArrayView1<'a, F>, F>,
{
    let mut f = Fingerprint::new();
    match guarded(|| fit_reg::<F>(p, c)) {
        Ok(m) => fp_svm_reg(&m, &reg_queries::<F>(p), &mut f),
        Err(e) => f.err("fit", &e),
    }
    f
}
fn run_one_class(p: &P, kern: Kern, nu: f64, shrink: bool) -> Fingerprint {
    let mut f = Fingerprint::new();
    match guarded(|| fit_one_class(p, kern, nu, shrink)) {
        Ok(m) => fp_svm_bool(&m, &cls_queries::<f64>(p), &mut f),
        Err(e) => f.err("fit", &e),
    }
    f
}

// ---- multi-class: one_vs_all + MultiClassModel ------------------------------------------------

/// five classes: 0 and 1 own exactly the same rows (duplicated class), 2 and 3 are mirror
/// images of each other, 4 is an ordinary class
fn svm_mc_data(p: &P) -> (Array2<f64>, Array1<usize>) {
    let g = p.pick(4, 14, 36);
    let mut r = p.rng(0x5110);
    let mut rows: Vec<([f64; 2], usize)> = Vec::new();
    let grid = |v: f64| (v * 4.0).round() / 4.0;
    for _ in 0..g {
        let a = [grid(2.0 + 0.7 * r.normal()), grid(2.0 + 0.7 * r.normal())];
        rows.push((a, 0));
        rows.push((a, 1));
        let b = [grid(-2.5 + 0.7 * r.normal()), grid(0.5 + 0.7 * r.normal())];
        rows.push((b, 2));
        rows.push(([-b[0], -b[1]], 3));
        let c = [grid(0.7 * r.normal()), grid(-3.0 + 0.7 * r.normal())];
        rows.push((c, 4));
    }
    let x = Array2::from_shape_fn((rows.len(), 2), |(i, j)| rows[i].0[j]);
    let y = rows.iter().map(|t| t.1).collect();
    (x, y)
}

/// training rows, the origin, and far-away rows (Platt probabilities saturate to exactly 0 / 1
/// in f32 there, so several member models return exactly the same probability)
fn svm_mc_queries(p: &P, x: &Array2<f64>) -> Array2<f64> {
    let m = p.pick(12, 40, 90);
    let mut r = p.rng(0x5111);
    let n = x.nrows();
    Array2::from_shape_fn((m, 2), |(i, j)| match i % 4 {
        0 => x[[(i * 7) % n, j]],
        1 => 0.0,
        2 => 40.0 * r.normal(),
        _ => x[[(i * 3) % n, j]] * 25.0,
    })
}

fn run_multiclass<L: Lab>(p: &P, kern: Kern) -> Fingerprint {
    let mut f = Fingerprint::new();
    let (x, y) = svm_mc_data(p);
    let q = svm_mc_queries(p, &x);
    let ds = DatasetBase::new(x, labels_of::<L>(&y));
    let prm: SvmParams<f64, Pr> = svm_cls_params(cfg(kern, Reg::C(1.0, 1.0), false, 1e-4));
    let parts = match ds.one_vs_all() {
        Ok(v) => v,
        Err(e) => {
            f.err("one_vs_all", &e);
            return f;
        }
    };
    let mut members: Vec<(L, Svm<f64, Pr>)> = Vec::new();
    for (l, sub) in parts {
        match prm.fit(&sub) {
            Ok(m) => members.push((l, m)),
            Err(e) => {
                f.err("fit", &e);
                return f;
            }
        }
    }
    // member models in label order (canonical; each member fit is independent of the others)
    let mut probs: Vec<(L, Array1<Pr>)> = members.iter().map(|(l, m)| (l.clone(), m.predict(&q))).collect();
    probs.sort_by(|a, b| a.0.cmp(&b.0));
    for (i, (l, pr)) in probs.iter().enumerate() {
        f.one(&format!("member{i}_label"), l.clone());
        f.arr(&format!("member{i}_proba"), pr);
    }
    let tied = (0..q.nrows())
        .filter(|&i| {
            let mx = probs.iter().map(|(_, pr)| *pr[i]).fold(f32::MIN, f32::max);
            probs.iter().filter(|(_, pr)| *pr[i] == mx).count() > 1
        })
        .count();
    f.one("n_rows_with_tied_maximum", tied);
    // the composed model, members in the order `one_vs_all` returned them
    let model: MultiClassModel<Array2<f64>, L> = members.into_iter().collect();
    let pred: Array1<L> = model.predict(&q);
    f.arr("predict", &pred);
    f
}

/// the order in which `one_vs_all` enumerates the labels (a `Vec`, not documented as unordered)
fn run_ova_order<L: Lab>(p: &P) -> Fingerprint {
    let mut f = Fingerprint::new();
    let (x, y) = svm_mc_data(p);
    let ds = DatasetBase::new(x, labels_of::<L>(&y));
    match ds.one_vs_all() {
        Ok(v) => {
            f.seq("labels", v.iter().map(|(l, _)| l.clone()));
            for (i, (_, sub)) in v.iter().enumerate() {
                f.arr(&format!("targets{i}"), &sub.as_single_targets());
            }
        }
        Err(e) => f.err("one_vs_all", &e),
    }
    f
}

// ---- C19 builders (plain fn items) ---------------------------------------------------------------

const CFG_BOOL_GAUSS: SvmCfg = cfg(Kern::Gauss, Reg::C(2.0, 0.5), false, 1e-5);
const CFG_BOOL_LIN_NU: SvmCfg = cfg(Kern::Lin, Reg::Nu(0.4), false, 1e-5);
const CFG_PR_GAUSS: SvmCfg = cfg(Kern::Gauss, Reg::C(1.0, 1.0), false, 1e-5);
const CFG_PR_LIN: SvmCfg = cfg(Kern::Lin, Reg::C(1.0, 1.0), false, 1e-5);
const CFG_REG_EPS_GAUSS: SvmCfg = cfg(Kern::Gauss, Reg::C(10.0, 0.1), false, 1e-4);
const CFG_REG_NU_LIN: SvmCfg = cfg(Kern::Lin, Reg::Nu(0.5), false, 1e-4);
const CFG_REG_F32: SvmCfg = cfg(Kern::Gauss, Reg::C(5.0, 0.1), false, 1e-3);

fn build_svm_bool_gauss(p: &P) -> Svm<f64, bool> {
    fit_cls(p, CFG_BOOL_GAUSS).expect("svm fit")
}
fn build_svm_bool_lin_nu(p: &P) -> Svm<f64, bool> {
    fit_cls(p, CFG_BOOL_LIN_NU).expect("svm fit")
}
fn build_svm_pr_gauss(p: &P) -> Svm<f64, Pr> {
    fit_cls(p, CFG_PR_GAUSS).expect("svm fit")
}
fn build_svm_pr_lin(p: &P) -> Svm<f64, Pr> {
    fit_cls(p, CFG_PR_LIN).expect("svm fit")
}
fn build_svm_reg_eps_gauss(p: &P) -> Svm<f64, f64> {
    fit_reg(p, CFG_REG_EPS_GAUSS).expect("svm fit")
}
fn build_svm_reg_nu_lin(p: &P) -> Svm<f64, f64> {
    fit_reg(p, CFG_REG_NU_LIN).expect("svm fit")
}
fn build_svm_reg_f32(p: &P) -> Svm<f32, f32> {
    fit_reg(p, CFG_REG_F32).expect("svm fit")
}
fn build_svm_one_class(p: &P) -> Svm<f64, bool> {
    fit_one_class(p, Kern::Gauss, 0.2, false).expect("svm fit")
}
fn fp_model_bool(m: &Svm<f64, bool>, p: &P, f: &mut Fingerprint) {
    fp_svm_bool(m, &cls_queries::<f64>(p), f)
}
fn fp_model_pr(m: &Svm<f64, Pr>, p: &P, f: &mut Fingerprint) {
    fp_svm_pr(m, &cls_queries::<f64>(p), f)
}
fn fp_model_reg(m: &Svm<f64, f64>, p: &P, f: &mut Fingerprint) {
    fp_svm_reg(m, &reg_queries::<f64>(p), f)
}
// extreme but legal regularisation: tiny box constraints give tiny (but non-zero) dual
// coefficients, large ones give bounded support vectors; f32 and f64
const CFG_BOOL_GAUSS_TINY_C: SvmCfg = cfg(Kern::Gauss, Reg::C(1e-5, 1e-5), false, 1e-5);
const CFG_BOOL_POLY_HUGE_C: SvmCfg = cfg(Kern::Poly, Reg::C(1e3, 2e2), false, 1e-5);
fn build_svm_bool_tiny_c_f32(p: &P) -> Svm<f32, bool> {
    fit_cls(p, CFG_BOOL_GAUSS_TINY_C).expect("svm fit")
}
fn build_svm_bool_tiny_c(p: &P) -> Svm<f64, bool> {
    fit_cls(p, CFG_BOOL_GAUSS_TINY_C).expect("svm fit")
}
fn build_svm_bool_huge_c_f32(p: &P) -> Svm<f32, bool> {
    fit_cls(p, CFG_BOOL_POLY_HUGE_C).expect("svm fit")
}
fn build_svm_pr_f32(p: &P) -> Svm<f32, Pr> {
    fit_cls(p, CFG_PR_GAUSS).expect("svm fit")
}
fn fp_model_bool32(m: &Svm<f32, bool>, p: &P, f: &mut Fingerprint) {
    fp_svm_bool(m, &cls_queries::<f32>(p), f)
}
fn fp_model_pr32(m: &Svm<f32, Pr>, p: &P, f: &mut Fingerprint) {
    fp_svm_pr(m, &cls_queries::<f32>(p), f)
}
fn fp_model_reg32(m: &Svm<f32, f32>, p: &P, f: &mut Fingerprint) {
    fp_svm_reg(m, &reg_queries::<f32>(p), f)
}

fn build_hyperplanes(p: &P) -> Vec<SeparatingHyperplane<f64>> {
    let (x, _) = svm_cls_data(p);
    vec![SeparatingHyperplane::Linear(x.row(0).to_owned()), SeparatingHyperplane::WeightedCombination(x)]
}
fn fp_hyperplanes(v: &Vec<SeparatingHyperplane<f64>>, _p: &P, f: &mut Fingerprint) {
    for (i, h) in v.iter().enumerate() {
        match h {
            SeparatingHyperplane::Linear(a) => f.arr(&format!("linear{i}"), a),
            SeparatingHyperplane::WeightedCombination(a) => f.arr(&format!("weighted{i}"), a),
        }
    }
}
fn build_exit_reasons(_p: &P) -> Vec<ExitReason> {
    vec![ExitReason::ReachedThreshold, ExitReason::ReachedIterations, ExitReason::ReachedThreshold]
}
fn fp_exit_reasons(v: &Vec<ExitReason>, _p: &P, f: &mut Fingerprint) {
    f.seq("reasons", v.iter().map(|e| matches!(e, ExitReason::ReachedIterations)));
    f.text("debug", &format!("{v:?}"));
}

fn register_svm(r: &mut Registry) {
    const K: &str = "linfa-svm";
    use Kern::*;
    // Svm<F, bool>: C- and nu-classification, three kernels, shrinking on/off, f64 and f32
    let bool_cases: [(&str, SvmCfg); 7] = [
        ("svm_c_linear", cfg(Lin, Reg::C(2.0, 0.5), false, 1e-5)),
        ("svm_c_linear_shrink", cfg(Lin, Reg::C(2.0, 0.5), true, 1e-5)),
        ("svm_c_gauss", cfg(Gauss, Reg::C(1.0, 3.0), false, 1e-5)),
        ("svm_c_poly_shrink", cfg(Poly, Reg::C(1.0, 1.0), true, 1e-4)),
        ("svm_nu_gauss", cfg(Gauss, Reg::Nu(0.3), false, 1e-5)),
        ("svm_nu_linear_shrink", cfg(Lin, Reg::Nu(0.5), true, 1e-5)),
        ("svm_nu_poly", cfg(Poly, Reg::Nu(0.4), false, 1e-4)),
    ];
    for (name, c) in bool_cases {
        r.scenario(name, K, Kind::Claim, false, move |p| run_cls_bool::<f64>(p, c));
    }
    // untouched default builder (C = (1,1), eps = 1e-7, linear kernel, no shrinking)
    r.scenario("svm_default_params", K, Kind::Claim, false, |p| {
        run_cls_bool::<f64>(p, SvmCfg { kern: None, reg: Reg::Default, shrink: false, eps: None })
    });
    r.scenario("svm_c_gauss_f32", K, Kind::Claim, false, |p| run_cls_bool::<f32>(p, cfg(Gauss, Reg::C(1.0, 1.0), false, 1e-3)));
    r.scenario("svm_nu_linear_shrink_f32", K, Kind::Claim, false, |p| run_cls_bool::<f32>(p, cfg(Lin, Reg::Nu(0.4), true, 1e-3)));
    // invalid parameter sets: the error is the outcome
    r.scenario("svm_invalid_nu", K, Kind::Claim, false, |p| run_cls_bool::<f64>(p, cfg(Lin, Reg::Nu(1.5), false, 1e-5)));
    r.scenario("svm_invalid_c", K, Kind::Claim, false, |p| run_cls_bool::<f64>(p, cfg(Lin, Reg::C(0.0, 1.0), false, 1e-5)));
    r.scenario("svm_invalid_eps", K, Kind::Claim, false, |p| run_cls_pr::<f64>(p, cfg(Lin, Reg::C(1.0, 1.0), false, -1.0)));
    // Svm<F, Pr>: Platt scaling inside
    r.scenario("svm_pr_nu_poly", K, Kind::Claim, false, |p| run_cls_pr::<f64>(p, cfg(Poly, Reg::Nu(0.4), true, 1e-4)));
    r.scenario("svm_pr_gauss_f32", K, Kind::Claim, false, |p| run_cls_pr::<f32>(p, cfg(Gauss, Reg::C(1.0, 1.0), false, 1e-3)));
    // Svm<F, F>: epsilon- and nu-regression
    r.scenario("svm_reg_eps_linear_shrink", K, Kind::Claim, false, |p| run_reg::<f64>(p, cfg(Lin, Reg::C(5.0, 0.05), true, 1e-4)));
    r.scenario("svm_reg_eps_poly", K, Kind::Claim, false, |p| run_reg::<f64>(p, cfg(Poly, Reg::C(1.0, 0.1), false, 1e-3)));
    r.scenario("svm_reg_nu_gauss_shrink", K, Kind::Claim, false, |p| run_reg::<f64>(p, cfg(Gauss, Reg::Nu(0.3), true, 1e-4)));
    r.scenario("svm_reg_default_params", K, Kind::Claim, false, |p| {
        run_reg::<f64>(p, SvmCfg { kern: None, reg: Reg::Default, shrink: false, eps: Some(1e-5) })
    });
    // one-class
    r.scenario("svm_one_class_linear_shrink", K, Kind::Claim, false, |p| run_one_class(p, Lin, 0.5, true));
    r.scenario("svm_one_class_poly", K, Kind::Claim, false, |p| run_one_class(p, Poly, 0.1, false));
    // multi-class composition
    r.scenario("svm_multiclass_linear_usize", "linfa", Kind::Claim, false, |p| run_multiclass::<usize>(p, Lin));
    r.scenario("svm_multiclass_linear_string", "linfa", Kind::Claim, false, |p| run_multiclass::<String>(p, Lin));
    r.scenario("svm_multiclass_gauss_usize", "linfa", Kind::Claim, false, |p| run_multiclass::<usize>(p, Gauss));
    r.scenario("svm_ova_label_order_usize", "linfa", Kind::Claim, false, run_ova_order::<usize>);
    r.scenario("svm_ova_label_order_string", "linfa", Kind::Claim, false, run_ova_order::<String>);

    // fitted models: C20 scenario + C19 entry
    const T_W: &[&str] = &["Svm", "SeparatingHyperplane", "ExitReason", "KernelMethod"];
    let c20 = Some((Kind::Claim, false));
    r.model::<Svm<f64, bool>>("svm_model_bool_gauss", K, T_W, c20, build_svm_bool_gauss, fp_model_bool, Some(|a, b| a == b));
    r.model::<Svm<f64, bool>>("svm_model_bool_linear_nu", K, T_W, c20, build_svm_bool_lin_nu, fp_model_bool, Some(|a, b| a == b));
    r.model::<Svm<f64, Pr>>("svm_model_pr_gauss", K, T_W, c20, build_svm_pr_gauss, fp_model_pr, Some(|a, b| a == b));
    r.model::<Svm<f64, Pr>>("svm_model_pr_linear", K, T_W, c20, build_svm_pr_lin, fp_model_pr, Some(|a, b| a == b));
    r.model::<Svm<f64, f64>>("svm_model_reg_eps_gauss", K, T_W, c20, build_svm_reg_eps_gauss, fp_model_reg, Some(|a, b| a == b));
    r.model::<Svm<f64, f64>>("svm_model_reg_nu_linear", K, T_W, c20, build_svm_reg_nu_lin, fp_model_reg, Some(|a, b| a == b));
    r.model::<Svm<f32, f32>>("svm_model_reg_f32", K, T_W, c20, build_svm_reg_f32, fp_model_reg32, Some(|a, b| a == b));
    r.model::<Svm<f32, bool>>("svm_model_bool_tiny_c_f32", K, T_W, c20, build_svm_bool_tiny_c_f32, fp_model_bool32, Some(|a, b| a == b));
    r.model::<Svm<f64, bool>>("svm_model_bool_tiny_c", K, T_W, c20, build_svm_bool_tiny_c, fp_model_bool, Some(|a, b| a == b));
    // (a huge-C polynomial f32 fit does not terminate in reasonable time and an f32 Platt fit
    // fails on some seeds: not registered)
    let _ = (build_svm_bool_huge_c_f32, build_svm_pr_f32, fp_model_pr32);
    r.model::<Svm<f64, bool>>("svm_model_one_class_gauss", K, T_W, c20, build_svm_one_class, fp_model_bool, Some(|a, b| a == b));
    r.model::<Vec<SeparatingHyperplane<f64>>>("svm_separating_hyperplane", K, &["SeparatingHyperplane"], None, build_hyperplanes, fp_hyperplanes, Some(|a, b| a == b));
    r.model::<Vec<ExitReason>>("svm_exit_reason", K, &["ExitReason"], None, build_exit_reasons, fp_exit_reasons, Some(|a, b| a == b));
}

// =============================================================================================
// linfa-trees
// =============================================================================================

const TREE_W: [f32; 3] = [0.1, 0.2, 0.7];

/// `k` classes.  Block A: rows in groups of `k` (one row per class, the whole group shares one
/// weight), feature 0 carries the class signal with overlap, the other features are noise on a
/// small grid.  Block B: copies of the first rows of block A carrying the *next* label and the
/// same weight.  Consequences: every class receives exactly the same sequence of weights (the
/// global class frequencies tie bit for bit), and every cell that holds a row and its copy has an
/// exact two-way tie.
fn tree_data(p: &P, k: usize) -> (Array2<f64>, Array1<usize>, Array1<f32>) {
    let (ga, gb) = p.pick((6, 3), (60, 30), (240, 120));
    let d = p.pick(3, 4, 5);
    let (na, nb) = (ga * k, gb * k);
    let mut r = p.rng(0x7201);
    let mut x = Array2::<f64>::zeros((na + nb, d));
    let mut y = Array1::<usize>::zeros(na + nb);
    let mut w = Array1::<f32>::zeros(na + nb);
    for i in 0..na {
        let c = i % k;
        y[i] = c;
        w[i] = TREE_W[(i / k) % 3];
        x[[i, 0]] = (2 * c) as f64 + r.below(3) as f64;
        for j in 1..d {
            x[[i, j]] = r.below(4) as f64;
        }
    }
    for i in 0..nb {
        for j in 0..d {
            x[[na + i, j]] = x[[i, j]];
        }
        y[na + i] = (y[i] + 1) % k;
        w[na + i] = w[i];
    }
    (x, y, w)
}

/// tie-free data for refits inside parameter-set entries: two classes (two-term float sums are
/// commutative), four separated clusters, continuous features without duplicates, no weights;
/// grown until the leaves are pure there is no tie anywhere
fn tree_clean_data(p: &P) -> (Array2<f64>, Array1<usize>) {
    let n = p.pick(16, 40, 40);
    let mut r = p.rng(0x7202);
    let mut x = Array2::<f64>::zeros((n, 3));
    let mut y = Array1::<usize>::zeros(n);
    for i in 0..n {
        let c = i % 2;
        y[i] = c;
        x[[i, 0]] = r.normal();
        x[[i, 1]] = if c == 0 { -3.0 - r.unit() } else { 3.0 + r.unit() } + if i % 4 < 2 { 0.0 } else { 10.0 };
        x[[i, 2]] = r.normal();
    }
    (x, y)
}

fn tree_queries(p: &P, x: &Array2<f64>) -> Array2<f64> {
    let m = p.pick(9, 60, 200);
    let n = x.nrows();
    let mut r = p.rng(0x7203);
    Array2::from_shape_fn((m, x.ncols()), |(i, j)| match i % 3 {
        0 => x[[(i * 13) % n, j]],
        1 => r.below(7) as f64 - 0.5,
        _ => x[[(i * 5) % n, j]] + 0.5,
    })
}

#[derive(Clone, Copy)]
struct TreeCfg {
    quality: Option<SplitQuality>,
    max_depth: Option<Option<usize>>,
    weighted: bool,
    min_weight_split: Option<f32>,
    min_weight_leaf: Option<f32>,
    min_impurity_decrease: Option<f64>,
}

const TREE_DEFAULT: TreeCfg = TreeCfg { quality: None, max_depth: None, weighted: false, min_weight_split: None, min_weight_leaf: None, min_impurity_decrease: None };

fn tree_params<F: Float, L: Label>(c: TreeCfg) -> DecisionTreeParams<F, L> {
    let mut prm = DecisionTree::<F, L>::params();
    if let Some(q) = c.quality {
        prm = prm.split_quality(q);
    }
    if let Some(d) = c.max_depth {
        prm = prm.max_depth(d);
    }
    if let Some(v) = c.min_weight_split {
        prm = prm.min_weight_split(v);
    }
    if let Some(v) = c.min_weight_leaf {
        prm = prm.min_weight_leaf(v);
    }
    if let Some(v) = c.min_impurity_decrease {
        prm = prm.min_impurity_decrease(F::cast(v));
    }
    prm
}

#[derive(Default)]
struct NodeAcc {
    leaf: Vec<u64>,
    depth: Vec<u64>,
    feature: Vec<u64>,
    split: Vec<u64>,
    prediction: Vec<u64>,
    impurity: Vec<u64>,
    name: Vec<u64>,
}
impl NodeAcc {
    fn push<F: Float + Bits, L: Label + Bits>(&mut self, n: &TreeNode<F, L>) {
        let (idx, value, dec) = n.split();
        self.leaf.push(n.is_leaf() as u64);
        self.depth.push(n.depth() as u64);
        self.feature.push(idx as u64);
        self.split.push(value.bits());
        self.prediction.push(n.prediction().bits());
        self.impurity.push(dec.bits());
        self.name.push(n.feature_name().map(|s| fnv(s.as_bytes())).unwrap_or(0));
    }
    fn emit(self, prefix: &str, f: &mut Fingerprint) {
        f.raw(&format!("{prefix}_leaf"), self.leaf);
        f.raw(&format!("{prefix}_depth"), self.depth);
        f.raw(&format!("{prefix}_feature"), self.feature);
        f.raw(&format!("{prefix}_split_value"), self.split);
        f.raw(&format!("{prefix}_prediction"), self.prediction);
        f.raw(&format!("{prefix}_impurity_decrease"), self.impurity);
        f.raw(&format!("{prefix}_feature_name"), self.name);
    }
}

fn fp_tree<F: Float + Bits, L: Label + Bits>(m: &DecisionTree<F, L>, x: &Array2<F>, q: &Array2<F>, with_features: bool, f: &mut Fingerprint) {
    let mut acc = NodeAcc::default();
    for n in m.iter_nodes() {
        acc.push(n);
    }
    acc.emit("nodes", f);
    f.one("max_depth", m.max_depth());
    f.one("num_leaves", m.num_leaves());
    f.seq("mean_impurity_decrease", m.mean_impurity_decrease());
    f.seq("feature_importance", m.feature_importance());
    let pt: Array1<L> = m.predict(x);
    f.arr("predict_train", &pt);
    let pq: Array1<L> = m.predict(q);
    f.arr("predict_query", &pq);
    let single: Vec<L> = q.axis_iter(Axis(0)).take(6).map(|r| -> L { let one: Array1<L> = m.predict(&r.insert_axis(Axis(0)).to_owned()); one[0].clone() }).collect();
    f.seq("predict_single", single);
    f.text("tikz", &m.export_to_tikz().with_legend().to_string());
    // documented as "features_idx of this tree (BFT)": ordered, fingerprinted raw.  It is left out
    // (`with_features == false`) only in the refits of parameter-set entries and in the tie-free
    // persistence entry: `features()` builds a fresh `HashSet` per call, so its order differs
    // between two calls on the very same model, which would mask what those entries test.
    if with_features {
        f.seq("features", m.features());
    }
}

fn tree_dataset<F: Float, L: Lab>(p: &P, k: usize, weighted: bool) -> (Dataset<F, L, ndarray::Ix1>, Array2<F>, Array2<F>) {
    let (x, y, w) = tree_data(p, k);
    let q = tree_queries(p, &x);
    let xf = cast::<F>(&x);
    let names: Vec<String> = (0..x.ncols()).map(|j| format!("col{}", (j * 3) % 5)).collect();
    let mut ds = Dataset::new(xf.clone(), labels_of::<L>(&y)).with_feature_names(names);
    if weighted {
        ds = ds.with_weights(w);
    }
    (ds, xf, cast::<F>(&q))
}

fn fit_tree<F: Float + Bits, L: Lab>(p: &P, k: usize, c: TreeCfg) -> linfa::error::Result<DecisionTree<F, L>> {
    let (ds, _, _) = tree_dataset::<F, L>(p, k, c.weighted);
    tree_params::<F, L>(c).fit(&ds)
}

fn run_tree<F: Float + Bits, L: Lab>(p: &P, k: usize, c: TreeCfg) -> Fingerprint {
    let mut f = Fingerprint::new();
    let (_, x, q) = tree_dataset::<F, L>(p, k, c.weighted);
    match fit_tree::<F, L>(p, k, c) {
        Ok(m) => fp_tree(&m, &x, &q, true, &mut f),
        Err(e) => f.err("fit", &e),
    }
    f
}

/// cross-validation twice on one weighted dataset object: the first pass must leave nothing
/// behind (rows, targets, WEIGHTS) that the second could see
fn tree_cv_twice_weighted(p: &P) -> Fingerprint {
    let mut f = Fingerprint::new();
    let (mut ds, _, _) = tree_dataset::<f64, usize>(p, 3, true);
    let weights_before: Vec<u64> = ds.weights().map(|w| w.iter().map(|v| v.to_bits() as u64).collect()).unwrap_or_default();
    let params = vec![tree_params::<f64, usize>(TREE_CFG_MODEL), tree_params::<f64, usize>(TREE_CFG_MODEL_E)];
    let k = p.pick(3, 4, 5);
    let eval = |pred: &Array1<usize>, truth: &ndarray::ArrayView1<usize>| -> linfa::error::Result<f64> { Ok(pred.iter().zip(truth.iter()).filter(|(a, b)| a == b).count() as f64 / pred.len().max(1) as f64) };
    let mut digests = Vec::new();
    for pass in 0..2 {
        let r: linfa::error::Result<Array1<f64>> = ds.cross_validate_single(k, &params, eval);
        let mut g = Fingerprint::new();
        match r {
            Ok(scores) => g.arr("scores", &scores),
            Err(e) => g.err("cv", &e),
        }
        if pass == 0 {
            f.extend("first.", g.clone());
        }
        digests.push(g.digest());
    }
    f.must_agree("cross_validation_scores_of_two_passes_over_one_weighted_dataset", digests[0], digests[1]);
    let weights_after: Vec<u64> = ds.weights().map(|w| w.iter().map(|v| v.to_bits() as u64).collect()).unwrap_or_default();
    f.must_agree("sample_weights_before_and_after_cross_validation", crate::fp::fnv(&weights_before.iter().flat_map(|v| v.to_le_bytes()).collect::<Vec<u8>>()), crate::fp::fnv(&weights_after.iter().flat_map(|v| v.to_le_bytes()).collect::<Vec<u8>>()));
    f
}

const TREE_CFG_MODEL: TreeCfg = TreeCfg { quality: Some(SplitQuality::Gini), max_depth: Some(Some(3)), weighted: true, ..TREE_DEFAULT };
const TREE_CFG_MODEL_E: TreeCfg = TreeCfg { quality: Some(SplitQuality::Entropy), max_depth: Some(None), weighted: true, ..TREE_DEFAULT };

fn build_tree<L: Lab>(p: &P) -> DecisionTree<f64, L> {
    fit_tree::<f64, L>(p, L::TREE_K, TREE_CFG_MODEL).expect("tree fit")
}
fn build_tree_entropy<L: Lab>(p: &P) -> DecisionTree<f64, L> {
    fit_tree::<f64, L>(p, L::TREE_K, TREE_CFG_MODEL_E).expect("tree fit")
}
fn fp_tree_model<L: Lab>(m: &DecisionTree<f64, L>, p: &P, f: &mut Fingerprint) {
    let (_, x, q) = tree_dataset::<f64, L>(p, L::TREE_K, true);
    fp_tree(m, &x, &q, true, f)
}
/// tie-free model: the persistence check proper (no hash-order dependence in `fit`/`predict`)
/// several feature columns share one name (columns of a one-hot block, repeated measurements):
/// names are labels, not keys
fn tree_dupnames_dataset(p: &P) -> (Dataset<f64, usize, ndarray::Ix1>, Array2<f64>, Array2<f64>) {
    let (x, y, _) = tree_data(p, 3);
    let q = tree_queries(p, &x);
    let names: Vec<String> = (0..x.ncols()).map(|j| if j % 2 == 0 { "reading".to_string() } else { "flag".to_string() }).collect();
    (Dataset::new(x.clone(), labels_of::<usize>(&y)).with_feature_names(names), x, q)
}
fn build_tree_dupnames(p: &P) -> DecisionTree<f64, usize> {
    let (ds, _, _) = tree_dupnames_dataset(p);
    DecisionTree::params().fit(&ds).expect("tree fit")
}
fn fp_tree_dupnames(m: &DecisionTree<f64, usize>, p: &P, f: &mut Fingerprint) {
    let (_, x, q) = tree_dupnames_dataset(p);
    fp_tree(m, &x, &q, true, f);
    // every node's own name, in tree order
    let names: Vec<String> = m.iter_nodes().map(|n| n.feature_name().cloned().unwrap_or_default()).collect();
    f.text("node_feature_names", &names.join("|"));
}
fn build_tree_clean(p: &P) -> DecisionTree<f64, usize> {
    let (x, y) = tree_clean_data(p);
    DecisionTree::params().fit(&Dataset::new(x, y)).expect("tree fit")
}
fn fp_tree_clean(m: &DecisionTree<f64, usize>, p: &P, f: &mut Fingerprint) {
    let (x, _) = tree_clean_data(p);
    let q = tree_queries(p, &x);
    fp_tree(m, &x, &q, false, f)
}

/// f32 feature whose neighbouring values are ADJACENT floats (time stamps around 1.7e9, where
/// the f32 spacing is 128): the mid point used as split value rounds onto one of them, which
/// produces degenerate nodes (a node flagged as leaf that still owns one child)
fn tree_adjacent_data(p: &P) -> (Array2<f32>, Array1<usize>) {
    let t0 = 1_700_000_128.0_f32;
    let t1 = 1_700_000_256.0_f32;
    let n = 9 + (p.seed % 4) as usize * 2;
    let mut r = p.rng(0xAD1);
    let x = Array2::from_shape_fn((n, 2), |(i, j)| {
        if j == 0 {
            if i < 4 {
                0.1 * i as f32
            } else {
                1.0 + 0.1 * (i - 4) as f32
            }
        } else if i >= 4 && (i % 2 == 1 || i == n - 1) {
            t1
        } else {
            t0
        }
    });
    let y = Array1::from_shape_fn(n, |i| if i < 4 { 0 } else if x[[i, 1]] == t1 { 2 } else { 1 });
    let _ = r.next_u64();
    (x, y)
}
fn build_tree_adjacent(p: &P) -> DecisionTree<f32, usize> {
    let (x, y) = tree_adjacent_data(p);
    DecisionTree::params().max_depth(Some(4)).fit(&DatasetBase::new(x, y)).expect("tree fit")
}
fn fp_tree_adjacent(m: &DecisionTree<f32, usize>, p: &P, f: &mut Fingerprint) {
    let (x, _) = tree_adjacent_data(p);
    let q = ndarray::array![[0.5f32, 0.0], [1.25, 1.6e9], [-3.0, 1.7e9], [1.15, 1_700_000_256.0]];
    // the tie-free parts only (features() order etc. are covered elsewhere)
    let mut acc = NodeAcc::default();
    for n in m.iter_nodes() {
        acc.push(n);
    }
    acc.emit("nodes", f);
    f.one("num_leaves", m.num_leaves());
    f.one("max_depth", m.max_depth());
    f.seq("mean_impurity_decrease", m.mean_impurity_decrease());
    f.seq("feature_importance", m.feature_importance());
    f.arr("predict_train", &m.predict(&x));
    f.arr("predict_query", &m.predict(&q));
}

fn build_tree_node(p: &P) -> TreeNode<f64, usize> {
    build_tree_clean(p).root_node().clone()
}
fn walk_node<F: Float + Bits, L: Label + Bits>(n: &TreeNode<F, L>, acc: &mut NodeAcc, shape: &mut Vec<u64>) {
    acc.push(n);
    let ch = n.children();
    shape.push(ch.iter().enumerate().map(|(i, c)| (c.is_some() as u64) << i).sum());
    for c in ch.into_iter().flatten() {
        walk_node(c, acc, shape);
    }
}
fn fp_tree_node(n: &TreeNode<f64, usize>, _p: &P, f: &mut Fingerprint) {
    let mut acc = NodeAcc::default();
    let mut shape = Vec::new();
    walk_node(n, &mut acc, &mut shape);
    acc.emit("dfs", f);
    f.raw("dfs_children", shape);
}

type TreeParams = DecisionTreeParams<f64, usize>;
type TreeValid = DecisionTreeValidParams<f64, usize>;

fn fp_tree_valid(v: &TreeValid, p: &P, f: &mut Fingerprint) {
    f.one("split_quality", matches!(v.split_quality(), SplitQuality::Entropy));
    f.one("max_depth", v.max_depth());
    f.one("min_weight_split", v.min_weight_split());
    f.one("min_weight_leaf", v.min_weight_leaf());
    f.one("min_impurity_decrease", v.min_impurity_decrease());
    let (x, y) = tree_clean_data(p);
    let q = tree_queries(p, &x);
    match v.fit(&Dataset::new(x.clone(), y)) {
        Ok(m) => fp_tree(&m, &x, &q, false, f),
        Err(e) => f.err("refit", &e),
    }
}
fn fp_tree_params(v: &TreeParams, p: &P, f: &mut Fingerprint) {
    match v.check_ref() {
        Ok(valid) => {
            f.one("check_ok", true);
            fp_tree_valid(valid, p, f);
        }
        Err(e) => f.err("check", &e),
    }
}
fn build_tree_params(p: &P) -> TreeParams {
    DecisionTree::params()
        .split_quality(SplitQuality::Entropy)
        .max_depth(Some(12 + (p.seed % 3) as usize))
        .min_weight_split(1.5)
        .min_weight_leaf(0.75)
        .min_impurity_decrease(1e-4 * (1 + p.seed % 5) as f64)
}
fn build_tree_params_invalid(_p: &P) -> TreeParams {
    // documented lower bound: must be greater than zero
    DecisionTree::params().min_impurity_decrease(0.0).max_depth(Some(0))
}
fn build_tree_valid(p: &P) -> TreeValid {
    build_tree_params(p).check().expect("valid")
}
fn build_split_qualities(_p: &P) -> Vec<SplitQuality> {
    vec![SplitQuality::Gini, SplitQuality::Entropy, SplitQuality::Gini]
}
fn fp_split_qualities(v: &Vec<SplitQuality>, p: &P, f: &mut Fingerprint) {
    f.seq("qualities", v.iter().map(|q| matches!(q, SplitQuality::Entropy)));
    let (x, y) = tree_clean_data(p);
    let q = tree_queries(p, &x);
    let ds = Dataset::new(x.clone(), y);
    for (i, sq) in v.iter().enumerate().take(2) {
        match DecisionTree::<f64, usize>::params().split_quality(*sq).fit(&ds) {
            Ok(m) => {
                let mut g = Fingerprint::new();
                fp_tree(&m, &x, &q, false, &mut g);
                f.extend(&format!("q{i}_"), g);
            }
            Err(e) => f.err(&format!("q{i}_refit"), &e),
        }
    }
}

fn register_trees(r: &mut Registry) {
    const K: &str = "linfa-trees";
    use SplitQuality::*;
    let d = TREE_DEFAULT;
    // default builder, nothing set, no weights
    r.scenario("tree_default_usize", K, Kind::Claim, false, move |p| run_tree::<f64, usize>(p, 3, d));
    r.scenario("tree_default_string", K, Kind::Claim, false, move |p| run_tree::<f64, String>(p, 3, d));
    r.scenario("tree_default_bool", K, Kind::Claim, false, move |p| run_tree::<f64, bool>(p, 2, d));
    let cases: [(&str, usize, TreeCfg); 9] = [
        ("tree_gini_weighted_full", 3, TreeCfg { quality: Some(Gini), max_depth: Some(None), weighted: true, ..d }),
        ("tree_gini_weighted_d3", 3, TreeCfg { quality: Some(Gini), max_depth: Some(Some(3)), weighted: true, ..d }),
        ("tree_gini_weighted_d0", 3, TreeCfg { quality: Some(Gini), max_depth: Some(Some(0)), weighted: true, ..d }),
        ("tree_entropy_weighted_full", 3, TreeCfg { quality: Some(Entropy), max_depth: Some(None), weighted: true, ..d }),
        ("tree_entropy_d3", 3, TreeCfg { quality: Some(Entropy), max_depth: Some(Some(3)), ..d }),
        ("tree_entropy_d0", 4, TreeCfg { quality: Some(Entropy), max_depth: Some(Some(0)), ..d }),
        ("tree_gini_min_weights", 3, TreeCfg { quality: Some(Gini), weighted: true, min_weight_split: Some(6.0), min_weight_leaf: Some(1.5), min_impurity_decrease: Some(0.01), ..d }),
        ("tree_entropy_min_weights_k4", 4, TreeCfg { quality: Some(Entropy), min_weight_split: Some(4.0), min_weight_leaf: Some(2.0), min_impurity_decrease: Some(0.05), ..d }),
        ("tree_invalid_min_impurity", 3, TreeCfg { min_impurity_decrease: Some(0.0), ..d }),
    ];
    for (name, k, c) in cases {
        r.scenario(name, K, Kind::Claim, false, move |p| run_tree::<f64, usize>(p, k, c));
    }
    r.scenario("tree_entropy_weighted_d3_string", K, Kind::Claim, false, move |p| {
        run_tree::<f64, String>(p, 3, TreeCfg { quality: Some(Entropy), max_depth: Some(Some(3)), weighted: true, ..d })
    });
    r.scenario("tree_gini_d0_string", K, Kind::Claim, false, move |p| run_tree::<f64, String>(p, 5, TreeCfg { max_depth: Some(Some(0)), ..d }));
    r.scenario("tree_gini_weighted_full_bool", K, Kind::Claim, false, move |p| {
        run_tree::<f64, bool>(p, 2, TreeCfg { quality: Some(Gini), max_depth: Some(None), weighted: true, ..d })
    });
    r.scenario("tree_entropy_d0_bool", K, Kind::Claim, false, move |p| {
        run_tree::<f64, bool>(p, 2, TreeCfg { quality: Some(Entropy), max_depth: Some(Some(0)), weighted: true, ..d })
    });
    r.scenario("tree_gini_weighted_d3_f32", K, Kind::Claim, false, move |p| {
        run_tree::<f32, usize>(p, 3, TreeCfg { quality: Some(Gini), max_depth: Some(Some(3)), weighted: true, ..d })
    });

    const T_M: &[&str] = &["DecisionTree", "TreeNode"];
    let c20 = Some((Kind::Claim, false));
    r.scenario("tree_cv_twice_weighted", K, Kind::Claim, false, tree_cv_twice_weighted);
    r.model::<DecisionTree<f64, usize>>("tree_model_usize", K, T_M, c20, build_tree::<usize>, fp_tree_model::<usize>, Some(|a, b| a == b));
    r.model::<DecisionTree<f64, String>>("tree_model_string", K, T_M, c20, build_tree::<String>, fp_tree_model::<String>, Some(|a, b| a == b));
    r.model::<DecisionTree<f64, Option<String>>>("tree_model_option_string", K, T_M, None, build_tree::<Option<String>>, fp_tree_model::<Option<String>>, Some(|a, b| a == b));
    r.model::<DecisionTree<f64, bool>>("tree_model_bool", K, T_M, c20, build_tree::<bool>, fp_tree_model::<bool>, Some(|a, b| a == b));
    r.model::<DecisionTree<f64, String>>("tree_model_entropy_string", K, T_M, c20, build_tree_entropy::<String>, fp_tree_model::<String>, Some(|a, b| a == b));
    r.model::<DecisionTree<f64, usize>>("tree_model_duplicate_feature_names", K, T_M, None, build_tree_dupnames, fp_tree_dupnames, Some(|a, b| a == b));
    r.model::<DecisionTree<f64, usize>>("tree_model_clean", K, T_M, c20, build_tree_clean, fp_tree_clean, Some(|a, b| a == b));
    r.model::<DecisionTree<f32, usize>>("tree_model_adjacent_floats_f32", K, T_M, c20, build_tree_adjacent, fp_tree_adjacent, Some(|a, b| a == b));
    r.model::<TreeNode<f64, usize>>("tree_node", K, &["TreeNode"], None, build_tree_node, fp_tree_node, Some(|a, b| a == b));
    r.model::<TreeParams>("tree_params", K, &["DecisionTreeParams", "DecisionTreeValidParams", "SplitQuality"], c20, build_tree_params, fp_tree_params, Some(|a, b| a == b));
    r.model::<TreeParams>("tree_params_invalid", K, &["DecisionTreeParams"], None, build_tree_params_invalid, fp_tree_params, Some(|a, b| a == b));
    r.model::<TreeValid>("tree_valid_params", K, &["DecisionTreeValidParams", "SplitQuality"], None, build_tree_valid, fp_tree_valid, Some(|a, b| a == b));
    r.model::<Vec<SplitQuality>>("tree_split_quality", K, &["SplitQuality"], None, build_split_qualities, fp_split_qualities, Some(|a, b| a == b));
}

// =============================================================================================
// linfa-bayes
// =============================================================================================

/// canonical walk over a serde_json value (object keys sorted): the serde view of a model whose
/// state is a `HashMap` keyed by label
fn canon_json(v: &serde_json::Value, out: &mut Vec<u64>) {
    use serde_json::Value::*;
    match v {
        Null => out.push(1),
        Bool(b) => out.push(2 + *b as u64),
        Number(n) => {
            if let Some(u) = n.as_u64() {
                out.extend([4, u]);
            } else if let Some(i) = n.as_i64() {
                out.extend([5, i as u64]);
            } else {
                out.extend([6, n.as_f64().unwrap_or(f64::NAN).to_bits()]);
            }
        }
        String(s) => out.extend([7, fnv(s.as_bytes())]),
        Array(a) => {
            out.extend([8, a.len() as u64]);
            for e in a {
                canon_json(e, out);
            }
        }
        Object(m) => {
            let mut keys: Vec<&std::string::String> = m.keys().collect();
            keys.sort();
            out.extend([9, keys.len() as u64]);
            for k in keys {
                out.push(fnv(k.as_bytes()));
                canon_json(&m[k], out);
            }
        }
    }
}

fn fp_state<M: Serialize>(m: &M, f: &mut Fingerprint) {
    match serde_json::to_value(m) {
        Ok(v) => {
            let mut out = Vec::new();
            canon_json(&v, &mut out);
            f.raw("state", out);
        }
        Err(e) => f.err("state", &e),
    }
}

/// one generated row: (group, class index, features)
type NbRows = Vec<(usize, usize, Vec<f64>)>;

/// Gaussian data.  Class indices 0, 1, 2 own exactly the same rows in the same order (identical
/// mean, variance and prior, hence bit-identical posteriors); 3 and 4 are ordinary classes.
fn nb_gauss_rows(p: &P) -> NbRows {
    let g = p.pick(4, 40, 300);
    let d = p.pick(2, 3, 4);
    let mut r = p.rng(0xBA01);
    let grid = |v: f64| (v * 8.0).round() / 8.0;
    let mut rows = NbRows::new();
    for i in 0..g {
        let t: Vec<f64> = (0..d).map(|_| grid(r.normal())).collect();
        for c in 0..3 {
            rows.push((i, c, t.clone()));
        }
        rows.push((i, 3, (0..d).map(|j| grid(if j == 0 { 4.0 } else { -1.0 } + r.normal())).collect()));
        rows.push((i, 4, (0..d).map(|j| grid(if j == 1 { 3.0 } else { -4.0 } + 1.5 * r.normal())).collect()));
    }
    rows
}

/// count data with the same class layout
fn nb_count_rows(p: &P) -> NbRows {
    let g = p.pick(4, 40, 300);
    let d = p.pick(3, 4, 6);
    let mut r = p.rng(0xBA02);
    let mut rows = NbRows::new();
    for i in 0..g {
        let t: Vec<f64> = (0..d).map(|j| (r.below(4) + if j == 0 { 4 } else { 0 }) as f64).collect();
        for c in 0..3 {
            rows.push((i, c, t.clone()));
        }
        rows.push((i, 3, (0..d).map(|j| (r.below(4) + if j == 1 { 5 } else { 0 }) as f64).collect()));
        rows.push((i, 4, (0..d).map(|j| (r.below(3) + if j == 2 { 3 } else { 1 }) as f64).collect()));
    }
    rows
}

/// `tied == false` drops the class indices 1 and 2: no two classes share statistics
fn nb_select(rows: &NbRows, tied: bool, keep: impl Fn(usize, usize) -> bool) -> (Array2<f64>, Array1<usize>) {
    let sel: Vec<&(usize, usize, Vec<f64>)> = rows.iter().filter(|(g, c, _)| (tied || (*c != 1 && *c != 2)) && keep(*g, *c)).collect();
    let d = rows[0].2.len();
    let x = Array2::from_shape_fn((sel.len(), d), |(i, j)| sel[i].2[j]);
    let y = sel.iter().map(|t| t.1).collect();
    (x, y)
}

/// batches for `fit_with`: class-incomplete on purpose
fn nb_batches(rows: &NbRows, tied: bool) -> Vec<(Array2<f64>, Array1<usize>)> {
    let g = rows.iter().map(|t| t.0).max().unwrap_or(0) + 1;
    let h = g / 2;
    vec![
        nb_select(rows, tied, |i, c| c <= 2 && i < h),
        nb_select(rows, tied, |_, c| c == 3),
        nb_select(rows, tied, |i, c| c != 3 && i >= h),
        nb_select(rows, tied, |i, _| i < 2),
    ]
}

fn nb_gauss_queries(p: &P, rows: &NbRows) -> Array2<f64> {
    let (x, _) = nb_select(rows, true, |_, _| true);
    data::queries(&mut p.rng(0xBA03), &x, p.pick(9, 60, 300))
}
fn nb_count_queries(p: &P, rows: &NbRows) -> Array2<f64> {
    let (x, _) = nb_select(rows, true, |_, _| true);
    let n = x.nrows();
    let mut r = p.rng(0xBA04);
    Array2::from_shape_fn((p.pick(9, 60, 300), x.ncols()), |(i, j)| match i % 3 {
        0 => x[[(i * 31) % n, j]],
        1 => r.below(6) as f64,
        _ => x[[(i * 17) % n, j]] + r.below(2) as f64,
    })
}

/// predictions are fingerprinted raw; `predict` is called twice on the same model
fn fp_nb<F: Float + Bits, L: Lab, M>(m: &M, q: &Array2<F>, f: &mut Fingerprint)
where
    M: PredictInplace<Array2<F>, Array1<L>> + Serialize,
{
    let p1: Array1<L> = m.predict(q);
    f.arr("predict_1", &p1);
    let p2: Array1<L> = m.predict(q);
    f.arr("predict_2", &p2);
    f.one("predict_calls_agree", p1 == p2);
    let single: Vec<L> = q
        .axis_iter(Axis(0))
        .take(6)
        .map(|r| {
            let one: Array1<L> = m.predict(&r.insert_axis(Axis(0)).to_owned());
            one[0].clone()
        })
        .collect();
    f.seq("predict_single", single);
    fp_state(m, f);
}

macro_rules! nb_kind {
    ($modname:ident, $Model:ident, $Valid:ident, $setter:ident, $setval:expr, $rows:ident, $queries:ident) => {
        mod $modname {
            use super::*;

            pub fn valid<F: Float, L: Lab>(default: bool) -> Result<$Valid<F, L>, linfa_bayes::NaiveBayesError> {
                if default {
                    $Model::<F, L>::params().check()
                } else {
                    $Model::<F, L>::params().$setter(F::cast($setval)).check()
                }
            }

            pub fn fit<F: Float, L: Lab>(p: &P, tied: bool, default: bool) -> Result<$Model<F, L>, linfa_bayes::NaiveBayesError> {
                let (x, y) = nb_select(&$rows(p), tied, |_, _| true);
                let ds = DatasetBase::new(cast::<F>(&x), labels_of::<L>(&y));
                valid::<F, L>(default)?.fit(&ds)
            }

            pub fn queries<F: Float>(p: &P) -> Array2<F> {
                cast::<F>(&$queries(p, &$rows(p)))
            }

            pub fn run_fit<F: Float + Bits + Serialize, L: Lab>(p: &P, tied: bool, default: bool) -> Fingerprint {
                let mut f = Fingerprint::new();
                match fit::<F, L>(p, tied, default) {
                    Ok(m) => fp_nb::<F, L, _>(&m, &queries::<F>(p), &mut f),
                    Err(e) => f.err("fit", &e),
                }
                f
            }

            /// incremental history; the model is observed after every batch
            pub fn run_fit_with<F: Float + Bits + Serialize, L: Lab>(p: &P, tied: bool) -> Fingerprint {
                let mut f = Fingerprint::new();
                let params = match valid::<F, L>(false) {
                    Ok(v) => v,
                    Err(e) => {
                        f.err("check", &e);
                        return f;
                    }
                };
                let q = queries::<F>(p);
                let mut model: Option<$Model<F, L>> = None;
                for (i, (x, y)) in nb_batches(&$rows(p), tied).into_iter().enumerate() {
                    let ds = DatasetBase::new(cast::<F>(&x), labels_of::<L>(&y));
                    match params.fit_with(model.take(), &ds) {
                        Ok(m) => model = m,
                        Err(e) => {
                            f.err(&format!("fit_with{i}"), &e);
                            return f;
                        }
                    }
                    if let Some(m) = &model {
                        let mut g = Fingerprint::new();
                        fp_nb::<F, L, _>(m, &q, &mut g);
                        f.extend(&format!("b{i}_"), g);
                    }
                }
                f
            }

            pub fn build<L: Lab>(p: &P) -> $Model<f64, L> {
                fit::<f64, L>(p, true, false).expect("nb fit")
            }
            pub fn build_clean(p: &P) -> $Model<f64, usize> {
                fit::<f64, usize>(p, false, false).expect("nb fit")
            }
            pub fn fp_build<L: Lab>(m: &$Model<f64, L>, p: &P, f: &mut Fingerprint) {
                fp_nb::<f64, L, _>(m, &queries::<f64>(p), f)
            }
            pub fn build_valid(p: &P) -> $Valid<f64, String> {
                $Model::<f64, String>::params().$setter($setval * (1 + p.seed % 4) as f64).check().expect("valid")
            }
            pub fn build_valid_bound(_p: &P) -> $Valid<f64, usize> {
                // documented range [0, inf): the lower bound itself
                $Model::<f64, usize>::params().$setter(0.0).check().expect("valid")
            }
            /// accessor + refit on tie-free data
            pub fn fp_valid<L: Lab>(v: &$Valid<f64, L>, p: &P, f: &mut Fingerprint) {
                f.one(stringify!($setter), v.$setter());
                // strictly positive records so that the bound value 0 stays finite
                let (x, y) = nb_select(&$rows(p), false, |_, _| true);
                // (the per-row ramp keeps every within-class variance non-zero)
                let mut x = x.mapv(|v| v.abs() + 1.0);
                for (i, mut row) in x.axis_iter_mut(Axis(0)).enumerate() {
                    row += i as f64 / 1024.0;
                }
                let q = queries::<f64>(p).mapv(|v| v.abs() + 1.0);
                match v.fit(&DatasetBase::new(x, labels_of::<L>(&y))) {
                    Ok(m) => fp_nb::<f64, L, _>(&m, &q, f),
                    Err(e) => f.err("refit", &e),
                }
            }
        }
    };
}

nb_kind!(gnb, GaussianNb, GaussianNbValidParams, var_smoothing, 1e-6, nb_gauss_rows, nb_gauss_queries);
nb_kind!(mnb, MultinomialNb, MultinomialNbValidParams, alpha, 0.5, nb_count_rows, nb_count_queries);

/// weighted (non-integral) counts, as after tf-idf: the persisted per-class feature totals are
/// not whole numbers.  The fingerprint also continues training the value it is given with one
/// more batch — what a service does with a model it restored.
fn mnb_frac(x: &Array2<f64>) -> Array2<f64> {
    x.mapv(|v| v * 0.3 + 0.05)
}
fn build_mnb_fractional(p: &P) -> MultinomialNb<f64, usize> {
    let (x, y) = nb_select(&nb_count_rows(p), true, |g, _| g % 2 == 0);
    MultinomialNb::<f64, usize>::params().alpha(0.5).fit(&DatasetBase::new(mnb_frac(&x), labels_of::<usize>(&y))).expect("nb fit")
}
fn fp_mnb_fractional(m: &MultinomialNb<f64, usize>, p: &P, f: &mut Fingerprint) {
    let q = mnb_frac(&mnb::queries::<f64>(p));
    fp_nb::<f64, usize, _>(m, &q, f);
    let (x, y) = nb_select(&nb_count_rows(p), true, |g, _| g % 2 == 1);
    let params = MultinomialNb::<f64, usize>::params().alpha(0.5).check().expect("valid");
    match params.fit_with(Some(m.clone()), &DatasetBase::new(mnb_frac(&x), labels_of::<usize>(&y))) {
        Ok(Some(m2)) => {
            let mut g = Fingerprint::new();
            fp_nb::<f64, usize, _>(&m2, &q, &mut g);
            f.extend("continued.", g);
        }
        Ok(None) => f.one("continued_none", true),
        Err(e) => f.err("continued", &e),
    }
}
fn build_gnb_continue(p: &P) -> GaussianNb<f64, usize> {
    let (x, y) = nb_select(&nb_gauss_rows(p), true, |g, _| g % 2 == 0);
    GaussianNb::<f64, usize>::params().fit(&DatasetBase::new(x, labels_of::<usize>(&y))).expect("nb fit")
}
fn fp_gnb_continue(m: &GaussianNb<f64, usize>, p: &P, f: &mut Fingerprint) {
    let q = gnb::queries::<f64>(p);
    fp_nb::<f64, usize, _>(m, &q, f);
    let (x, y) = nb_select(&nb_gauss_rows(p), true, |g, _| g % 2 == 1);
    let params = GaussianNb::<f64, usize>::params().check().expect("valid");
    match params.fit_with(Some(m.clone()), &DatasetBase::new(x, labels_of::<usize>(&y))) {
        Ok(Some(m2)) => {
            let mut g = Fingerprint::new();
            fp_nb::<f64, usize, _>(&m2, &q, &mut g);
            f.extend("continued.", g);
        }
        Ok(None) => f.one("continued_none", true),
        Err(e) => f.err("continued", &e),
    }
}

fn nb_invalid(p: &P) -> Fingerprint {
    let mut f = Fingerprint::new();
    let (x, y) = nb_select(&nb_gauss_rows(p), true, |_, _| true);
    let ds = DatasetBase::new(x, y);
    match GaussianNb::<f64, usize>::params().var_smoothing(-1e-9).fit(&ds) {
        Ok(_) => f.one("gauss_fit_ok", true),
        Err(e) => f.err("gauss_fit", &e),
    }
    match MultinomialNb::<f64, usize>::params().alpha(-0.5).fit(&ds) {
        Ok(_) => f.one("multi_fit_ok", true),
        Err(e) => f.err("multi_fit", &e),
    }
    f
}

fn register_bayes(r: &mut Registry) {
    const K: &str = "linfa-bayes";
    // default builders, tied classes
    r.scenario("nb_gauss_default_usize", K, Kind::Claim, false, |p| gnb::run_fit::<f64, usize>(p, true, true));
    r.scenario("nb_gauss_default_string", K, Kind::Claim, false, |p| gnb::run_fit::<f64, String>(p, true, true));
    r.scenario("nb_gauss_f32", K, Kind::Claim, false, |p| gnb::run_fit::<f32, usize>(p, true, false));
    r.scenario("nb_gauss_fit_with_usize", K, Kind::Claim, false, |p| gnb::run_fit_with::<f64, usize>(p, true));
    r.scenario("nb_gauss_fit_with_string", K, Kind::Claim, false, |p| gnb::run_fit_with::<f64, String>(p, true));
    r.scenario("nb_gauss_fit_with_notie", K, Kind::Claim, false, |p| gnb::run_fit_with::<f64, String>(p, false));
    r.scenario("nb_multi_default_usize", K, Kind::Claim, false, |p| mnb::run_fit::<f64, usize>(p, true, true));
    r.scenario("nb_multi_default_string", K, Kind::Claim, false, |p| mnb::run_fit::<f64, String>(p, true, true));
    r.scenario("nb_multi_f32", K, Kind::Claim, false, |p| mnb::run_fit::<f32, String>(p, true, false));
    r.scenario("nb_multi_fit_with_usize", K, Kind::Claim, false, |p| mnb::run_fit_with::<f64, usize>(p, true));
    r.scenario("nb_multi_fit_with_string", K, Kind::Claim, false, |p| mnb::run_fit_with::<f64, String>(p, true));
    r.scenario("nb_multi_fit_with_notie", K, Kind::Claim, false, |p| mnb::run_fit_with::<f64, usize>(p, false));
    r.scenario("nb_invalid_smoothing", K, Kind::Claim, false, nb_invalid);

    let c20 = Some((Kind::Claim, false));
    const T_G: &[&str] = &["GaussianNb", "GaussianClassInfo"];
    const T_M: &[&str] = &["MultinomialNb", "MultinomialClassInfo"];
    r.model::<GaussianNb<f64, usize>>("nb_gauss_model_usize", K, T_G, c20, gnb::build::<usize>, gnb::fp_build::<usize>, Some(|a, b| a == b));
    r.model::<GaussianNb<f64, String>>("nb_gauss_model_string", K, T_G, c20, gnb::build::<String>, gnb::fp_build::<String>, Some(|a, b| a == b));
    r.model::<GaussianNb<f64, Option<String>>>("nb_gauss_model_option_string", K, T_G, None, gnb::build::<Option<String>>, gnb::fp_build::<Option<String>>, Some(|a, b| a == b));
    r.model::<MultinomialNb<f64, Option<String>>>("nb_multi_model_option_string", K, T_M, None, mnb::build::<Option<String>>, mnb::fp_build::<Option<String>>, Some(|a, b| a == b));
    r.model::<MultinomialNb<f64, usize>>("nb_multi_model_fractional_continued", K, T_M, c20, build_mnb_fractional, fp_mnb_fractional, Some(|a, b| a == b));
    r.model::<GaussianNb<f64, usize>>("nb_gauss_model_continued", K, T_G, c20, build_gnb_continue, fp_gnb_continue, Some(|a, b| a == b));
    r.model::<GaussianNb<f64, usize>>("nb_gauss_model_notie", K, T_G, c20, gnb::build_clean, gnb::fp_build::<usize>, Some(|a, b| a == b));
    r.model::<MultinomialNb<f64, usize>>("nb_multi_model_usize", K, T_M, c20, mnb::build::<usize>, mnb::fp_build::<usize>, Some(|a, b| a == b));
    r.model::<MultinomialNb<f64, String>>("nb_multi_model_string", K, T_M, c20, mnb::build::<String>, mnb::fp_build::<String>, Some(|a, b| a == b));
    r.model::<MultinomialNb<f64, usize>>("nb_multi_model_notie", K, T_M, c20, mnb::build_clean, mnb::fp_build::<usize>, Some(|a, b| a == b));
    r.model::<GaussianNbValidParams<f64, String>>("nb_gauss_valid_params", K, &["GaussianNbValidParams"], c20, gnb::build_valid, gnb::fp_valid::<String>, Some(|a, b| a == b));
    r.model::<GaussianNbValidParams<f64, usize>>("nb_gauss_valid_params_bound", K, &["GaussianNbValidParams"], None, gnb::build_valid_bound, gnb::fp_valid::<usize>, Some(|a, b| a == b));
    r.model::<MultinomialNbValidParams<f64, String>>("nb_multi_valid_params", K, &["MultinomialNbValidParams"], c20, mnb::build_valid, mnb::fp_valid::<String>, Some(|a, b| a == b));
    r.model::<MultinomialNbValidParams<f64, usize>>("nb_multi_valid_params_bound", K, &["MultinomialNbValidParams"], None, mnb::build_valid_bound, mnb::fp_valid::<usize>, Some(|a, b| a == b));
}

// =============================================================================================
// linfa-ftrl
// =============================================================================================

/// the crate does not re-export `FtrlValidParams`
type FtrlValid<F, R> = <FtrlParams<F, R> as ParamGuard>::Checked;

/// binary targets; every fourth feature is identically zero (its `z` keeps the initial random
/// value and its `n` stays zero, so with an l1 strength inside (0, 1) some weights are exactly
/// zero); grid-valued features; duplicated rows with conflicting labels
fn ftrl_data(p: &P) -> (Array2<f64>, Array1<bool>) {
    let n = p.pick(24, 240, 1600);
    let d = p.pick(6, 9, 17);
    let mut r = p.rng(0xF701);
    let mut x = Array2::<f64>::zeros((n, d));
    let mut y = Array1::from_elem(n, false);
    for i in 0..n {
        for j in 0..d {
            x[[i, j]] = if j % 4 == 3 { 0.0 } else { (r.normal() * 4.0).round() / 4.0 };
        }
        y[i] = x[[i, 0]] - x[[i, 1]] + 0.5 * x[[i, 2]] + 0.3 * r.normal() > 0.0;
    }
    for i in (5..n).step_by(8) {
        for j in 0..d {
            x[[i, j]] = x[[i - 1, j]];
        }
        y[i] = !y[i - 1];
    }
    (x, y)
}

fn ftrl_queries(p: &P, x: &Array2<f64>) -> Array2<f64> {
    data::queries(&mut p.rng(0xF702), x, p.pick(6, 48, 200))
}

fn fp_ftrl<F: Float + Bits>(prefix: &str, m: &Ftrl<F>, q: &Array2<F>, f: &mut Fingerprint) {
    f.arr(&format!("{prefix}z"), m.z());
    f.arr(&format!("{prefix}n"), m.n());
    let w = m.get_weights();
    f.arr(&format!("{prefix}weights"), &w);
    f.one(&format!("{prefix}n_zero_weights"), w.iter().filter(|v| **v == F::zero()).count());
    f.seq(&format!("{prefix}hyper"), [m.alpha(), m.beta(), m.l1_ratio(), m.l2_ratio()]);
    let pr: Array1<Pr> = m.predict(q);
    f.arr(&format!("{prefix}predict"), &pr);
}

#[derive(Clone, Copy)]
enum FtrlRng {
    /// `Ftrl::params()`: no rng passed
    Default,
    Xoshiro,
    Small,
}

#[derive(Clone, Copy)]
struct FtrlCfg {
    rng: FtrlRng,
    /// (alpha, beta, l1, l2); `None` keeps the builder defaults
    hyper: Option<(f64, f64, f64, f64)>,
    batches: usize,
}

/// `FitWith` over `batches` consecutive slices
fn ftrl_history<F: Float + Bits, R: rand::Rng + Clone>(p: &P, prm: FtrlParams<F, R>, batches: usize, f: &mut Fingerprint) -> Option<Ftrl<F>> {
    let (x, y) = ftrl_data(p);
    let q = cast::<F>(&ftrl_queries(p, &x));
    let valid = match prm.check() {
        Ok(v) => v,
        Err(e) => {
            f.err("check", &e);
            return None;
        }
    };
    let step = x.nrows() / batches;
    let mut model: Option<Ftrl<F>> = None;
    for b in 0..batches {
        let rows = b * step..(b + 1) * step;
        let ds = DatasetBase::new(cast::<F>(&x.slice(ndarray::s![rows.clone(), ..]).to_owned()), y.slice(ndarray::s![rows]).to_owned());
        match valid.fit_with(model.take(), &ds) {
            Ok(m) => {
                if batches > 1 {
                    f.arr(&format!("b{b}_z"), m.z());
                    f.arr(&format!("b{b}_n"), m.n());
                }
                model = Some(m);
            }
            Err(e) => {
                f.err(&format!("fit_with{b}"), &e);
                return None;
            }
        }
    }
    if let Some(m) = &model {
        fp_ftrl("", m, &q, f);
    }
    model
}

fn ftrl_apply<F: Float, R: rand::Rng>(prm: FtrlParams<F, R>, h: Option<(f64, f64, f64, f64)>) -> FtrlParams<F, R> {
    match h {
        None => prm,
        Some((a, b, l1, l2)) => prm.alpha(F::cast(a)).beta(F::cast(b)).l1_ratio(F::cast(l1)).l2_ratio(F::cast(l2)),
    }
}

fn run_ftrl<F: Float + Bits>(p: &P, c: FtrlCfg) -> Fingerprint {
    let mut f = Fingerprint::new();
    match c.rng {
        FtrlRng::Default => ftrl_history(p, ftrl_apply(Ftrl::<F>::params(), c.hyper), c.batches, &mut f),
        FtrlRng::Xoshiro => ftrl_history(p, ftrl_apply(Ftrl::<F>::params_with_rng(Xoshiro256Plus::seed_from_u64(p.seed)), c.hyper), c.batches, &mut f),
        FtrlRng::Small => ftrl_history(p, ftrl_apply(Ftrl::<F>::params_with_rng(SmallRng::seed_from_u64(p.seed)), c.hyper), c.batches, &mut f),
    };
    f
}

/// the "async" path: predictions are made when a batch arrives, its labels `delay` batches
/// later; `update` is then fed the batch together with the probabilities stored back then
fn run_ftrl_async(p: &P, delay: usize) -> Fingerprint {
    let mut f = Fingerprint::new();
    let (x, y) = ftrl_data(p);
    let q = ftrl_queries(p, &x);
    let batches = p.pick(4, 8, 10);
    let step = x.nrows() / batches;
    let valid = Ftrl::<f64>::params_with_rng(Xoshiro256Plus::seed_from_u64(p.seed ^ 5)).alpha(0.05).l1_ratio(0.3).l2_ratio(0.7).check().expect("valid");
    let mut model = Ftrl::new(valid, x.ncols());
    fp_ftrl("init_", &model, &q, &mut f);
    let mut pending: VecDeque<(usize, Array1<Pr>)> = VecDeque::new();
    let batch = |b: usize| DatasetBase::new(x.slice(ndarray::s![b * step..(b + 1) * step, ..]).to_owned(), y.slice(ndarray::s![b * step..(b + 1) * step]).to_owned());
    for b in 0..batches {
        let ds = batch(b);
        let pr: Array1<Pr> = model.predict(ds.records());
        f.arr(&format!("served{b}"), &pr);
        pending.push_back((b, pr));
        if pending.len() > delay {
            let (ob, opr) = pending.pop_front().expect("pending");
            model.update(&batch(ob), opr.view());
            f.arr(&format!("z_after_labels{ob}"), model.z());
        }
    }
    while let Some((ob, opr)) = pending.pop_front() {
        model.update(&batch(ob), opr.view());
        f.arr(&format!("z_after_labels{ob}"), model.z());
    }
    fp_ftrl("", &model, &q, &mut f);
    f
}

fn run_ftrl_invalid(p: &P) -> Fingerprint {
    let mut f = Fingerprint::new();
    for (i, h) in [(0.005, 0.0, 1.5, 0.5), (0.005, 0.0, 0.5, -0.1), (f64::INFINITY, 0.0, 0.5, 0.5), (0.005, -1.0, 0.5, 0.5), (0.0, 0.0, 0.0, 0.0), (0.005, 1.0, 1.0, 1.0)]
        .into_iter()
        .enumerate()
    {
        let mut g = Fingerprint::new();
        ftrl_history(p, ftrl_apply(Ftrl::<f64>::params(), Some(h)), 1, &mut g);
        f.extend(&format!("case{i}_"), g);
    }
    f
}

type FtrlP = FtrlParams<f64, Xoshiro256Plus>;
type FtrlV = FtrlValid<f64, Xoshiro256Plus>;

fn build_ftrl_model(p: &P) -> Ftrl<f64> {
    let mut f = Fingerprint::new();
    let prm = Ftrl::<f64>::params_with_rng(Xoshiro256Plus::seed_from_u64(p.seed)).alpha(0.1).beta(1.0).l1_ratio(0.6).l2_ratio(0.3);
    ftrl_history(p, prm, 3, &mut f).expect("ftrl fit")
}
fn build_ftrl_model_f32(p: &P) -> Ftrl<f32> {
    let mut f = Fingerprint::new();
    ftrl_history(p, Ftrl::<f32>::params(), 2, &mut f).expect("ftrl fit")
}
fn fp_ftrl_model<F: Float + Bits>(m: &Ftrl<F>, p: &P, f: &mut Fingerprint) {
    let (x, y) = ftrl_data(p);
    let q = cast::<F>(&ftrl_queries(p, &x));
    fp_ftrl("", m, &q, f);
    // a restored model must also continue identically: one more `update` on a clone
    let mut c = m.clone();
    let n = x.nrows().min(16);
    let ds = DatasetBase::new(cast::<F>(&x.slice(ndarray::s![..n, ..]).to_owned()), y.slice(ndarray::s![..n]).to_owned());
    let pr: Array1<Pr> = c.predict(ds.records());
    c.update(&ds, pr.view());
    fp_ftrl("next_", &c, &q, f);
}

fn build_ftrl_params(p: &P) -> FtrlP {
    let mut rng = Xoshiro256Plus::seed_from_u64(p.seed ^ 0x99);
    // a non-initial generator state has to round-trip
    for _ in 0..(p.seed % 13) {
        rng.next_u64();
    }
    Ftrl::<f64>::params_with_rng(rng).alpha(0.05).beta(0.5).l1_ratio(0.4).l2_ratio(0.2)
}
fn build_ftrl_params_default(_p: &P) -> FtrlP {
    Ftrl::<f64>::params()
}
fn build_ftrl_params_invalid(_p: &P) -> FtrlP {
    // documented range [0, 1]
    Ftrl::<f64>::params_with_rng(Xoshiro256Plus::seed_from_u64(3)).l1_ratio(1.0 + f64::EPSILON)
}
fn build_ftrl_valid(p: &P) -> FtrlV {
    build_ftrl_params(p).check().expect("valid")
}
fn fp_ftrl_valid(v: &FtrlV, p: &P, f: &mut Fingerprint) {
    f.seq("hyper", [v.alpha(), v.beta(), v.l1_ratio(), v.l2_ratio()]);
    let mut r = v.rng().clone();
    f.seq("rng_stream", (0..4).map(|_| r.next_u64()).collect::<Vec<u64>>());
    // refit: the initial z is drawn from the stored generator
    let (x, y) = ftrl_data(p);
    let q = ftrl_queries(p, &x);
    let m0 = Ftrl::new(v.clone(), x.ncols());
    f.arr("fresh_z", m0.z());
    match v.fit_with(None, &DatasetBase::new(x, y)) {
        Ok(m) => fp_ftrl("refit_", &m, &q, f),
        Err(e) => f.err("refit", &e),
    }
}
fn fp_ftrl_params(v: &FtrlP, p: &P, f: &mut Fingerprint) {
    match v.check_ref() {
        Ok(valid) => {
            f.one("check_ok", true);
            fp_ftrl_valid(valid, p, f);
        }
        Err(e) => f.err("check", &e),
    }
}

fn build_ftrl_errors(_p: &P) -> Vec<FtrlError> {
    vec![
        FtrlError::InvalidL1Ratio(1.5),
        FtrlError::InvalidL2Ratio(-0.25),
        FtrlError::InvalidAlpha(f32::MAX),
        FtrlError::InvalidBeta(-1.0),
        FtrlError::InvalidNFeatures(0),
        FtrlError::LinfaError(linfa::Error::Parameters("caf\u{e9} \"quoted\"\n".to_string())),
        FtrlError::LinfaError(linfa::Error::NotConverged("x".to_string())),
    ]
}
/// `linfa::Error` marks its fourth variant `NdShape` `#[serde(skip)]`; the variants declared after
/// it (`NotEnoughSamples`, `MismatchedShapes`) are written with their declaration index but read
/// against the list without the skipped variant, so an index-based format (bincode) restores a
/// different variant or fails.  One value per entry so that each outcome is visible.
fn build_ftrl_error_not_enough(_p: &P) -> Vec<FtrlError> {
    vec![FtrlError::LinfaError(linfa::Error::NotEnoughSamples)]
}
fn build_ftrl_error_mismatched(_p: &P) -> Vec<FtrlError> {
    vec![FtrlError::LinfaError(linfa::Error::MismatchedShapes(3, 4))]
}
fn fp_ftrl_errors(v: &Vec<FtrlError>, _p: &P, f: &mut Fingerprint) {
    for (i, e) in v.iter().enumerate() {
        f.text(&format!("display{i}"), &e.to_string());
        f.text(&format!("debug{i}"), &format!("{e:?}"));
    }
}

fn register_ftrl(r: &mut Registry) {
    const K: &str = "linfa-ftrl";
    use FtrlRng::*;
    r.scenario("ftrl_default_fit", K, Kind::Claim, false, |p| run_ftrl::<f64>(p, FtrlCfg { rng: Default, hyper: None, batches: 1 }));
    r.scenario("ftrl_default_batches", K, Kind::Claim, false, |p| run_ftrl::<f64>(p, FtrlCfg { rng: Default, hyper: None, batches: 4 }));
    r.scenario("ftrl_default_f32", K, Kind::Claim, false, |p| run_ftrl::<f32>(p, FtrlCfg { rng: Default, hyper: Some((0.05, 0.5, 0.5, 0.5)), batches: 3 }));
    r.scenario("ftrl_xoshiro_batches", K, Kind::Claim, false, |p| run_ftrl::<f64>(p, FtrlCfg { rng: Xoshiro, hyper: Some((0.1, 1.0, 0.9, 0.3)), batches: 4 }));
    r.scenario("ftrl_xoshiro_l1_zero", K, Kind::Claim, false, |p| run_ftrl::<f64>(p, FtrlCfg { rng: Xoshiro, hyper: Some((0.02, 0.1, 0.0, 1.0)), batches: 2 }));
    r.scenario("ftrl_smallrng_batches", K, Kind::Claim, false, |p| run_ftrl::<f64>(p, FtrlCfg { rng: Small, hyper: Some((0.05, 0.0, 0.5, 0.25)), batches: 3 }));
    r.scenario("ftrl_smallrng_f32", K, Kind::Claim, false, |p| run_ftrl::<f32>(p, FtrlCfg { rng: Small, hyper: None, batches: 2 }));
    r.scenario("ftrl_async_delay1", K, Kind::Claim, false, |p| run_ftrl_async(p, 1));
    r.scenario("ftrl_async_delay3", K, Kind::Claim, false, |p| run_ftrl_async(p, 3));
    r.scenario("ftrl_param_bounds", K, Kind::Claim, false, run_ftrl_invalid);

    let c20 = Some((Kind::Claim, false));
    r.model::<Ftrl<f64>>("ftrl_model", K, &["Ftrl"], c20, build_ftrl_model, fp_ftrl_model::<f64>, None);
    r.model::<Ftrl<f32>>("ftrl_model_f32", K, &["Ftrl"], c20, build_ftrl_model_f32, fp_ftrl_model::<f32>, None);
    r.model::<FtrlP>("ftrl_params", K, &["FtrlParams", "FtrlValidParams"], c20, build_ftrl_params, fp_ftrl_params, Some(|a, b| a == b));
    r.model::<FtrlP>("ftrl_params_default", K, &["FtrlParams", "FtrlValidParams"], c20, build_ftrl_params_default, fp_ftrl_params, Some(|a, b| a == b));
    r.model::<FtrlP>("ftrl_params_invalid", K, &["FtrlParams"], None, build_ftrl_params_invalid, fp_ftrl_params, Some(|a, b| a == b));
    r.model::<FtrlV>("ftrl_valid_params", K, &["FtrlValidParams"], None, build_ftrl_valid, fp_ftrl_valid, Some(|a, b| a == b));
    r.model::<Vec<FtrlError>>("ftrl_error", K, &["FtrlError", "Error"], None, build_ftrl_errors, fp_ftrl_errors, None);
    r.model::<Vec<FtrlError>>("ftrl_error_linfa_not_enough_samples", K, &["FtrlError", "Error"], None, build_ftrl_error_not_enough, fp_ftrl_errors, None);
    r.model::<Vec<FtrlError>>("ftrl_error_linfa_mismatched_shapes", K, &["FtrlError", "Error"], None, build_ftrl_error_mismatched, fp_ftrl_errors, None);
}

pub fn register(r: &mut Registry) {
    register_svm(r);
    register_trees(r);
    register_bayes(r);
    register_ftrl(r);
}
