//! Extreme hyper-parameter values through the persistence check (C19 only; names `ext_*`).
//!
//! Every numeric hyper-parameter field of every serde-deriving parameter type is set, one field
//! at a time (the other fields at ordinary values), to
//!   floats:   NaN, NaN with sign and payload, +inf, -inf, -0.0, 0.0, a subnormal, MIN_POSITIVE,
//!             MAX, -MAX, EPSILON/3, -1.5, 0.1+0.2, 1/3, 49 and 30 (1/(1/x) != x), 2^24+1 and
//!             2*f32::MAX (not representable in f32), 1+EPSILON, 1-EPSILON/2, 1e-300
//!   integers: 0, 1, 2, u32::MAX, u32::MAX+1, i64::MAX+1, MAX (u64::MAX for seeds)
//!   enums / Option fields: every variant, None and Some(boundary).
//! A slip such as "store the tolerance as Option<F>, None for non-finite, None read back as +inf",
//! a clamp on restore, an f32 or u32 detour, a stored reciprocal or logarithm, a lost sign of
//! zero or a flushed subnormal is exact for ordinary values and only shows on these.
//!
//! One entry is a `Vec<T>` of parameter sets of one type; the fingerprint loops over the elements
//! and prefixes every field with `<index>:<field>=<value name>/`.  Per type there are up to three
//! entries: `_floats` (finite values: JSON must be exact as well), `_nonfinite` (NaN / ±inf: JSON
//! cannot represent them and is exempt, so they are kept apart) and `_ints` (integers, seeds,
//! enum variants, Option fields, flags).  Where only the checked `*ValidParams` type derives serde
//! (naive Bayes, DBSCAN, elastic net, FastICA, Tweedie) the values that pass `check()` are used;
//! where both derive it the unchecked type gets all values and the checked type those that pass.
//!
//! What is observed per element: Debug text, `==` (whole Vec; skipped by the harness when a NaN
//! makes the original unequal to itself), the `check_ref()` verdict (error text), every getter
//! as raw bits, draws from the stored generator, and a small refit — the refit ONLY when the
//! value actually held (as read through the getters of the value under observation, not as
//! intended by the builder) is finite and small enough for the fit to terminate quickly; an
//! accepted-but-dangerous set (max_iterations = usize::MAX, tolerance = NaN …) is never fitted.
//!
//! NOT COVERED, because the type does not derive serde at all (nothing to persist):
//!   linfa::composing::PlattParams / PlattValidParams, SvmParams / SvmValidParams,
//!   linfa_kernel::KernelParams, TSneParams, linfa-hierarchical (HierarchicalCluster, Criterion),
//!   DiffusionMapParams, Gaussian/SparseRandomProjectionParams, PlsRegression/Canonical/Cca params
//!   (tolerance, max_iter, algorithm), and the unchecked GaussianNbParams, MultinomialNbParams,
//!   DbscanParams, ElasticNetParams, FastIcaParams, TweedieRegressorParams (their checked
//!   counterparts are covered with every value `check()` lets through).
//!   The numeric payloads of the serde-deriving error enums (ElasticNetError, FtrlError,
//!   PlattError, linfa::Error::MismatchedShapes), which carry rejected hyper-parameter values,
//!   ARE covered, and so are the hyper-parameters that fitted models keep (the four rates inside
//!   `Ftrl`, the range inside `LinearScaler`, the kernel method inside `Svm`).
//!   The vectorisers' `stopwords` stay `None` (a HashSet: its Debug text has no fixed order; the
//!   existing `cv_*` entries cover it through the sorted getter).
//!
//! Refits never use the solvers whose line search is not bounded by the iteration limit
//! (Tweedie in f32, Tweedie with a log link, logistic regression in f32): observed not to return
//! for some data seeds.

use crate::data;
use crate::fp::{Bits, Fingerprint};
use crate::scen::{Registry, P};
use linfa::prelude::*;
use linfa::{Dataset, DatasetBase};
use linfa_clustering::{Dbscan, DbscanValidParams, GaussianMixtureModel, GmmInitMethod, GmmParams, GmmValidParams, KMeans, KMeansInit, KMeansParams, KMeansValidParams, Optics, OpticsParams, OpticsValidParams};
use linfa::composing::PlattError;
use linfa_bayes::{GaussianNb, GaussianNbValidParams, MultinomialNb, MultinomialNbValidParams};
use linfa_elasticnet::{ElasticNetError, ElasticNetParamsBase, ElasticNetValidParamsBase};
use linfa_ftrl::{Ftrl, FtrlError, FtrlParams};
use linfa_ica::fast_ica::{FastIca, GFunc};
use linfa_ica::hyperparams::FastIcaValidParams;
use linfa_kernel::KernelMethod;
use linfa_linear::{Link, TweedieRegressor, TweedieRegressorValidParams};
use linfa_logistic::{LogisticRegression, MultiLogisticRegression, ValidLogisticRegression, ValidMultiLogisticRegression};
use linfa_pls::PlsSvdParams;
use linfa_preprocessing::linear_scaling::{LinearScaler, LinearScalerParams, ScalingMethod};
use linfa_preprocessing::norm_scaling::NormScaler;
use linfa_preprocessing::tf_idf_vectorization::{TfIdfMethod, TfIdfVectorizer};
use linfa_preprocessing::whitening::{Whitener, WhiteningMethod};
use linfa_preprocessing::{CountVectorizer, CountVectorizerParams, CountVectorizerValidParams};
use linfa_reduction::{Pca, PcaParams};
use linfa_svm::Svm;
use linfa_trees::{DecisionTree, DecisionTreeParams, DecisionTreeValidParams, SplitQuality};
use linfa_nn::distance::{Distance, L2Dist, LpDist};
use linfa_nn::CommonNearestNeighbour;
use ndarray::{array, Array1, Array2, Ix1, Ix2};
use rand::RngCore;
use rand_xoshiro::rand_core::SeedableRng;
use rand_xoshiro::Xoshiro256Plus;
use serde::de::DeserializeOwned;
use serde::Serialize;
use std::marker::PhantomData;
use std::panic::{catch_unwind, AssertUnwindSafe};

// ---------------------------------------------------------------------------------------------
// the values
// ---------------------------------------------------------------------------------------------

pub trait Fx: linfa::Float + Bits + Serialize + DeserializeOwned + Send + Sync + 'static {
    fn finite() -> Vec<(&'static str, Self)>;
    fn nonfinite() -> Vec<(&'static str, Self)>;
}
impl Fx for f64 {
    fn finite() -> Vec<(&'static str, f64)> {
        vec![
            ("-0", -0.0),
            ("0", 0.0),
            ("subnormal", f64::MIN_POSITIVE / 4.0),
            ("min_positive", f64::MIN_POSITIVE),
            ("max", f64::MAX),
            ("-max", -f64::MAX),
            ("eps/3", f64::EPSILON / 3.0),
            ("-1.5", -1.5),
            ("0.1+0.2", 0.1 + 0.2),
            ("1/3", 1.0 / 3.0),
            ("49", 49.0),
            ("30", 30.0),
            ("2^24+1", 16777217.0),
            ("2*f32max", f32::MAX as f64 * 2.0),
            ("1+eps", 1.0 + f64::EPSILON),
            ("1-eps/2", 1.0 - f64::EPSILON / 2.0),
            ("1e-300", 1e-300),
        ]
    }
    fn nonfinite() -> Vec<(&'static str, f64)> {
        vec![("nan", f64::NAN), ("+inf", f64::INFINITY), ("-inf", f64::NEG_INFINITY), ("-nan_payload", f64::from_bits(0xFFF8_0000_0000_0BAD))]
    }
}
impl Fx for f32 {
    fn finite() -> Vec<(&'static str, f32)> {
        vec![
            ("-0", -0.0),
            ("0", 0.0),
            ("subnormal", f32::MIN_POSITIVE / 4.0),
            ("min_positive", f32::MIN_POSITIVE),
            ("max", f32::MAX),
            ("-max", -f32::MAX),
            ("eps/3", f32::EPSILON / 3.0),
            ("-1.5", -1.5),
            ("0.1+0.2", 0.1f32 + 0.2f32),
            ("1/3", 1.0f32 / 3.0),
            ("49", 49.0),
            ("30", 30.0),
            ("1+eps", 1.0 + f32::EPSILON),
            ("1-eps/2", 1.0 - f32::EPSILON / 2.0),
        ]
    }
    fn nonfinite() -> Vec<(&'static str, f32)> {
        vec![("nan", f32::NAN), ("+inf", f32::INFINITY), ("-inf", f32::NEG_INFINITY), ("-nan_payload", f32::from_bits(0xFFC0_0BAD))]
    }
}

/// value kinds of one entry
const FIN: u8 = 0;
const NONFIN: u8 = 1;
const INTS: u8 = 2;

fn fvals<F: Fx>(k: u8) -> Vec<(&'static str, F)> {
    match k {
        FIN => F::finite(),
        NONFIN => F::nonfinite(),
        _ => Vec::new(),
    }
}

fn usizes() -> Vec<(&'static str, usize)> {
    vec![("0", 0), ("1", 1), ("2", 2), ("u32max", u32::MAX as usize), ("u32max+1", u32::MAX as usize + 1), ("i64max+1", i64::MAX as usize + 1), ("max", usize::MAX)]
}
fn u64s() -> Vec<(&'static str, u64)> {
    vec![("0", 0), ("1", 1), ("2", 2), ("u32max", u32::MAX as u64), ("u32max+1", u32::MAX as u64 + 1), ("i64max+1", i64::MAX as u64 + 1), ("max", u64::MAX)]
}
fn u32s() -> Vec<(&'static str, u32)> {
    vec![("0", 0), ("1", 1), ("2", 2), ("u16max+1", 65536), ("i32max+1", i32::MAX as u32 + 1), ("max", u32::MAX)]
}
fn ints_if<T>(k: u8, v: Vec<(&'static str, T)>) -> Vec<(&'static str, T)> {
    if k == INTS {
        v
    } else {
        Vec::new()
    }
}

// ---------------------------------------------------------------------------------------------
// the machinery: a family of labelled values of one type becomes one `Vec<T>` entry
// ---------------------------------------------------------------------------------------------

trait Family: 'static {
    type T: Serialize + DeserializeOwned + Send + 'static;
    /// labelled values; a pure function of `p`
    fn cases(p: &P) -> Vec<(String, Self::T)>;
    /// everything observable about one value
    fn observe(v: &Self::T, p: &P, f: &mut Fingerprint);
}

fn build<M: Family>(p: &P) -> Vec<M::T> {
    M::cases(p).into_iter().map(|c| c.1).collect()
}
fn fp<M: Family>(v: &Vec<M::T>, p: &P, f: &mut Fingerprint) {
    let labels: Vec<String> = M::cases(p).into_iter().map(|c| c.0).collect();
    f.one("len", v.len());
    for (i, x) in v.iter().enumerate() {
        let mut g = Fingerprint::new();
        M::observe(x, p, &mut g);
        f.extend(&format!("{i}:{}/", labels.get(i).map(|s| s.as_str()).unwrap_or("?")), g);
    }
}
fn reg<M: Family>(r: &mut Registry, name: &str, krate: &'static str, types: &[&'static str])
where
    M::T: PartialEq,
{
    r.model::<Vec<M::T>>(name, krate, types, None, build::<M>, fp::<M>, Some(|a, b| a == b));
}
fn reg_noeq<M: Family>(r: &mut Registry, name: &str, krate: &'static str, types: &[&'static str]) {
    r.model::<Vec<M::T>>(name, krate, types, None, build::<M>, fp::<M>, None);
}

/// a refit (or any other use of library code on the value): a panic is an outcome, recorded
fn guarded(f: &mut Fingerprint, name: &str, body: impl FnOnce(&mut Fingerprint)) {
    let mut g = Fingerprint::new();
    match catch_unwind(AssertUnwindSafe(|| body(&mut g))) {
        Ok(()) => f.extend("", g),
        Err(_) => f.text(name, "PANIC"),
    }
}
/// `check()` on an unchecked parameter set while BUILDING (never allowed to panic)
fn checked<T, E>(body: impl FnOnce() -> Result<T, E>) -> Option<T> {
    catch_unwind(AssertUnwindSafe(body)).ok().and_then(|r| r.ok())
}
fn lbl(field: &str, name: &str) -> String {
    format!("{field}={name}")
}
/// ordinary: finite and of a magnitude every solver copes with
fn ordinary<F: Fx>(v: F, lo: f64, hi: f64) -> bool {
    v.is_finite() && v >= F::cast(lo) && v <= F::cast(hi)
}
fn rng_draws(r: &Xoshiro256Plus, f: &mut Fingerprint) {
    let mut r = r.clone();
    f.seq("rng_draws", (0..4).map(|_| r.next_u64()).collect::<Vec<u64>>());
}
fn rng_seeds() -> Vec<(&'static str, u64)> {
    vec![("0", 0), ("1", 1), ("u32max+1", u32::MAX as u64 + 1), ("max", u64::MAX)]
}

fn blobs<F: Fx>(p: &P, n: usize) -> Array2<F> {
    data::blobs(&mut p.rng(0xE7), n, 2, 3, 0.7).0.mapv(F::cast)
}

// ---------------------------------------------------------------------------------------------
// linfa-clustering: k-means
// ---------------------------------------------------------------------------------------------

type KmP<F> = KMeansParams<F, Xoshiro256Plus, L2Dist>;
type KmV<F> = KMeansValidParams<F, Xoshiro256Plus, L2Dist>;

fn km_base<F: Fx>(p: &P) -> KmP<F> {
    KMeans::params_with(3, Xoshiro256Plus::seed_from_u64(p.seed ^ 7), L2Dist).n_runs(2).tolerance(F::cast(1e-3)).max_n_iterations(20).init_method(KMeansInit::Random)
}
fn km_cases<F: Fx>(k: u8, p: &P) -> Vec<(String, KmP<F>)> {
    let mut c = Vec::new();
    for (n, v) in fvals::<F>(k) {
        c.push((lbl("tolerance", n), km_base::<F>(p).tolerance(v)));
        let mut cent = Array2::from_shape_fn((3, 2), |(i, j)| F::cast(i as f64 - 0.5 * j as f64));
        cent[(1, 1)] = v;
        c.push((lbl("init_precomputed[1,1]", n), km_base::<F>(p).init_method(KMeansInit::Precomputed(cent))));
    }
    for (n, v) in ints_if(k, usizes()) {
        c.push((lbl("n_runs", n), km_base::<F>(p).n_runs(v)));
        c.push((lbl("n_clusters", n), KMeans::params_with(v, Xoshiro256Plus::seed_from_u64(p.seed ^ 7), L2Dist).n_runs(2).max_n_iterations(20)));
    }
    for (n, v) in ints_if(k, u64s()) {
        c.push((lbl("max_n_iterations", n), km_base::<F>(p).max_n_iterations(v)));
    }
    for (n, v) in ints_if(k, rng_seeds()) {
        c.push((lbl("rng_seed", n), KMeans::params_with(3, Xoshiro256Plus::seed_from_u64(v), L2Dist).n_runs(2).max_n_iterations(20)));
    }
    if k == INTS {
        c.push((lbl("init", "random"), km_base::<F>(p).init_method(KMeansInit::Random)));
        c.push((lbl("init", "kmeans++"), km_base::<F>(p).init_method(KMeansInit::KMeansPlusPlus)));
        c.push((lbl("init", "kmeans_para"), km_base::<F>(p).init_method(KMeansInit::KMeansPara)));
        c.push((lbl("init", "precomputed_0x0"), km_base::<F>(p).init_method(KMeansInit::Precomputed(Array2::zeros((0, 0))))));
        c.push((lbl("init", "precomputed_3x2"), km_base::<F>(p).init_method(KMeansInit::Precomputed(Array2::from_shape_fn((3, 2), |(i, j)| F::cast(2.0 * i as f64 + j as f64))))));
    }
    c
}
fn km_obs_valid<F: Fx>(v: &KmV<F>, p: &P, f: &mut Fingerprint) {
    f.one("n_runs", v.n_runs());
    f.one("tolerance", v.tolerance());
    f.one("max_n_iterations", v.max_n_iterations());
    f.one("n_clusters", v.n_clusters());
    f.text("init_method", &format!("{:?}", v.init_method()));
    let precomputed_ok = match v.init_method() {
        KMeansInit::Precomputed(c) => {
            f.arr("init_centroids", c);
            c.nrows() == v.n_clusters() && c.ncols() == 2 && c.iter().all(|x| ordinary(*x, -1e3, 1e3))
        }
        KMeansInit::Random | KMeansInit::KMeansPlusPlus => true,
        _ => false,
    };
    rng_draws(v.rng(), f);
    f.text("dist_fn", &format!("{:?}", v.dist_fn()));
    if precomputed_ok && ordinary(v.tolerance(), 1e-5, 1e3) && (1..=50).contains(&v.max_n_iterations()) && (1..=3).contains(&v.n_runs()) && (1..=4).contains(&v.n_clusters()) {
        guarded(f, "refit", |f| match v.fit(&DatasetBase::from(blobs::<F>(p, 24))) {
            Ok(m) => {
                f.arr("refit_centroids", m.centroids());
                f.one("refit_inertia", m.inertia());
            }
            Err(e) => f.err("refit", &e),
        });
    }
}
fn km_obs<F: Fx>(v: &KmP<F>, p: &P, f: &mut Fingerprint) {
    f.text("debug", &format!("{v:?}"));
    match v.check_ref() {
        Ok(valid) => {
            f.one("check_ok", true);
            km_obs_valid(valid, p, f);
        }
        Err(e) => f.err("check", &e),
    }
}
struct KmFam<F, const K: u8>(PhantomData<F>);
impl<F: Fx, const K: u8> Family for KmFam<F, K> {
    type T = KmP<F>;
    fn cases(p: &P) -> Vec<(String, KmP<F>)> {
        km_cases::<F>(K, p)
    }
    fn observe(v: &KmP<F>, p: &P, f: &mut Fingerprint) {
        km_obs(v, p, f)
    }
}
struct KmValidFam<F, const K: u8>(PhantomData<F>);
impl<F: Fx, const K: u8> Family for KmValidFam<F, K> {
    type T = KmV<F>;
    fn cases(p: &P) -> Vec<(String, KmV<F>)> {
        km_cases::<F>(K, p).into_iter().filter_map(|(l, v)| checked(|| v.check()).map(|v| (l, v))).collect()
    }
    fn observe(v: &KmV<F>, p: &P, f: &mut Fingerprint) {
        f.text("debug", &format!("{v:?}"));
        km_obs_valid(v, p, f)
    }
}

// ---------------------------------------------------------------------------------------------
// linfa-clustering: Gaussian mixture
// ---------------------------------------------------------------------------------------------

type GmP<F> = GmmParams<F, Xoshiro256Plus>;
type GmV<F> = GmmValidParams<F, Xoshiro256Plus>;

fn gm_base<F: Fx>(p: &P) -> GmP<F> {
    GaussianMixtureModel::params_with_rng(2, Xoshiro256Plus::seed_from_u64(p.seed ^ 11)).tolerance(F::cast(1e-2)).reg_covariance(F::cast(1e-4)).n_runs(1).max_n_iterations(15).init_method(GmmInitMethod::Random)
}
fn gm_cases<F: Fx>(k: u8, p: &P) -> Vec<(String, GmP<F>)> {
    let mut c = Vec::new();
    for (n, v) in fvals::<F>(k) {
        c.push((lbl("tolerance", n), gm_base::<F>(p).tolerance(v)));
        c.push((lbl("reg_covar", n), gm_base::<F>(p).reg_covariance(v)));
    }
    for (n, v) in ints_if(k, usizes()) {
        c.push((lbl("n_clusters", n), GaussianMixtureModel::params_with_rng(v, Xoshiro256Plus::seed_from_u64(p.seed ^ 11)).init_method(GmmInitMethod::Random)));
    }
    for (n, v) in ints_if(k, u64s()) {
        c.push((lbl("n_runs", n), gm_base::<F>(p).n_runs(v)));
        c.push((lbl("max_n_iter", n), gm_base::<F>(p).max_n_iterations(v)));
    }
    for (n, v) in ints_if(k, rng_seeds()) {
        c.push((lbl("rng_seed", n), GaussianMixtureModel::params_with_rng(2, Xoshiro256Plus::seed_from_u64(v)).init_method(GmmInitMethod::Random)));
    }
    if k == INTS {
        c.push((lbl("init_method", "kmeans"), gm_base::<F>(p).init_method(GmmInitMethod::KMeans)));
        c.push((lbl("init_method", "random"), gm_base::<F>(p).init_method(GmmInitMethod::Random)));
        c.push((lbl("covar_type", "full"), gm_base::<F>(p).covariance_type(linfa_clustering::GmmCovarType::Full)));
    }
    c
}
fn gm_obs_valid<F: Fx>(v: &GmV<F>, p: &P, f: &mut Fingerprint) {
    f.one("n_clusters", v.n_clusters());
    f.text("covariance_type", &format!("{:?}", v.covariance_type()));
    f.one("tolerance", v.tolerance());
    f.one("reg_covariance", v.reg_covariance());
    f.one("n_runs", v.n_runs());
    f.one("max_n_iterations", v.max_n_iterations());
    f.text("init_method", &format!("{:?}", v.init_method()));
    rng_draws(&v.rng(), f);
    if ordinary(v.tolerance(), 1e-4, 1e3) && ordinary(v.reg_covariance(), 1e-8, 1.0) && (1..=2).contains(&v.n_runs()) && (1..=30).contains(&v.max_n_iterations()) && (1..=3).contains(&v.n_clusters()) && *v.init_method() == GmmInitMethod::Random {
        guarded(f, "refit", |f| match v.fit(&DatasetBase::from(blobs::<F>(p, 30))) {
            Ok(m) => {
                f.arr("refit_means", m.means());
                f.arr("refit_weights", m.weights());
            }
            Err(e) => f.err("refit", &e),
        });
    }
}
struct GmFam<F, const K: u8>(PhantomData<F>);
impl<F: Fx, const K: u8> Family for GmFam<F, K> {
    type T = GmP<F>;
    fn cases(p: &P) -> Vec<(String, GmP<F>)> {
        gm_cases::<F>(K, p)
    }
    fn observe(v: &GmP<F>, p: &P, f: &mut Fingerprint) {
        f.text("debug", &format!("{v:?}"));
        match v.check_ref() {
            Ok(valid) => {
                f.one("check_ok", true);
                gm_obs_valid(valid, p, f);
            }
            Err(e) => f.err("check", &e),
        }
    }
}
struct GmValidFam<F, const K: u8>(PhantomData<F>);
impl<F: Fx, const K: u8> Family for GmValidFam<F, K> {
    type T = GmV<F>;
    fn cases(p: &P) -> Vec<(String, GmV<F>)> {
        gm_cases::<F>(K, p).into_iter().filter_map(|(l, v)| checked(|| v.check()).map(|v| (l, v))).collect()
    }
    fn observe(v: &GmV<F>, p: &P, f: &mut Fingerprint) {
        f.text("debug", &format!("{v:?}"));
        gm_obs_valid(v, p, f)
    }
}

// ---------------------------------------------------------------------------------------------
// linfa-clustering: DBSCAN (only the checked type derives serde) and OPTICS
// ---------------------------------------------------------------------------------------------

type DbV<F> = DbscanValidParams<F, L2Dist, CommonNearestNeighbour>;

fn nn_algos() -> Vec<(&'static str, CommonNearestNeighbour)> {
    vec![("linear", CommonNearestNeighbour::LinearSearch), ("kdtree", CommonNearestNeighbour::KdTree), ("balltree", CommonNearestNeighbour::BallTree)]
}
fn db_cases<F: Fx>(k: u8, _p: &P) -> Vec<(String, DbV<F>)> {
    let mut c = Vec::new();
    for (n, v) in fvals::<F>(k) {
        c.push((lbl("tolerance", n), checked(|| Dbscan::params_with::<F, _, _>(3, L2Dist, CommonNearestNeighbour::KdTree).tolerance(v).check())));
    }
    for (n, v) in ints_if(k, usizes()) {
        c.push((lbl("min_points", n), checked(|| Dbscan::params_with::<F, _, _>(v, L2Dist, CommonNearestNeighbour::KdTree).tolerance(F::cast(1.25)).check())));
    }
    for (n, v) in ints_if(k, nn_algos()) {
        c.push((lbl("nn_algo", n), checked(|| Dbscan::params_with::<F, _, _>(3, L2Dist, v).tolerance(F::cast(1.25)).check())));
    }
    c.into_iter().filter_map(|(l, v)| v.map(|v| (l, v))).collect()
}
struct DbFam<F, const K: u8>(PhantomData<F>);
impl<F: Fx, const K: u8> Family for DbFam<F, K> {
    type T = DbV<F>;
    fn cases(p: &P) -> Vec<(String, DbV<F>)> {
        db_cases::<F>(K, p)
    }
    fn observe(v: &DbV<F>, p: &P, f: &mut Fingerprint) {
        f.text("debug", &format!("{v:?}"));
        f.one("tolerance", v.tolerance());
        f.one("min_points", v.minimum_points());
        f.text("dist_fn", &format!("{:?}", v.dist_fn()));
        f.text("nn_algo", &format!("{:?}", v.nn_algo()));
        if ordinary(v.tolerance(), 1e-3, 1e3) && (2..=10).contains(&v.minimum_points()) {
            guarded(f, "refit", |f| f.arr("refit_labels", &v.transform(&blobs::<F>(p, 24)).mapv(|l| l.map(|c| c as u64))));
        }
    }
}

type OpP<F, D> = OpticsParams<F, D, CommonNearestNeighbour>;
type OpV<F, D> = OpticsValidParams<F, D, CommonNearestNeighbour>;

fn op_cases<F: Fx>(k: u8, _p: &P) -> Vec<(String, OpP<F, L2Dist>)> {
    let mut c = Vec::new();
    for (n, v) in fvals::<F>(k) {
        c.push((lbl("tolerance", n), Optics::params_with::<F, _, _>(3, L2Dist, CommonNearestNeighbour::KdTree).tolerance(v)));
    }
    for (n, v) in ints_if(k, usizes()) {
        c.push((lbl("min_points", n), Optics::params_with::<F, _, _>(v, L2Dist, CommonNearestNeighbour::KdTree).tolerance(F::cast(1.25))));
    }
    for (n, v) in ints_if(k, nn_algos()) {
        c.push((lbl("nn_algo", n), Optics::params_with::<F, _, _>(3, L2Dist, v).tolerance(F::cast(1.25))));
    }
    if k == NONFIN {
        // the default tolerance is +inf
        c.push((lbl("tolerance", "default"), Optics::params_with::<F, _, _>(4, L2Dist, CommonNearestNeighbour::BallTree)));
    }
    c
}
/// the exponent of the Minkowski distance inside a parameter set
fn op_lp_cases<F: Fx>(k: u8, _p: &P) -> Vec<(String, OpP<F, LpDist<F>>)> {
    fvals::<F>(k).into_iter().map(|(n, v)| (lbl("dist_fn.p", n), Optics::params_with::<F, _, _>(3, LpDist(v), CommonNearestNeighbour::LinearSearch).tolerance(F::cast(1.25)))).collect()
}
fn op_obs_valid<F: Fx, D: Distance<F> + std::fmt::Debug>(v: &OpV<F, D>, refit: bool, p: &P, f: &mut Fingerprint) {
    f.one("tolerance", v.tolerance());
    f.one("min_points", v.minimum_points());
    f.text("dist_fn", &format!("{:?}", v.dist_fn()));
    f.text("nn_algo", &format!("{:?}", v.nn_algo()));
    if refit && ordinary(v.tolerance(), 1e-3, 1e3) && (2..=10).contains(&v.minimum_points()) {
        guarded(f, "refit", |f| {
            let x = blobs::<F>(p, 24);
            let a = v.transform(x.view());
            f.seq("refit_order", a.iter().map(|s| s.index()).collect::<Vec<usize>>());
            f.seq("refit_reach", a.iter().map(|s| *s.reachability_distance()).collect::<Vec<Option<F>>>());
        });
    }
}
fn op_obs<F: Fx, D: Distance<F> + std::fmt::Debug>(v: &OpP<F, D>, refit: bool, p: &P, f: &mut Fingerprint) {
    f.text("debug", &format!("{v:?}"));
    match v.check_ref() {
        Ok(valid) => {
            f.one("check_ok", true);
            op_obs_valid(valid, refit, p, f);
        }
        Err(e) => f.err("check", &e),
    }
}
struct OpFam<F, const K: u8>(PhantomData<F>);
impl<F: Fx, const K: u8> Family for OpFam<F, K> {
    type T = OpP<F, L2Dist>;
    fn cases(p: &P) -> Vec<(String, Self::T)> {
        op_cases::<F>(K, p)
    }
    fn observe(v: &Self::T, p: &P, f: &mut Fingerprint) {
        op_obs(v, true, p, f)
    }
}
struct OpValidFam<F, const K: u8>(PhantomData<F>);
impl<F: Fx, const K: u8> Family for OpValidFam<F, K> {
    type T = OpV<F, L2Dist>;
    fn cases(p: &P) -> Vec<(String, Self::T)> {
        op_cases::<F>(K, p).into_iter().filter_map(|(l, v)| checked(|| v.check()).map(|v| (l, v))).collect()
    }
    fn observe(v: &Self::T, p: &P, f: &mut Fingerprint) {
        f.text("debug", &format!("{v:?}"));
        op_obs_valid(v, true, p, f)
    }
}
struct OpLpFam<F, const K: u8>(PhantomData<F>);
impl<F: Fx, const K: u8> Family for OpLpFam<F, K> {
    type T = OpP<F, LpDist<F>>;
    fn cases(p: &P) -> Vec<(String, Self::T)> {
        op_lp_cases::<F>(K, p)
    }
    fn observe(v: &Self::T, p: &P, f: &mut Fingerprint) {
        // never run a neighbour search with an extreme exponent; the distance itself is observed
        op_obs(v, false, p, f);
        if let Ok(valid) = v.check_ref() {
            lp_obs(valid.dist_fn(), f);
        }
    }
}

// ---------------------------------------------------------------------------------------------
// linfa-nn: LpDist(p); linfa-kernel: KernelMethod
// ---------------------------------------------------------------------------------------------

fn lp_obs<F: Fx>(d: &LpDist<F>, f: &mut Fingerprint) {
    f.one("p", d.0);
    let a: Array1<F> = array![F::cast(1.0), F::cast(-2.5), F::cast(0.25)];
    let b: Array1<F> = array![F::cast(0.5), F::cast(1.5), F::cast(0.25)];
    guarded(f, "distance", |f| {
        f.one("distance", d.distance(a.view(), b.view()));
        f.one("rdistance", d.rdistance(a.view(), b.view()));
    });
}
struct LpFam<F, const K: u8>(PhantomData<F>);
impl<F: Fx, const K: u8> Family for LpFam<F, K> {
    type T = LpDist<F>;
    fn cases(_p: &P) -> Vec<(String, LpDist<F>)> {
        fvals::<F>(K).into_iter().map(|(n, v)| (lbl("p", n), LpDist(v))).collect()
    }
    fn observe(v: &LpDist<F>, _p: &P, f: &mut Fingerprint) {
        f.text("debug", &format!("{v:?}"));
        lp_obs(v, f);
    }
}

struct KernelFam<F, const K: u8>(PhantomData<F>);
impl<F: Fx, const K: u8> Family for KernelFam<F, K> {
    type T = KernelMethod<F>;
    fn cases(_p: &P) -> Vec<(String, KernelMethod<F>)> {
        let mut c = Vec::new();
        for (n, v) in fvals::<F>(K) {
            c.push((lbl("gaussian.eps", n), KernelMethod::Gaussian(v)));
            c.push((lbl("polynomial.constant", n), KernelMethod::Polynomial(v, F::cast(3.0))));
            c.push((lbl("polynomial.degree", n), KernelMethod::Polynomial(F::cast(0.5), v)));
        }
        if K == INTS {
            c.push((lbl("variant", "linear"), KernelMethod::Linear));
            c.push((lbl("variant", "gaussian"), KernelMethod::Gaussian(F::cast(0.75))));
            c.push((lbl("variant", "polynomial"), KernelMethod::Polynomial(F::cast(1.0), F::cast(2.0))));
        }
        c
    }
    fn observe(v: &KernelMethod<F>, _p: &P, f: &mut Fingerprint) {
        f.text("debug", &format!("{v:?}"));
        match v {
            KernelMethod::Gaussian(e) => f.one("eps", *e),
            KernelMethod::Polynomial(c, d) => f.seq("constant_degree", [*c, *d]),
            KernelMethod::Linear => f.one("linear", true),
        }
        f.one("is_linear", v.is_linear());
        let a: Array1<F> = array![F::cast(1.0), F::cast(-2.5), F::cast(0.25)];
        let b: Array1<F> = array![F::cast(0.5), F::cast(1.5), F::cast(0.25)];
        guarded(f, "distance", |f| f.one("distance", v.distance(a.view(), b.view())));
    }
}

// ---------------------------------------------------------------------------------------------
// linfa-bayes (only the checked types derive serde: every value `check()` lets through)
// ---------------------------------------------------------------------------------------------

fn labelled<F: Fx>(p: &P, n: usize) -> (Array2<F>, Array1<usize>) {
    let (x, y) = data::blobs(&mut p.rng(0xE8), n, 2, 3, 0.7);
    (x.mapv(F::cast), y)
}

struct GnbFam<F, const K: u8>(PhantomData<F>);
impl<F: Fx, const K: u8> Family for GnbFam<F, K> {
    type T = GaussianNbValidParams<F, usize>;
    fn cases(_p: &P) -> Vec<(String, Self::T)> {
        fvals::<F>(K).into_iter().filter_map(|(n, v)| checked(|| GaussianNb::<F, usize>::params().var_smoothing(v).check()).map(|v| (lbl("var_smoothing", n), v))).collect()
    }
    fn observe(v: &Self::T, p: &P, f: &mut Fingerprint) {
        f.text("debug", &format!("{v:?}"));
        f.one("var_smoothing", v.var_smoothing());
        if ordinary(v.var_smoothing(), 0.0, 1e3) {
            guarded(f, "refit", |f| {
                let (x, y) = labelled::<F>(p, 24);
                match v.fit(&DatasetBase::new(x.clone(), y)) {
                    Ok(m) => f.arr("refit_predict", &m.predict(&x)),
                    Err(e) => f.err("refit", &e),
                }
            });
        }
    }
}
struct MnbFam<F, const K: u8>(PhantomData<F>);
impl<F: Fx, const K: u8> Family for MnbFam<F, K> {
    type T = MultinomialNbValidParams<F, usize>;
    fn cases(_p: &P) -> Vec<(String, Self::T)> {
        fvals::<F>(K).into_iter().filter_map(|(n, v)| checked(|| MultinomialNb::<F, usize>::params().alpha(v).check()).map(|v| (lbl("alpha", n), v))).collect()
    }
    fn observe(v: &Self::T, p: &P, f: &mut Fingerprint) {
        f.text("debug", &format!("{v:?}"));
        f.one("alpha", v.alpha());
        if ordinary(v.alpha(), 0.0, 1e3) {
            guarded(f, "refit", |f| {
                let (x, y) = labelled::<F>(p, 24);
                let x = x.mapv(|v| (v.abs() * F::cast(3.0)).floor() + F::one());
                match v.fit(&DatasetBase::new(x.clone(), y)) {
                    Ok(m) => f.arr("refit_predict", &m.predict(&x)),
                    Err(e) => f.err("refit", &e),
                }
            });
        }
    }
}

// ---------------------------------------------------------------------------------------------
// linfa-elasticnet (checked type only)
// ---------------------------------------------------------------------------------------------

type EnV<F, const MT: bool> = ElasticNetValidParamsBase<F, MT>;

fn en_base<F: Fx, const MT: bool>() -> ElasticNetParamsBase<F, MT> {
    ElasticNetParamsBase::<F, MT>::new().penalty(F::cast(0.3)).l1_ratio(F::cast(0.5)).tolerance(F::cast(1e-4)).max_iterations(50)
}
fn en_cases<F: Fx, const MT: bool>(k: u8) -> Vec<(String, EnV<F, MT>)> {
    let mut c = Vec::new();
    for (n, v) in fvals::<F>(k) {
        c.push((lbl("penalty", n), checked(|| en_base::<F, MT>().penalty(v).check())));
        c.push((lbl("l1_ratio", n), checked(|| en_base::<F, MT>().l1_ratio(v).check())));
        c.push((lbl("tolerance", n), checked(|| en_base::<F, MT>().tolerance(v).check())));
    }
    for (n, v) in ints_if(k, u32s()) {
        c.push((lbl("max_iterations", n), checked(|| en_base::<F, MT>().max_iterations(v).check())));
    }
    if k == INTS {
        c.push((lbl("with_intercept", "true"), checked(|| en_base::<F, MT>().with_intercept(true).check())));
        c.push((lbl("with_intercept", "false"), checked(|| en_base::<F, MT>().with_intercept(false).check())));
    }
    c.into_iter().filter_map(|(l, v)| v.map(|v| (l, v))).collect()
}
/// getters; says whether a refit is safe
fn en_getters<F: Fx, const MT: bool>(v: &EnV<F, MT>, f: &mut Fingerprint) -> bool {
    f.text("debug", &format!("{v:?}"));
    f.one("penalty", v.penalty());
    f.one("l1_ratio", v.l1_ratio());
    f.one("with_intercept", v.with_intercept());
    f.one("max_iterations", v.max_iterations());
    f.one("tolerance", v.tolerance());
    ordinary(v.penalty(), 0.0, 1e3) && ordinary(v.l1_ratio(), 0.0, 1.0) && ordinary(v.tolerance(), 0.0, 1.0) && v.max_iterations() <= 200
}
fn reg_data<F: Fx>(p: &P) -> (Array2<F>, Array2<F>) {
    let (x, y) = data::regression(&mut p.rng(0xE9), 20, 3, 2);
    (x.mapv(F::cast), y.mapv(F::cast))
}
struct EnFam<F, const K: u8>(PhantomData<F>);
impl<F: Fx, const K: u8> Family for EnFam<F, K> {
    type T = EnV<F, false>;
    fn cases(_p: &P) -> Vec<(String, Self::T)> {
        en_cases::<F, false>(K)
    }
    fn observe(v: &Self::T, p: &P, f: &mut Fingerprint) {
        if en_getters(v, f) {
            guarded(f, "refit", |f| {
                let (x, y) = reg_data::<F>(p);
                match v.fit(&Dataset::new(x, y.column(0).to_owned())) {
                    Ok(m) => {
                        f.arr("refit_hyperplane", m.hyperplane());
                        f.one("refit_intercept", m.intercept());
                        f.one("refit_steps", m.n_steps());
                    }
                    Err(e) => f.err("refit", &e),
                }
            });
        }
    }
}
struct EnMtFam<F, const K: u8>(PhantomData<F>);
impl<F: Fx, const K: u8> Family for EnMtFam<F, K> {
    type T = EnV<F, true>;
    fn cases(_p: &P) -> Vec<(String, Self::T)> {
        en_cases::<F, true>(K)
    }
    fn observe(v: &Self::T, p: &P, f: &mut Fingerprint) {
        if en_getters(v, f) {
            guarded(f, "refit", |f| {
                let (x, y) = reg_data::<F>(p);
                match v.fit(&Dataset::new(x, y)) {
                    Ok(m) => {
                        f.arr("refit_hyperplane", m.hyperplane());
                        f.arr("refit_intercept", m.intercept());
                        f.one("refit_steps", m.n_steps());
                    }
                    Err(e) => f.err("refit", &e),
                }
            });
        }
    }
}

// ---------------------------------------------------------------------------------------------
// linfa-ftrl: unchecked and checked parameter sets, and the model (which stores the four rates)
// ---------------------------------------------------------------------------------------------

type FtP<F> = FtrlParams<F, Xoshiro256Plus>;
type FtV<F> = <FtrlParams<F, Xoshiro256Plus> as ParamGuard>::Checked;

fn ft_base<F: Fx>(p: &P) -> FtP<F> {
    FtrlParams::new(F::cast(0.05), F::cast(0.5), F::cast(0.4), F::cast(0.2), Xoshiro256Plus::seed_from_u64(p.seed ^ 13))
}
fn ft_cases<F: Fx>(k: u8, p: &P) -> Vec<(String, FtP<F>)> {
    let mut c = Vec::new();
    for (n, v) in fvals::<F>(k) {
        c.push((lbl("alpha", n), ft_base::<F>(p).alpha(v)));
        c.push((lbl("beta", n), ft_base::<F>(p).beta(v)));
        c.push((lbl("l1_ratio", n), ft_base::<F>(p).l1_ratio(v)));
        c.push((lbl("l2_ratio", n), ft_base::<F>(p).l2_ratio(v)));
    }
    for (n, v) in ints_if(k, rng_seeds()) {
        c.push((lbl("rng_seed", n), ft_base::<F>(p).rng(Xoshiro256Plus::seed_from_u64(v))));
    }
    c
}
fn ft_obs_valid<F: Fx>(v: &FtV<F>, p: &P, f: &mut Fingerprint) {
    f.seq("alpha_beta_l1_l2", [v.alpha(), v.beta(), v.l1_ratio(), v.l2_ratio()]);
    rng_draws(v.rng(), f);
    // (drawing the initial state never depends on the rates)
    guarded(f, "fresh", |f| f.arr("fresh_z", Ftrl::new(v.clone(), 3).z()));
    if ordinary(v.alpha(), 1e-6, 10.0) && ordinary(v.beta(), 0.0, 10.0) && ordinary(v.l1_ratio(), 0.0, 1.0) && ordinary(v.l2_ratio(), 0.0, 1.0) {
        guarded(f, "refit", |f| {
            let (x, y) = labelled::<F>(p, 24);
            match v.fit_with(None, &DatasetBase::new(x, y.mapv(|l| l % 2 == 0))) {
                Ok(m) => {
                    f.arr("refit_z", m.z());
                    f.arr("refit_n", m.n());
                }
                Err(e) => f.err("refit", &e),
            }
        });
    }
}
struct FtFam<F, const K: u8>(PhantomData<F>);
impl<F: Fx, const K: u8> Family for FtFam<F, K> {
    type T = FtP<F>;
    fn cases(p: &P) -> Vec<(String, Self::T)> {
        ft_cases::<F>(K, p)
    }
    fn observe(v: &Self::T, p: &P, f: &mut Fingerprint) {
        f.text("debug", &format!("{v:?}"));
        match v.check_ref() {
            Ok(valid) => {
                f.one("check_ok", true);
                ft_obs_valid(valid, p, f);
            }
            Err(e) => f.err("check", &e),
        }
    }
}
struct FtValidFam<F, const K: u8>(PhantomData<F>);
impl<F: Fx, const K: u8> Family for FtValidFam<F, K> {
    type T = FtV<F>;
    fn cases(p: &P) -> Vec<(String, Self::T)> {
        ft_cases::<F>(K, p).into_iter().filter_map(|(l, v)| checked(|| v.check()).map(|v| (l, v))).collect()
    }
    fn observe(v: &Self::T, p: &P, f: &mut Fingerprint) {
        f.text("debug", &format!("{v:?}"));
        ft_obs_valid(v, p, f)
    }
}
struct FtModelFam<F, const K: u8>(PhantomData<F>);
impl<F: Fx, const K: u8> Family for FtModelFam<F, K> {
    type T = Ftrl<F>;
    fn cases(p: &P) -> Vec<(String, Self::T)> {
        ft_cases::<F>(K, p).into_iter().filter_map(|(l, v)| checked(|| v.check()).and_then(|v| catch_unwind(AssertUnwindSafe(|| Ftrl::new(v, 3))).ok()).map(|m| (l, m))).collect()
    }
    fn observe(m: &Self::T, _p: &P, f: &mut Fingerprint) {
        f.text("debug", &format!("{m:?}"));
        f.seq("alpha_beta_l1_l2", [m.alpha(), m.beta(), m.l1_ratio(), m.l2_ratio()]);
        f.arr("z", m.z());
        f.arr("n", m.n());
    }
}

// ---------------------------------------------------------------------------------------------
// linfa-ica (checked type only) and GFunc
// ---------------------------------------------------------------------------------------------

fn ica_base<F: Fx>(p: &P) -> linfa_ica::hyperparams::FastIcaParams<F> {
    FastIca::<F>::params().gfunc(GFunc::Exp).max_iter(40).tol(F::cast(1e-3)).random_state((p.seed % 1000) as usize + 3)
}
fn gfunc_ok(g: &GFunc) -> bool {
    match g {
        GFunc::Logcosh(a) => (1.0..=2.0).contains(a),
        _ => true,
    }
}
struct IcaFam<F, const K: u8>(PhantomData<F>);
impl<F: Fx, const K: u8> Family for IcaFam<F, K> {
    type T = FastIcaValidParams<F>;
    fn cases(p: &P) -> Vec<(String, Self::T)> {
        let mut c = Vec::new();
        for (n, v) in fvals::<F>(K) {
            c.push((lbl("tol", n), checked(|| ica_base::<F>(p).tol(v).check())));
        }
        // (the exponent of the log-cosh function is an f64 whatever the float type of the model)
        for (n, v) in fvals::<f64>(K) {
            c.push((lbl("gfunc.logcosh.alpha", n), checked(|| ica_base::<F>(p).gfunc(GFunc::Logcosh(v)).check())));
        }
        for (n, v) in ints_if(K, usizes()) {
            c.push((lbl("ncomponents", n), checked(|| ica_base::<F>(p).ncomponents(v).check())));
            c.push((lbl("max_iter", n), checked(|| ica_base::<F>(p).max_iter(v).check())));
            c.push((lbl("random_state", n), checked(|| FastIca::<F>::params().gfunc(GFunc::Exp).max_iter(40).tol(F::cast(1e-3)).random_state(v).check())));
        }
        if K == INTS {
            c.push((lbl("ncomponents_random_state", "none"), checked(|| FastIca::<F>::params().max_iter(40).check())));
            c.push((lbl("gfunc", "exp"), checked(|| ica_base::<F>(p).gfunc(GFunc::Exp).check())));
            c.push((lbl("gfunc", "cube"), checked(|| ica_base::<F>(p).gfunc(GFunc::Cube).check())));
            c.push((lbl("gfunc", "logcosh_default"), checked(|| ica_base::<F>(p).gfunc(GFunc::Logcosh(1.0)).check())));
        }
        c.into_iter().filter_map(|(l, v)| v.map(|v| (l, v))).collect()
    }
    fn observe(v: &Self::T, p: &P, f: &mut Fingerprint) {
        f.text("debug", &format!("{v:?}"));
        f.one("ncomponents", v.ncomponents().map(|c| c as u64));
        gfunc_obs(v.gfunc(), f);
        f.one("max_iter", v.max_iter());
        f.one("tol", v.tol());
        f.one("random_state", v.random_state().map(|c| c as u64));
        let nc_ok = match v.ncomponents() {
            None => true,
            Some(c) => (1..=2).contains(c),
        };
        if nc_ok && gfunc_ok(v.gfunc()) && (1..=50).contains(&v.max_iter()) && ordinary(v.tol(), 1e-4, 1.0) && v.random_state().is_some() {
            guarded(f, "refit", |f| {
                let mut r = p.rng(0xEA);
                let x: Array2<F> = Array2::from_shape_fn((40, 2), |(i, j)| {
                    let (s1, s2) = ((i as f64 * 0.7).sin(), if (i / 5) % 2 == 0 { 1.0 } else { -1.0 });
                    F::cast(if j == 0 { s1 + 0.5 * s2 } else { 0.3 * s1 - s2 } + 0.01 * r.unit())
                });
                match v.fit(&DatasetBase::from(x.clone())) {
                    Ok(m) => f.arr("refit_predict", &m.predict(&x)),
                    Err(e) => f.err("refit", &e),
                }
            });
        }
    }
}
fn gfunc_obs(g: &GFunc, f: &mut Fingerprint) {
    f.text("gfunc", &format!("{g:?}"));
    if let GFunc::Logcosh(a) = g {
        f.one("gfunc_alpha", *a);
    }
}
struct GFuncFam<const K: u8>;
impl<const K: u8> Family for GFuncFam<K> {
    type T = GFunc;
    fn cases(_p: &P) -> Vec<(String, GFunc)> {
        let mut c: Vec<(String, GFunc)> = fvals::<f64>(K).into_iter().map(|(n, v)| (lbl("logcosh.alpha", n), GFunc::Logcosh(v))).collect();
        if K == INTS {
            c.push((lbl("variant", "exp"), GFunc::Exp));
            c.push((lbl("variant", "cube"), GFunc::Cube));
            c.push((lbl("variant", "logcosh"), GFunc::Logcosh(1.5)));
        }
        c
    }
    fn observe(v: &GFunc, _p: &P, f: &mut Fingerprint) {
        gfunc_obs(v, f)
    }
}

// ---------------------------------------------------------------------------------------------
// Debug-text readers for types without getters (pub(crate) fields only)
// ---------------------------------------------------------------------------------------------

/// the number that follows `key` in a Debug text (`alpha: 1.0, …`)
fn dbg_num(text: &str, key: &str) -> Option<f64> {
    let i = text.find(key)? + key.len();
    let rest = &text[i..];
    let end = rest.find(|c: char| c == ',' || c == ' ' || c == '}' || c == ')').unwrap_or(rest.len());
    rest[..end].parse().ok()
}
/// the pair that follows `key` (`n_gram_range: (1, 2)`)
fn dbg_pair(text: &str, key: &str) -> Option<(f64, f64)> {
    let i = text.find(key)? + key.len();
    let rest = text[i..].strip_prefix('(')?;
    let end = rest.find(')')?;
    let mut it = rest[..end].split(", ");
    Some((it.next()?.parse().ok()?, it.next()?.parse().ok()?))
}

// ---------------------------------------------------------------------------------------------
// linfa-linear: Tweedie (checked type only), linfa-logistic (both); the float traits of these two
// crates are private, hence one instantiation per float type
// ---------------------------------------------------------------------------------------------

macro_rules! tweedie_family {
    ($Fam:ident, $F:ty, $refit:expr) => {
        struct $Fam<const K: u8>;
        impl<const K: u8> Family for $Fam<K> {
            type T = TweedieRegressorValidParams<$F>;
            fn cases(_p: &P) -> Vec<(String, Self::T)> {
                let base = || TweedieRegressor::<$F>::params().alpha(0.25).power(0.0).max_iter(25).tol(1e-3);
                let mut c = Vec::new();
                for (n, v) in fvals::<$F>(K) {
                    c.push((lbl("alpha", n), checked(|| base().alpha(v).check())));
                    c.push((lbl("power", n), checked(|| base().power(v).check())));
                    c.push((lbl("tol", n), checked(|| base().tol(v).check())));
                }
                for (n, v) in ints_if(K, usizes()) {
                    c.push((lbl("max_iter", n), checked(|| base().max_iter(v).check())));
                }
                if K == INTS {
                    c.push((lbl("link", "none_power0"), checked(|| base().check())));
                    c.push((lbl("link", "none_power1"), checked(|| base().power(1.0).check())));
                    c.push((lbl("link", "identity"), checked(|| base().link(Link::Identity).check())));
                    c.push((lbl("link", "log"), checked(|| base().link(Link::Log).check())));
                    c.push((lbl("link", "logit"), checked(|| base().link(Link::Logit).check())));
                    c.push((lbl("fit_intercept", "false"), checked(|| base().fit_intercept(false).check())));
                }
                c.into_iter().filter_map(|(l, v)| v.map(|v| (l, v))).collect()
            }
            fn observe(v: &Self::T, p: &P, f: &mut Fingerprint) {
                f.text("debug", &format!("{v:?}"));
                f.one("alpha", v.alpha());
                f.one("fit_intercept", v.fit_intercept());
                f.one("power", v.power());
                f.text("link", &format!("{:?}", v.link()));
                f.one("max_iter", v.max_iter());
                f.one("tol", v.tol());
                // (the solver's line search is not bounded by max_iter — a Poisson fit with the log link on
                // this data does not return —: only the normal distribution with the identity link)
                let power_ok = v.power() == 0.0 && v.link() == Link::Identity;
                let alpha_ok = v.alpha() == 0.0 || ordinary(v.alpha(), 1e-3, 10.0);
                if $refit && alpha_ok && power_ok && ordinary(v.tol(), 1e-4, 1.0) && (1..=30).contains(&v.max_iter()) {
                    guarded(f, "refit", |f| {
                        let (x, y) = reg_data::<$F>(p);
                        let y = y.column(0).mapv(|t| 1.0 + t.abs());
                        match v.fit(&Dataset::new(x, y)) {
                            Ok(m) => {
                                f.arr("refit_coef", &m.coef);
                                f.one("refit_intercept", m.intercept);
                            }
                            Err(e) => f.err("refit", &e),
                        }
                    });
                }
            }
        }
    };
}
tweedie_family!(Tw64Fam, f64, true);
// (in f32 even this fit does not return for some data seeds: never refitted)
tweedie_family!(Tw32Fam, f32, false);

fn link_cases() -> Vec<(String, Link)> {
    vec![(lbl("variant", "identity"), Link::Identity), (lbl("variant", "log"), Link::Log), (lbl("variant", "logit"), Link::Logit)]
}
struct LinkFam;
impl Family for LinkFam {
    type T = Option<Link>;
    fn cases(_p: &P) -> Vec<(String, Option<Link>)> {
        let mut c: Vec<(String, Option<Link>)> = link_cases().into_iter().map(|(l, v)| (l, Some(v))).collect();
        c.push((lbl("variant", "none"), None));
        c
    }
    fn observe(v: &Option<Link>, _p: &P, f: &mut Fingerprint) {
        f.text("debug", &format!("{v:?}"));
        if let Some(l) = v {
            let y: Array1<f64> = array![0.25, 0.5, 0.75];
            f.arr("link", &l.link(&y));
            f.arr("inverse", &l.inverse(&y));
        }
    }
}

macro_rules! logistic_family {
    ($Fam:ident, $ValidFam:ident, $F:ty, $Ix:ty, $Params:ty, $Valid:ty, $init:expr, $refit:expr) => {
        struct $Fam<const K: u8>;
        impl<const K: u8> $Fam<K> {
            fn all() -> Vec<(String, $Params)> {
                let base = || <$Params>::new().alpha(0.5).gradient_tolerance(1e-3).max_iterations(20);
                let init: fn($F) -> ndarray::Array<$F, $Ix> = $init;
                let mut c = Vec::new();
                for (n, v) in fvals::<$F>(K) {
                    c.push((lbl("alpha", n), base().alpha(v)));
                    c.push((lbl("gradient_tolerance", n), base().gradient_tolerance(v)));
                    c.push((lbl("initial_params[1]", n), base().initial_params(init(v))));
                }
                for (n, v) in ints_if(K, u64s()) {
                    c.push((lbl("max_iterations", n), base().max_iterations(v)));
                }
                if K == INTS {
                    c.push((lbl("fit_intercept", "false"), base().with_intercept(false)));
                    c.push((lbl("fit_intercept", "true"), base().with_intercept(true)));
                    c.push((lbl("initial_params", "none"), base()));
                    c.push((lbl("initial_params", "some_ordinary"), base().initial_params(init(0.125))));
                    c.push((lbl("initial_params", "some_empty"), base().initial_params(Default::default())));
                }
                c
            }
        }
        impl<const K: u8> Family for $Fam<K> {
            type T = $Params;
            fn cases(_p: &P) -> Vec<(String, Self::T)> {
                Self::all()
            }
            fn observe(v: &Self::T, p: &P, f: &mut Fingerprint) {
                f.text("debug", &format!("{v:?}"));
                match v.check_ref() {
                    Ok(valid) => {
                        f.one("check_ok", true);
                        <$ValidFam<K> as Family>::observe(valid, p, f);
                    }
                    Err(e) => f.err("check", &e),
                }
            }
        }
        struct $ValidFam<const K: u8>;
        impl<const K: u8> Family for $ValidFam<K> {
            type T = $Valid;
            fn cases(_p: &P) -> Vec<(String, Self::T)> {
                $Fam::<K>::all().into_iter().filter_map(|(l, v)| checked(|| v.check()).map(|v| (l, v))).collect()
            }
            fn observe(v: &Self::T, p: &P, f: &mut Fingerprint) {
                // no getters: the Debug text is the only window, and decides whether a refit is safe
                let text = format!("{v:?}");
                f.text("valid_debug", &text);
                let num = |key: &str| dbg_num(&text, key).unwrap_or(f64::NAN);
                let refit: Option<fn(&Self::T, &P, &mut Fingerprint)> = $refit;
                if let Some(refit) = refit {
                    if ordinary(num("alpha: "), 0.01, 100.0) && ordinary(num("gradient_tolerance: "), 1e-4, 1.0) && (1.0..=30.0).contains(&num("max_iterations: ")) && text.contains("initial_params: None") {
                        guarded(f, "refit", |f| refit(v, p, f));
                    }
                }
            }
        }
    };
}
fn lg_refit_binary(v: &ValidLogisticRegression<f64>, p: &P, f: &mut Fingerprint) {
    let (x, y) = labelled::<f64>(p, 24);
    match v.fit(&Dataset::new(x.clone(), y.mapv(|l| l % 2))) {
        Ok(m) => {
            f.arr("refit_params", m.params());
            f.one("refit_intercept", m.intercept());
            f.arr("refit_predict", &m.predict(&x));
        }
        Err(e) => f.err("refit", &e),
    }
}
fn lg_refit_multi(v: &ValidMultiLogisticRegression<f64>, p: &P, f: &mut Fingerprint) {
    let (x, y) = labelled::<f64>(p, 24);
    match v.fit(&Dataset::new(x.clone(), y)) {
        Ok(m) => {
            f.arr("refit_params", m.params());
            f.arr("refit_intercept", m.intercept());
            f.arr("refit_predict", &m.predict(&x));
        }
        Err(e) => f.err("refit", &e),
    }
}
logistic_family!(Lg64Fam, Lg64ValidFam, f64, Ix1, LogisticRegression<f64>, ValidLogisticRegression<f64>, |v| array![0.5, v, -0.25], Some(lg_refit_binary));
logistic_family!(Lg32Fam, Lg32ValidFam, f32, Ix1, LogisticRegression<f32>, ValidLogisticRegression<f32>, |v| array![0.5, v, -0.25], None);
logistic_family!(LgM64Fam, LgM64ValidFam, f64, Ix2, MultiLogisticRegression<f64>, ValidMultiLogisticRegression<f64>, |v| array![[0.5, v, 0.0], [0.25, -0.5, 1.0], [0.0, 0.0, 0.125]], Some(lg_refit_multi));
logistic_family!(LgM32Fam, LgM32ValidFam, f32, Ix2, MultiLogisticRegression<f32>, ValidMultiLogisticRegression<f32>, |v| array![[0.5, v, 0.0], [0.25, -0.5, 1.0], [0.0, 0.0, 0.125]], None);

// ---------------------------------------------------------------------------------------------
// linfa-pls (PlsSvdParams), linfa-reduction (PcaParams): integers and a flag, no getters — the
// fit is always safe (an out-of-range size is answered with an error that names it)
// ---------------------------------------------------------------------------------------------

struct PlsSvdFam;
impl Family for PlsSvdFam {
    type T = PlsSvdParams;
    fn cases(_p: &P) -> Vec<(String, PlsSvdParams)> {
        let mut c: Vec<(String, PlsSvdParams)> = usizes().into_iter().map(|(n, v)| (lbl("n_components", n), PlsSvdParams::new(v))).collect();
        c.push((lbl("scale", "false"), PlsSvdParams::new(1).scale(false)));
        c.push((lbl("scale", "true"), PlsSvdParams::new(1).scale(true)));
        c
    }
    fn observe(v: &PlsSvdParams, p: &P, f: &mut Fingerprint) {
        f.text("debug", &format!("{v:?}"));
        guarded(f, "refit", |f| {
            let (x, y) = reg_data::<f64>(p);
            match v.fit(&Dataset::new(x, y)) {
                Ok(m) => {
                    f.arr("refit_x_weights", m.weights().0);
                    f.arr("refit_y_weights", m.weights().1);
                }
                Err(e) => f.err("refit", &e),
            }
        });
    }
}
struct PcaFam;
impl Family for PcaFam {
    type T = PcaParams;
    fn cases(_p: &P) -> Vec<(String, PcaParams)> {
        let mut c: Vec<(String, PcaParams)> = usizes().into_iter().map(|(n, v)| (lbl("embedding_size", n), Pca::params(v))).collect();
        c.push((lbl("embedding_size", "3"), Pca::params(3)));
        c.push((lbl("whiten", "true"), Pca::params(2).whiten(true)));
        c.push((lbl("whiten", "false"), Pca::params(2).whiten(false)));
        c
    }
    fn observe(v: &PcaParams, p: &P, f: &mut Fingerprint) {
        f.text("debug", &format!("{v:?}"));
        guarded(f, "refit", |f| {
            let (x, _) = reg_data::<f64>(p);
            match v.fit(&DatasetBase::from(x)) {
                Ok(m) => {
                    f.arr("refit_components", m.components());
                    f.arr("refit_singular_values", m.singular_values());
                }
                Err(e) => f.err("refit", &e),
            }
        });
    }
}

// ---------------------------------------------------------------------------------------------
// linfa-trees
// ---------------------------------------------------------------------------------------------

type TrP<F> = DecisionTreeParams<F, usize>;
type TrV<F> = DecisionTreeValidParams<F, usize>;

fn tr_base<F: Fx>() -> TrP<F> {
    DecisionTree::<F, usize>::params().max_depth(Some(6)).min_weight_split(2.0).min_weight_leaf(1.0).min_impurity_decrease(F::cast(1e-4))
}
fn tr_cases<F: Fx>(k: u8) -> Vec<(String, TrP<F>)> {
    let mut c = Vec::new();
    for (n, v) in fvals::<F>(k) {
        c.push((lbl("min_impurity_decrease", n), tr_base::<F>().min_impurity_decrease(v)));
    }
    // (the two weights are f32 whatever the float type of the tree)
    for (n, v) in fvals::<f32>(k) {
        c.push((lbl("min_weight_split", n), tr_base::<F>().min_weight_split(v)));
        c.push((lbl("min_weight_leaf", n), tr_base::<F>().min_weight_leaf(v)));
    }
    for (n, v) in ints_if(k, usizes()) {
        c.push((lbl("max_depth", n), tr_base::<F>().max_depth(Some(v))));
    }
    if k == INTS {
        c.push((lbl("max_depth", "none"), tr_base::<F>().max_depth(None)));
        c.push((lbl("split_quality", "gini"), tr_base::<F>().split_quality(SplitQuality::Gini)));
        c.push((lbl("split_quality", "entropy"), tr_base::<F>().split_quality(SplitQuality::Entropy)));
    }
    c
}
fn tr_obs_valid<F: Fx>(v: &TrV<F>, p: &P, f: &mut Fingerprint) {
    f.text("split_quality", &format!("{:?}", v.split_quality()));
    f.one("max_depth", v.max_depth().map(|d| d as u64));
    f.one("min_weight_split", v.min_weight_split());
    f.one("min_weight_leaf", v.min_weight_leaf());
    f.one("min_impurity_decrease", v.min_impurity_decrease());
    let depth_ok = match v.max_depth() {
        None => true,
        Some(d) => d <= 64,
    };
    // (a leaf weight of zero makes the fit panic on an empty split: a robustness matter, not persistence)
    if depth_ok && ordinary(v.min_weight_split(), 0.0, 100.0) && ordinary(v.min_weight_leaf(), 0.01, 100.0) && ordinary(v.min_impurity_decrease(), 1e-12, 1.0) {
        guarded(f, "refit", |f| {
            let (x, y) = labelled::<F>(p, 24);
            match v.fit(&Dataset::new(x.clone(), y)) {
                Ok(m) => {
                    f.arr("refit_predict", &m.predict(&x));
                    f.one("refit_max_depth", m.max_depth());
                    f.one("refit_num_leaves", m.num_leaves());
                }
                Err(e) => f.err("refit", &e),
            }
        });
    }
}
struct TrFam<F, const K: u8>(PhantomData<F>);
impl<F: Fx, const K: u8> Family for TrFam<F, K> {
    type T = TrP<F>;
    fn cases(_p: &P) -> Vec<(String, Self::T)> {
        tr_cases::<F>(K)
    }
    fn observe(v: &Self::T, p: &P, f: &mut Fingerprint) {
        f.text("debug", &format!("{v:?}"));
        match v.check_ref() {
            Ok(valid) => {
                f.one("check_ok", true);
                tr_obs_valid(valid, p, f);
            }
            Err(e) => f.err("check", &e),
        }
    }
}
struct TrValidFam<F, const K: u8>(PhantomData<F>);
impl<F: Fx, const K: u8> Family for TrValidFam<F, K> {
    type T = TrV<F>;
    fn cases(_p: &P) -> Vec<(String, Self::T)> {
        tr_cases::<F>(K).into_iter().filter_map(|(l, v)| checked(|| v.check()).map(|v| (l, v))).collect()
    }
    fn observe(v: &Self::T, p: &P, f: &mut Fingerprint) {
        f.text("debug", &format!("{v:?}"));
        tr_obs_valid(v, p, f)
    }
}

// ---------------------------------------------------------------------------------------------
// linfa-preprocessing: scaling methods, selectors, vectoriser parameter sets
// ---------------------------------------------------------------------------------------------

fn sm_cases<F: Fx>(k: u8) -> Vec<(String, ScalingMethod<F>)> {
    let mut c = Vec::new();
    for (n, v) in fvals::<F>(k) {
        c.push((lbl("minmax.min", n), ScalingMethod::MinMax(v, F::cast(100.0))));
        c.push((lbl("minmax.max", n), ScalingMethod::MinMax(F::cast(-100.0), v)));
    }
    if k == INTS {
        for (a, b) in [(true, true), (true, false), (false, true), (false, false)] {
            c.push((format!("standard=({a},{b})"), ScalingMethod::Standard(a, b)));
        }
        c.push((lbl("variant", "maxabs"), ScalingMethod::MaxAbs));
        c.push((lbl("variant", "minmax"), ScalingMethod::MinMax(F::zero(), F::one())));
    }
    c
}
fn sm_bits<F: Fx>(v: &ScalingMethod<F>, f: &mut Fingerprint) {
    f.text("method_debug", &format!("{v:?}"));
    f.text("method_display", &v.to_string());
    match v {
        ScalingMethod::MinMax(a, b) => f.seq("minmax", [*a, *b]),
        ScalingMethod::Standard(a, b) => f.seq("standard", [*a, *b]),
        ScalingMethod::MaxAbs => f.one("maxabs", true),
    }
}
fn scaler_obs<F: Fx>(s: &LinearScaler<F>, p: &P, f: &mut Fingerprint) {
    sm_bits(s.method(), f);
    f.arr("offsets", s.offsets());
    f.arr("scales", s.scales());
    // (one pass over six numbers: safe for every range, the result may be non-finite)
    guarded(f, "transform", |f| f.arr("transform", &s.transform(blobs::<F>(p, 3))));
}
fn sp_obs<F: Fx>(v: &LinearScalerParams<F>, p: &P, f: &mut Fingerprint) {
    guarded(f, "fit", |f| match v.fit(&DatasetBase::from(blobs::<F>(p, 12))) {
        Ok(s) => scaler_obs(&s, p, f),
        Err(e) => f.err("fit", &e),
    });
}
struct SmFam<F, const K: u8>(PhantomData<F>);
impl<F: Fx, const K: u8> Family for SmFam<F, K> {
    type T = ScalingMethod<F>;
    fn cases(_p: &P) -> Vec<(String, Self::T)> {
        sm_cases::<F>(K)
    }
    fn observe(v: &Self::T, p: &P, f: &mut Fingerprint) {
        sm_bits(v, f);
        sp_obs(&LinearScalerParams::new(v.clone()), p, f);
    }
}
struct SpFam<F, const K: u8>(PhantomData<F>);
impl<F: Fx, const K: u8> Family for SpFam<F, K> {
    type T = LinearScalerParams<F>;
    fn cases(_p: &P) -> Vec<(String, Self::T)> {
        sm_cases::<F>(K).into_iter().map(|(l, v)| (l, LinearScalerParams::new(v))).collect()
    }
    fn observe(v: &Self::T, p: &P, f: &mut Fingerprint) {
        f.text("debug", &format!("{v:?}"));
        sp_obs(v, p, f);
    }
}
/// the fitted scaler keeps the method (and its range) it was fitted with
struct ScalerFam<F, const K: u8>(PhantomData<F>);
impl<F: Fx, const K: u8> Family for ScalerFam<F, K> {
    type T = LinearScaler<F>;
    fn cases(p: &P) -> Vec<(String, Self::T)> {
        sm_cases::<F>(K).into_iter().filter_map(|(l, v)| checked(|| LinearScalerParams::new(v).fit(&DatasetBase::from(blobs::<F>(p, 12)))).map(|s| (l, s))).collect()
    }
    fn observe(v: &Self::T, p: &P, f: &mut Fingerprint) {
        scaler_obs(v, p, f);
    }
}

/// selectors without numeric payload: every variant
#[derive(Serialize, serde::Deserialize, PartialEq, Debug)]
struct Selectors {
    norm: NormScaler,
    whitener: Whitener,
    whitening: WhiteningMethod,
    tfidf: TfIdfMethod,
}
struct SelectorFam;
impl Family for SelectorFam {
    type T = Selectors;
    fn cases(_p: &P) -> Vec<(String, Selectors)> {
        let mut c = Vec::new();
        for i in 0..3 {
            let (norm, nn) = [(NormScaler::l1(), "l1"), (NormScaler::l2(), "l2"), (NormScaler::max(), "max")][i].clone();
            let (wm, wn) = [(WhiteningMethod::Pca, "pca"), (WhiteningMethod::Zca, "zca"), (WhiteningMethod::Cholesky, "cholesky")][i].clone();
            let (tm, tn) = [(TfIdfMethod::Smooth, "smooth"), (TfIdfMethod::NonSmooth, "nonsmooth"), (TfIdfMethod::Textbook, "textbook")][i].clone();
            let whitener = [Whitener::pca(), Whitener::zca(), Whitener::cholesky()][i].clone();
            c.push((format!("{nn},{wn},{tn}"), Selectors { norm, whitener, whitening: wm, tfidf: tm }));
        }
        c
    }
    fn observe(v: &Selectors, p: &P, f: &mut Fingerprint) {
        f.text("debug", &format!("{v:?}"));
        f.arr("norm_transform", &v.norm.transform(blobs::<f64>(p, 3)));
        f.seq("idf", [v.tfidf.compute_idf(10, 3), v.tfidf.compute_idf(1, 1)]);
    }
}

fn cv_cases(k: u8) -> Vec<(String, CountVectorizerParams)> {
    let base = || CountVectorizer::params().n_gram_range(1, 2).document_frequency(0.1, 0.9);
    let mut c = Vec::new();
    for (n, v) in fvals::<f32>(k) {
        c.push((lbl("document_frequency.min", n), base().document_frequency(v, 0.9)));
        c.push((lbl("document_frequency.max", n), base().document_frequency(0.1, v)));
    }
    for (n, v) in ints_if(k, usizes()) {
        c.push((lbl("n_gram_range.min", n), base().n_gram_range(v, 2)));
        c.push((lbl("n_gram_range.max", n), base().n_gram_range(1, v)));
        c.push((lbl("n_gram_range.both", n), base().n_gram_range(v, v)));
        c.push((lbl("max_features", n), base().max_features(Some(v))));
    }
    if k == INTS {
        c.push((lbl("max_features", "none"), base().max_features(None)));
        c.push((lbl("flags", "lowercase_off_normalize_off"), base().convert_to_lowercase(false).normalize(false)));
        c.push((lbl("flags", "lowercase_on_normalize_on"), base().convert_to_lowercase(true).normalize(true)));
    }
    c
}
fn docs(p: &P) -> Array1<String> {
    Array1::from(data::corpus(&mut p.rng(0xEB), 8))
}
fn cv_model_obs(m: &CountVectorizer, f: &mut Fingerprint) {
    // (the order of the vocabulary is the iteration order of a HashMap: compared as a set)
    let mut vocab: Vec<&str> = m.vocabulary().iter().map(|s| s.as_str()).collect();
    vocab.sort();
    f.text("refit_vocabulary", &vocab.join("\u{1f}"));
    f.one("refit_nentries", m.nentries());
}
fn cv_obs_valid(v: &CountVectorizerValidParams, p: &P, f: &mut Fingerprint) {
    f.one("max_features", v.max_features().map(|c| c as u64));
    f.one("convert_to_lowercase", v.convert_to_lowercase());
    f.seq("n_gram_range", [v.n_gram_range().0, v.n_gram_range().1]);
    f.one("normalize", v.normalize());
    f.seq("document_frequency", [v.document_frequency().0, v.document_frequency().1]);
    f.one("stopwords_none", v.stopwords().is_none());
    let (lo, hi) = v.n_gram_range();
    if (1..=3).contains(&lo) && (1..=3).contains(&hi) {
        guarded(f, "refit", |f| match v.fit(&docs(p)) {
            Ok(m) => cv_model_obs(&m, f),
            Err(e) => f.err("refit", &e),
        });
    }
}
struct CvFam<const K: u8>;
impl<const K: u8> Family for CvFam<K> {
    type T = CountVectorizerParams;
    fn cases(_p: &P) -> Vec<(String, Self::T)> {
        cv_cases(K)
    }
    fn observe(v: &Self::T, p: &P, f: &mut Fingerprint) {
        // (the verdict first: a successful check caches the compiled expression inside the value,
        // and the Debug text shows the cache)
        let ok = v.check_ref().is_ok();
        f.text("debug", &format!("{v:?}"));
        match v.check_ref() {
            Ok(valid) => {
                f.one("check_ok", ok);
                cv_obs_valid(valid, p, f);
            }
            Err(e) => f.err("check", &e),
        }
    }
}
struct CvValidFam<const K: u8>;
impl<const K: u8> Family for CvValidFam<K> {
    type T = CountVectorizerValidParams;
    fn cases(_p: &P) -> Vec<(String, Self::T)> {
        cv_cases(K).into_iter().filter_map(|(l, v)| checked(|| v.check()).map(|v| (l, v))).collect()
    }
    fn observe(v: &Self::T, p: &P, f: &mut Fingerprint) {
        f.text("debug", &format!("{v:?}"));
        cv_obs_valid(v, p, f)
    }
}
struct TfIdfFam<const K: u8>;
impl<const K: u8> Family for TfIdfFam<K> {
    type T = TfIdfVectorizer;
    fn cases(_p: &P) -> Vec<(String, Self::T)> {
        let base = || TfIdfVectorizer::default().n_gram_range(1, 2).document_frequency(0.1, 0.9);
        let mut c = Vec::new();
        for (n, v) in fvals::<f32>(K) {
            c.push((lbl("document_frequency.min", n), base().document_frequency(v, 0.9)));
            c.push((lbl("document_frequency.max", n), base().document_frequency(0.1, v)));
        }
        for (n, v) in ints_if(K, usizes()) {
            c.push((lbl("n_gram_range.min", n), base().n_gram_range(v, 2)));
            c.push((lbl("n_gram_range.max", n), base().n_gram_range(1, v)));
            c.push((lbl("max_features", n), base().max_features(Some(v))));
        }
        if K == INTS {
            c.push((lbl("max_features", "none"), base().max_features(None)));
        }
        c
    }
    fn observe(v: &Self::T, p: &P, f: &mut Fingerprint) {
        // no getters at all: Debug text, and a fit when the n-gram range it shows is small
        let text = format!("{v:?}");
        let range = dbg_pair(&text, "n_gram_range: ");
        if let Some((lo, hi)) = range {
            if (1.0..=3.0).contains(&lo) && (1.0..=3.0).contains(&hi) {
                guarded(f, "refit", |f| match v.fit(&docs(p)) {
                    Ok(m) => {
                        let mut vocab: Vec<&str> = m.vocabulary().iter().map(|s| s.as_str()).collect();
                        vocab.sort();
                        f.text("refit_vocabulary", &vocab.join("\u{1f}"));
                    }
                    Err(e) => f.err("refit", &e),
                });
            }
        }
        // (after the fit, like the count vectoriser: a successful check caches the expression)
        f.text("debug", &format!("{v:?}"));
    }
}

// ---------------------------------------------------------------------------------------------
// error values that carry a rejected hyper-parameter
// ---------------------------------------------------------------------------------------------

fn err_obs<E: std::fmt::Debug + std::fmt::Display>(e: &E, f: &mut Fingerprint) {
    f.text("debug", &format!("{e:?}"));
    f.text("display", &e.to_string());
}
struct EnErrFam<const K: u8>;
impl<const K: u8> Family for EnErrFam<K> {
    type T = ElasticNetError;
    fn cases(_p: &P) -> Vec<(String, Self::T)> {
        let mut c = Vec::new();
        for (n, v) in fvals::<f32>(K) {
            c.push((lbl("InvalidL1Ratio", n), ElasticNetError::InvalidL1Ratio(v)));
            c.push((lbl("InvalidPenalty", n), ElasticNetError::InvalidPenalty(v)));
            c.push((lbl("InvalidTolerance", n), ElasticNetError::InvalidTolerance(v)));
        }
        c
    }
    fn observe(e: &Self::T, _p: &P, f: &mut Fingerprint) {
        err_obs(e, f);
        if let ElasticNetError::InvalidL1Ratio(v) | ElasticNetError::InvalidPenalty(v) | ElasticNetError::InvalidTolerance(v) = e {
            f.one("payload", *v);
        }
    }
}
struct FtErrFam<const K: u8>;
impl<const K: u8> Family for FtErrFam<K> {
    type T = FtrlError;
    fn cases(_p: &P) -> Vec<(String, Self::T)> {
        let mut c = Vec::new();
        for (n, v) in fvals::<f32>(K) {
            c.push((lbl("InvalidL1Ratio", n), FtrlError::InvalidL1Ratio(v)));
            c.push((lbl("InvalidL2Ratio", n), FtrlError::InvalidL2Ratio(v)));
            c.push((lbl("InvalidAlpha", n), FtrlError::InvalidAlpha(v)));
            c.push((lbl("InvalidBeta", n), FtrlError::InvalidBeta(v)));
        }
        for (n, v) in ints_if(K, usizes()) {
            c.push((lbl("InvalidNFeatures", n), FtrlError::InvalidNFeatures(v)));
        }
        c
    }
    fn observe(e: &Self::T, _p: &P, f: &mut Fingerprint) {
        err_obs(e, f);
        match e {
            FtrlError::InvalidL1Ratio(v) | FtrlError::InvalidL2Ratio(v) | FtrlError::InvalidAlpha(v) | FtrlError::InvalidBeta(v) => f.one("payload", *v),
            FtrlError::InvalidNFeatures(n) => f.one("payload", *n),
            _ => {}
        }
    }
}
struct PlattErrFam<const K: u8>;
impl<const K: u8> Family for PlattErrFam<K> {
    type T = PlattError;
    fn cases(_p: &P) -> Vec<(String, Self::T)> {
        let mut c = Vec::new();
        for (n, v) in fvals::<f32>(K) {
            c.push((lbl("MinStepNegative", n), PlattError::MinStepNegative(v)));
            c.push((lbl("SigmaNegative", n), PlattError::SigmaNegative(v)));
        }
        for (n, v) in ints_if(K, usizes()) {
            c.push((lbl("LinfaError.MismatchedShapes.0", n), PlattError::LinfaError(linfa::Error::MismatchedShapes(v, 7))));
            c.push((lbl("LinfaError.MismatchedShapes.1", n), PlattError::LinfaError(linfa::Error::MismatchedShapes(7, v))));
        }
        c
    }
    fn observe(e: &Self::T, _p: &P, f: &mut Fingerprint) {
        err_obs(e, f);
        match e {
            PlattError::MinStepNegative(v) | PlattError::SigmaNegative(v) => f.one("payload", *v),
            PlattError::LinfaError(linfa::Error::MismatchedShapes(a, b)) => f.seq("payload", [*a, *b]),
            _ => {}
        }
    }
}
struct CoreErrFam;
impl Family for CoreErrFam {
    type T = linfa::Error;
    fn cases(_p: &P) -> Vec<(String, Self::T)> {
        let mut c = Vec::new();
        for (n, v) in usizes() {
            c.push((lbl("MismatchedShapes.0", n), linfa::Error::MismatchedShapes(v, 7)));
            c.push((lbl("MismatchedShapes.1", n), linfa::Error::MismatchedShapes(7, v)));
        }
        c
    }
    fn observe(e: &Self::T, _p: &P, f: &mut Fingerprint) {
        err_obs(e, f);
        if let linfa::Error::MismatchedShapes(a, b) = e {
            f.seq("payload", [*a, *b]);
        }
    }
}

// ---------------------------------------------------------------------------------------------
// linfa-svm: the parameter sets do not derive serde, but the fitted model stores the kernel
// method with its parameters — awkward (finite, benign) kernel parameters through a fit
// ---------------------------------------------------------------------------------------------

struct SvmKernelFam;
impl Family for SvmKernelFam {
    type T = Svm<f64, bool>;
    fn cases(p: &P) -> Vec<(String, Self::T)> {
        let (x, y) = labelled::<f64>(p, 24);
        let ds = DatasetBase::new(x, y.mapv(|l| l % 2 == 0));
        let base = || Svm::<f64, bool>::params().pos_neg_weights(1.0, 1.0).eps(1e-3);
        let awkward = [("0.1+0.2", 0.1 + 0.2), ("1/3", 1.0 / 3.0), ("49", 49.0), ("30", 30.0), ("1+eps", 1.0 + f64::EPSILON), ("1-eps/2", 1.0 - f64::EPSILON / 2.0)];
        let mut c = Vec::new();
        for (n, v) in awkward {
            c.push((lbl("gaussian.eps", n), checked(|| base().gaussian_kernel(v).fit(&ds))));
            c.push((lbl("polynomial.constant", n), checked(|| base().polynomial_kernel(v, 2.0).fit(&ds))));
        }
        c.push((lbl("kernel", "linear"), checked(|| base().linear_kernel().fit(&ds))));
        c.into_iter().filter_map(|(l, v)| v.map(|v| (l, v))).collect()
    }
    fn observe(m: &Self::T, p: &P, f: &mut Fingerprint) {
        f.text("debug", &format!("{m:?}"));
        f.text("display", &m.to_string());
        guarded(f, "predict", |f| {
            let (x, _) = labelled::<f64>(p, 24);
            f.seq("weighted_sum", x.outer_iter().map(|r| m.weighted_sum(&r)));
            let y: Array1<bool> = m.predict(&x);
            f.arr("predict", &y);
        });
    }
}

// ---------------------------------------------------------------------------------------------
// registration
// ---------------------------------------------------------------------------------------------

pub fn register(r: &mut Registry) {
    register_clustering(r);
    register_supervised(r);
    register_preprocessing_and_errors(r);
}

fn register_clustering(r: &mut Registry) {
    const CL: &str = "linfa-clustering";
    const KM: &[&str] = &["KMeansParams", "KMeansValidParams", "KMeansInit", "L2Dist"];
    reg::<KmFam<f64, FIN>>(r, "ext_kmeans_params_floats", CL, KM);
    reg::<KmFam<f64, NONFIN>>(r, "ext_kmeans_params_nonfinite", CL, KM);
    reg::<KmFam<f64, INTS>>(r, "ext_kmeans_params_ints", CL, KM);
    reg::<KmFam<f32, FIN>>(r, "ext_kmeans_params_floats_f32", CL, KM);
    reg::<KmFam<f32, NONFIN>>(r, "ext_kmeans_params_nonfinite_f32", CL, KM);
    reg::<KmValidFam<f64, FIN>>(r, "ext_kmeans_valid_params_floats", CL, &KM[1..]);
    reg::<KmValidFam<f64, NONFIN>>(r, "ext_kmeans_valid_params_nonfinite", CL, &KM[1..]);
    reg::<KmValidFam<f64, INTS>>(r, "ext_kmeans_valid_params_ints", CL, &KM[1..]);
    const GM: &[&str] = &["GmmParams", "GmmValidParams", "GmmCovarType", "GmmInitMethod"];
    reg::<GmFam<f64, FIN>>(r, "ext_gmm_params_floats", CL, GM);
    reg::<GmFam<f64, NONFIN>>(r, "ext_gmm_params_nonfinite", CL, GM);
    reg::<GmFam<f64, INTS>>(r, "ext_gmm_params_ints", CL, GM);
    reg::<GmFam<f32, FIN>>(r, "ext_gmm_params_floats_f32", CL, GM);
    reg::<GmFam<f32, NONFIN>>(r, "ext_gmm_params_nonfinite_f32", CL, GM);
    reg::<GmValidFam<f64, FIN>>(r, "ext_gmm_valid_params_floats", CL, &GM[1..]);
    reg::<GmValidFam<f64, NONFIN>>(r, "ext_gmm_valid_params_nonfinite", CL, &GM[1..]);
    reg::<GmValidFam<f64, INTS>>(r, "ext_gmm_valid_params_ints", CL, &GM[1..]);
    const DB: &[&str] = &["DbscanValidParams", "L2Dist", "CommonNearestNeighbour"];
    reg::<DbFam<f64, FIN>>(r, "ext_dbscan_valid_params_floats", CL, DB);
    reg::<DbFam<f64, NONFIN>>(r, "ext_dbscan_valid_params_nonfinite", CL, DB);
    reg::<DbFam<f64, INTS>>(r, "ext_dbscan_valid_params_ints", CL, DB);
    reg::<DbFam<f32, FIN>>(r, "ext_dbscan_valid_params_floats_f32", CL, DB);
    reg::<DbFam<f32, NONFIN>>(r, "ext_dbscan_valid_params_nonfinite_f32", CL, DB);
    const OP: &[&str] = &["OpticsParams", "OpticsValidParams", "L2Dist", "CommonNearestNeighbour"];
    reg::<OpFam<f64, FIN>>(r, "ext_optics_params_floats", CL, OP);
    reg::<OpFam<f64, NONFIN>>(r, "ext_optics_params_nonfinite", CL, OP);
    reg::<OpFam<f64, INTS>>(r, "ext_optics_params_ints", CL, OP);
    reg::<OpFam<f32, FIN>>(r, "ext_optics_params_floats_f32", CL, OP);
    reg::<OpFam<f32, NONFIN>>(r, "ext_optics_params_nonfinite_f32", CL, OP);
    reg::<OpValidFam<f64, FIN>>(r, "ext_optics_valid_params_floats", CL, &OP[1..]);
    reg::<OpValidFam<f64, NONFIN>>(r, "ext_optics_valid_params_nonfinite", CL, &OP[1..]);
    reg::<OpValidFam<f64, INTS>>(r, "ext_optics_valid_params_ints", CL, &OP[1..]);
    const OL: &[&str] = &["OpticsParams", "OpticsValidParams", "LpDist", "CommonNearestNeighbour"];
    reg::<OpLpFam<f64, FIN>>(r, "ext_optics_params_lp_exponent_floats", CL, OL);
    reg::<OpLpFam<f64, NONFIN>>(r, "ext_optics_params_lp_exponent_nonfinite", CL, OL);
    const NN: &str = "linfa-nn";
    reg::<LpFam<f64, FIN>>(r, "ext_lpdist_floats", NN, &["LpDist"]);
    reg::<LpFam<f64, NONFIN>>(r, "ext_lpdist_nonfinite", NN, &["LpDist"]);
    reg::<LpFam<f32, FIN>>(r, "ext_lpdist_floats_f32", NN, &["LpDist"]);
    reg::<LpFam<f32, NONFIN>>(r, "ext_lpdist_nonfinite_f32", NN, &["LpDist"]);
    const KE: &str = "linfa-kernel";
    reg::<KernelFam<f64, FIN>>(r, "ext_kernel_method_floats", KE, &["KernelMethod"]);
    reg::<KernelFam<f64, NONFIN>>(r, "ext_kernel_method_nonfinite", KE, &["KernelMethod"]);
    reg::<KernelFam<f64, INTS>>(r, "ext_kernel_method_variants", KE, &["KernelMethod"]);
    reg::<KernelFam<f32, FIN>>(r, "ext_kernel_method_floats_f32", KE, &["KernelMethod"]);
    reg::<KernelFam<f32, NONFIN>>(r, "ext_kernel_method_nonfinite_f32", KE, &["KernelMethod"]);
}

fn register_supervised(r: &mut Registry) {
    const BA: &str = "linfa-bayes";
    reg::<GnbFam<f64, FIN>>(r, "ext_nb_gauss_valid_params_floats", BA, &["GaussianNbValidParams"]);
    reg::<GnbFam<f64, NONFIN>>(r, "ext_nb_gauss_valid_params_nonfinite", BA, &["GaussianNbValidParams"]);
    reg::<GnbFam<f32, FIN>>(r, "ext_nb_gauss_valid_params_floats_f32", BA, &["GaussianNbValidParams"]);
    reg::<GnbFam<f32, NONFIN>>(r, "ext_nb_gauss_valid_params_nonfinite_f32", BA, &["GaussianNbValidParams"]);
    reg::<MnbFam<f64, FIN>>(r, "ext_nb_multi_valid_params_floats", BA, &["MultinomialNbValidParams"]);
    reg::<MnbFam<f64, NONFIN>>(r, "ext_nb_multi_valid_params_nonfinite", BA, &["MultinomialNbValidParams"]);
    reg::<MnbFam<f32, FIN>>(r, "ext_nb_multi_valid_params_floats_f32", BA, &["MultinomialNbValidParams"]);
    reg::<MnbFam<f32, NONFIN>>(r, "ext_nb_multi_valid_params_nonfinite_f32", BA, &["MultinomialNbValidParams"]);
    const EN: &str = "linfa-elasticnet";
    const ENT: &[&str] = &["ElasticNetValidParamsBase"];
    reg::<EnFam<f64, FIN>>(r, "ext_enet_valid_params_floats", EN, ENT);
    reg::<EnFam<f64, NONFIN>>(r, "ext_enet_valid_params_nonfinite", EN, ENT);
    reg::<EnFam<f64, INTS>>(r, "ext_enet_valid_params_ints", EN, ENT);
    reg::<EnFam<f32, FIN>>(r, "ext_enet_valid_params_floats_f32", EN, ENT);
    reg::<EnFam<f32, NONFIN>>(r, "ext_enet_valid_params_nonfinite_f32", EN, ENT);
    reg::<EnMtFam<f64, FIN>>(r, "ext_enet_mt_valid_params_floats", EN, ENT);
    reg::<EnMtFam<f64, NONFIN>>(r, "ext_enet_mt_valid_params_nonfinite", EN, ENT);
    reg::<EnMtFam<f64, INTS>>(r, "ext_enet_mt_valid_params_ints", EN, ENT);
    reg_noeq::<EnErrFam<FIN>>(r, "ext_enet_error_floats", EN, &["ElasticNetError"]);
    reg_noeq::<EnErrFam<NONFIN>>(r, "ext_enet_error_nonfinite", EN, &["ElasticNetError"]);
    const FT: &str = "linfa-ftrl";
    const FTT: &[&str] = &["FtrlParams", "FtrlValidParams"];
    reg::<FtFam<f64, FIN>>(r, "ext_ftrl_params_floats", FT, FTT);
    reg::<FtFam<f64, NONFIN>>(r, "ext_ftrl_params_nonfinite", FT, FTT);
    reg::<FtFam<f64, INTS>>(r, "ext_ftrl_params_seeds", FT, FTT);
    reg::<FtFam<f32, FIN>>(r, "ext_ftrl_params_floats_f32", FT, FTT);
    reg::<FtFam<f32, NONFIN>>(r, "ext_ftrl_params_nonfinite_f32", FT, FTT);
    reg::<FtValidFam<f64, FIN>>(r, "ext_ftrl_valid_params_floats", FT, &FTT[1..]);
    reg::<FtValidFam<f64, INTS>>(r, "ext_ftrl_valid_params_seeds", FT, &FTT[1..]);
    reg_noeq::<FtModelFam<f64, FIN>>(r, "ext_ftrl_model_rates_floats", FT, &["Ftrl"]);
    reg_noeq::<FtModelFam<f32, FIN>>(r, "ext_ftrl_model_rates_floats_f32", FT, &["Ftrl"]);
    reg_noeq::<FtErrFam<FIN>>(r, "ext_ftrl_error_floats", FT, &["FtrlError"]);
    reg_noeq::<FtErrFam<NONFIN>>(r, "ext_ftrl_error_nonfinite", FT, &["FtrlError"]);
    reg_noeq::<FtErrFam<INTS>>(r, "ext_ftrl_error_ints", FT, &["FtrlError"]);
    const IC: &str = "linfa-ica";
    const ICT: &[&str] = &["FastIcaValidParams", "GFunc"];
    reg::<IcaFam<f64, FIN>>(r, "ext_ica_valid_params_floats", IC, ICT);
    reg::<IcaFam<f64, NONFIN>>(r, "ext_ica_valid_params_nonfinite", IC, ICT);
    reg::<IcaFam<f64, INTS>>(r, "ext_ica_valid_params_ints", IC, ICT);
    reg::<IcaFam<f32, FIN>>(r, "ext_ica_valid_params_floats_f32", IC, ICT);
    reg::<IcaFam<f32, NONFIN>>(r, "ext_ica_valid_params_nonfinite_f32", IC, ICT);
    reg::<GFuncFam<FIN>>(r, "ext_ica_gfunc_floats", IC, &["GFunc"]);
    reg::<GFuncFam<NONFIN>>(r, "ext_ica_gfunc_nonfinite", IC, &["GFunc"]);
    reg::<GFuncFam<INTS>>(r, "ext_ica_gfunc_variants", IC, &["GFunc"]);
    const LI: &str = "linfa-linear";
    const TWT: &[&str] = &["TweedieRegressorValidParams", "Link"];
    reg::<Tw64Fam<FIN>>(r, "ext_glm_valid_params_floats", LI, TWT);
    reg::<Tw64Fam<NONFIN>>(r, "ext_glm_valid_params_nonfinite", LI, TWT);
    reg::<Tw64Fam<INTS>>(r, "ext_glm_valid_params_ints", LI, TWT);
    reg::<Tw32Fam<FIN>>(r, "ext_glm_valid_params_floats_f32", LI, TWT);
    reg::<Tw32Fam<NONFIN>>(r, "ext_glm_valid_params_nonfinite_f32", LI, TWT);
    reg::<LinkFam>(r, "ext_glm_link_variants", LI, &["Link"]);
    const LO: &str = "linfa-logistic";
    const LGT: &[&str] = &["LogisticRegressionParams", "LogisticRegressionValidParams"];
    reg::<Lg64Fam<FIN>>(r, "ext_logistic_params_floats", LO, LGT);
    reg::<Lg64Fam<NONFIN>>(r, "ext_logistic_params_nonfinite", LO, LGT);
    reg::<Lg64Fam<INTS>>(r, "ext_logistic_params_ints", LO, LGT);
    reg::<Lg32Fam<FIN>>(r, "ext_logistic_params_floats_f32", LO, LGT);
    reg::<Lg32Fam<NONFIN>>(r, "ext_logistic_params_nonfinite_f32", LO, LGT);
    reg::<Lg64ValidFam<FIN>>(r, "ext_logistic_valid_params_floats", LO, &LGT[1..]);
    reg::<Lg64ValidFam<INTS>>(r, "ext_logistic_valid_params_ints", LO, &LGT[1..]);
    reg::<LgM64Fam<FIN>>(r, "ext_logistic_multi_params_floats", LO, LGT);
    reg::<LgM64Fam<NONFIN>>(r, "ext_logistic_multi_params_nonfinite", LO, LGT);
    reg::<LgM64Fam<INTS>>(r, "ext_logistic_multi_params_ints", LO, LGT);
    reg::<LgM32Fam<FIN>>(r, "ext_logistic_multi_params_floats_f32", LO, LGT);
    reg::<LgM32Fam<NONFIN>>(r, "ext_logistic_multi_params_nonfinite_f32", LO, LGT);
    reg::<LgM64ValidFam<FIN>>(r, "ext_logistic_multi_valid_params_floats", LO, &LGT[1..]);
    reg::<LgM64ValidFam<INTS>>(r, "ext_logistic_multi_valid_params_ints", LO, &LGT[1..]);
    reg::<SvmKernelFam>(r, "ext_svm_model_kernel_params", "linfa-svm", &["Svm", "KernelMethod", "SeparatingHyperplane", "ExitReason"]);
    reg::<PlsSvdFam>(r, "ext_pls_svd_params_ints", "linfa-pls", &["PlsSvdParams"]);
    reg::<PcaFam>(r, "ext_pca_params_ints", "linfa-reduction", &["PcaParams"]);
    const TR: &str = "linfa-trees";
    const TRT: &[&str] = &["DecisionTreeParams", "DecisionTreeValidParams", "SplitQuality"];
    reg::<TrFam<f64, FIN>>(r, "ext_tree_params_floats", TR, TRT);
    reg::<TrFam<f64, NONFIN>>(r, "ext_tree_params_nonfinite", TR, TRT);
    reg::<TrFam<f64, INTS>>(r, "ext_tree_params_ints", TR, TRT);
    reg::<TrFam<f32, FIN>>(r, "ext_tree_params_floats_f32", TR, TRT);
    reg::<TrFam<f32, NONFIN>>(r, "ext_tree_params_nonfinite_f32", TR, TRT);
    reg::<TrValidFam<f64, FIN>>(r, "ext_tree_valid_params_floats", TR, &TRT[1..]);
    reg::<TrValidFam<f64, NONFIN>>(r, "ext_tree_valid_params_nonfinite", TR, &TRT[1..]);
    reg::<TrValidFam<f64, INTS>>(r, "ext_tree_valid_params_ints", TR, &TRT[1..]);
}

fn register_preprocessing_and_errors(r: &mut Registry) {
    const PR: &str = "linfa-preprocessing";
    reg::<SmFam<f64, FIN>>(r, "ext_scaling_method_floats", PR, &["ScalingMethod"]);
    reg::<SmFam<f64, NONFIN>>(r, "ext_scaling_method_nonfinite", PR, &["ScalingMethod"]);
    reg::<SmFam<f64, INTS>>(r, "ext_scaling_method_variants", PR, &["ScalingMethod"]);
    reg::<SmFam<f32, FIN>>(r, "ext_scaling_method_floats_f32", PR, &["ScalingMethod"]);
    reg::<SmFam<f32, NONFIN>>(r, "ext_scaling_method_nonfinite_f32", PR, &["ScalingMethod"]);
    const SP: &[&str] = &["LinearScalerParams", "ScalingMethod"];
    reg::<SpFam<f64, FIN>>(r, "ext_scaler_params_floats", PR, SP);
    reg::<SpFam<f64, NONFIN>>(r, "ext_scaler_params_nonfinite", PR, SP);
    reg::<SpFam<f64, INTS>>(r, "ext_scaler_params_variants", PR, SP);
    reg::<SpFam<f32, FIN>>(r, "ext_scaler_params_floats_f32", PR, SP);
    const SC: &[&str] = &["LinearScaler", "ScalingMethod"];
    reg::<ScalerFam<f64, FIN>>(r, "ext_scaler_model_range_floats", PR, SC);
    reg::<ScalerFam<f64, NONFIN>>(r, "ext_scaler_model_range_nonfinite", PR, SC);
    reg::<ScalerFam<f32, FIN>>(r, "ext_scaler_model_range_floats_f32", PR, SC);
    reg::<SelectorFam>(r, "ext_preprocessing_selector_variants", PR, &["NormScaler", "Norms", "Whitener", "WhiteningMethod", "TfIdfMethod"]);
    const CV: &[&str] = &["CountVectorizerParams", "CountVectorizerValidParams", "SerdeRegex"];
    reg_noeq::<CvFam<FIN>>(r, "ext_cv_params_floats", PR, CV);
    reg_noeq::<CvFam<NONFIN>>(r, "ext_cv_params_nonfinite", PR, CV);
    reg_noeq::<CvFam<INTS>>(r, "ext_cv_params_ints", PR, CV);
    reg_noeq::<CvValidFam<FIN>>(r, "ext_cv_valid_params_floats", PR, &CV[1..]);
    reg_noeq::<CvValidFam<NONFIN>>(r, "ext_cv_valid_params_nonfinite", PR, &CV[1..]);
    reg_noeq::<CvValidFam<INTS>>(r, "ext_cv_valid_params_ints", PR, &CV[1..]);
    const TF: &[&str] = &["TfIdfVectorizer", "CountVectorizerParams", "TfIdfMethod"];
    reg_noeq::<TfIdfFam<FIN>>(r, "ext_tfidf_params_floats", PR, TF);
    reg_noeq::<TfIdfFam<NONFIN>>(r, "ext_tfidf_params_nonfinite", PR, TF);
    reg_noeq::<TfIdfFam<INTS>>(r, "ext_tfidf_params_ints", PR, TF);
    const CO: &str = "linfa";
    reg_noeq::<PlattErrFam<FIN>>(r, "ext_platt_error_floats", CO, &["PlattError"]);
    reg_noeq::<PlattErrFam<NONFIN>>(r, "ext_platt_error_nonfinite", CO, &["PlattError"]);
    reg_noeq::<PlattErrFam<INTS>>(r, "ext_platt_error_ints", CO, &["PlattError", "Error"]);
    reg_noeq::<CoreErrFam>(r, "ext_core_error_ints", CO, &["Error"]);
}
