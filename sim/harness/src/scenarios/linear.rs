//! Linear-model family: linfa-linear (OLS, isotonic, Tweedie GLM), linfa-elasticnet,
//! linfa-logistic, linfa-pls.  Nothing here touches rayon (`uses_pool = false`).
//!
//! UNREACHABLE (derive serde but cannot be named / built through the public API):
//! - linfa-logistic `ArgminParam<F, D>`: lives in the private module `argmin_param`, never re-exported.
//! - linfa-pls `Pls<F>`: `pub(crate)`; only reached wrapped inside `PlsRegression` / `PlsCanonical` / `PlsCca`.
//! NOT SERDE (listed in the brief, but carry no `Serialize`/`Deserialize` derive, hence no C19 entry):
//! - linfa-linear `TweedieRegressorParams` (only `TweedieRegressorValidParams` derives serde)
//! - linfa-elasticnet `ElasticNetParamsBase` (only `ElasticNetValidParamsBase` derives serde)
//! - linfa-pls `PlsRegressionParams/ValidParams`, `PlsCanonicalParams/..`, `PlsCcaParams/..`, `PlsSvd<F>`
//!   (only `PlsSvdParams` and the three fitted wrappers derive serde)
//! An *invalid* `…ValidParams` value cannot be constructed (fields private, `check()` refuses), so the
//! invalid parameter entries exist only for the unchecked types that derive serde
//! (`LogisticRegressionParams`) and for `PlsSvdParams` (validated at fit time).

use crate::data;
use crate::fp::{Bits, Fingerprint};
use crate::prng::Prng;
use crate::scen::{Kind, Registry, P};
use linfa::prelude::*;
use linfa::Dataset;
use linfa_elasticnet::{
    ElasticNet, ElasticNetError, ElasticNetParamsBase, ElasticNetValidParamsBase, MultiTaskElasticNet,
};
use linfa_linear::{
    FittedIsotonicRegression, FittedLinearRegression, IsotonicRegression, LinearRegression, Link, TweedieRegressor,
    TweedieRegressorValidParams,
};
use linfa_logistic::{
    BinaryClassLabels, ClassLabel, FittedLogisticRegression, LogisticRegression, MultiFittedLogisticRegression,
    MultiLogisticRegression, ValidLogisticRegression, ValidMultiLogisticRegression,
};
use linfa_pls::{Algorithm, PlsCanonical, PlsCca, PlsRegression, PlsSvd, PlsSvdParams};
use ndarray::{Array, Array1, Array2, Axis, Dimension};

// ------------------------------------------------------------------ data

fn dims(p: &P) -> (usize, usize) {
    p.pick((24, 3), (300, 6), (3000, 10))
}
fn nq(p: &P) -> usize {
    p.pick(9, 60, 300)
}

#[derive(Clone, Copy, PartialEq, Debug)]
enum Scale {
    /// offset and badly scaled columns (1, 10, 0.1, 100)
    Wild,
    /// offset, mildly different scales: for models that exponentiate the linear predictor
    Mild,
}

/// design matrix with offset / badly scaled columns, one quantised column (many exactly equal
/// values), exact duplicate rows and optionally one exactly collinear column
fn design(r: &mut Prng, n: usize, d: usize, scale: Scale, collinear: bool) -> Array2<f64> {
    let mut x = Array2::<f64>::zeros((n, d));
    for i in 0..n {
        for j in 0..d {
            let v = r.normal();
            x[[i, j]] = match scale {
                Scale::Wild => [1.0, 10.0, 0.1, 100.0][j % 4] * (v + j as f64),
                Scale::Mild => [1.0, 0.5, 2.0, 0.25][j % 4] * (v + 0.3 * j as f64),
            };
        }
    }
    if d >= 2 {
        for i in 0..n {
            x[[i, 1]] = (x[[i, 1]] * 2.0).round() / 2.0;
        }
    }
    for i in (3..n).step_by(5) {
        for j in 0..d {
            x[[i, j]] = x[[i - 3, j]];
        }
    }
    if collinear && d >= 3 {
        for i in 0..n {
            x[[i, d - 1]] = x[[i, 0]] + x[[i, 1]];
        }
    }
    x
}

fn true_w(d: usize, t: usize, scale: Scale) -> Array2<f64> {
    let k = if scale == Scale::Mild { 0.2 } else { 1.0 };
    Array2::from_shape_fn((d, t), |(j, c)| k * (((j * 3 + 2 * c) % 5) as f64 - 2.0))
}

/// `(x, y, queries)`; duplicate rows carry conflicting targets (fresh noise)
fn reg_data(p: &P, scale: Scale, collinear: bool) -> (Array2<f64>, Array1<f64>, Array2<f64>) {
    let (x, y, q) = mt_data(p, scale, collinear, 1);
    (x, y.column(0).to_owned(), q)
}

fn mt_data(p: &P, scale: Scale, collinear: bool, t: usize) -> (Array2<f64>, Array2<f64>, Array2<f64>) {
    let (n, d) = dims(p);
    let mut r = p.rng(0x4c31);
    let x = design(&mut r, n, d, scale, collinear);
    let mut y = x.dot(&true_w(d, t, scale)) + 1.5;
    for v in y.iter_mut() {
        *v += 0.1 * r.normal();
    }
    let q = data::queries(&mut p.rng(0x4c32), &x, nq(p));
    (x, y, q)
}

fn cast2<F: Float>(a: &Array2<f64>) -> Array2<F> {
    a.mapv(|v| F::cast(v))
}
fn cast1<F: Float>(a: &Array1<f64>) -> Array1<F> {
    a.mapv(|v| F::cast(v))
}

/// predictions for the first query rows, one row at a time
fn singles<F: Clone, T, D: Dimension>(q: &Array2<F>, pred: impl Fn(&Array2<F>) -> Array<T, D>) -> Vec<T> {
    q.axis_iter(Axis(0)).take(6).flat_map(|r| pred(&r.insert_axis(Axis(0)).to_owned()).into_iter()).collect()
}

// ------------------------------------------------------------------ OLS

fn fp_ols<F: Float + Bits>(m: &FittedLinearRegression<F>, x: &Array2<F>, q: &Array2<F>, f: &mut Fingerprint) {
    f.arr("params", m.params());
    f.one("intercept", m.intercept());
    let a: Array1<F> = m.predict(x);
    f.arr("predict_train", &a);
    let b: Array1<F> = m.predict(q);
    f.arr("predict_query", &b);
    f.seq("predict_single", singles(q, |r| -> Array1<F> { m.predict(r) }));
}

#[derive(Clone, Copy)]
struct OlsCfg {
    /// `None`: `LinearRegression::default()` untouched
    intercept: Option<bool>,
    collinear: bool,
    view: bool,
    /// keep only `d - 1` rows (under-determined)
    wide: bool,
}

fn ols_model(c: OlsCfg) -> LinearRegression {
    match c.intercept {
        None => LinearRegression::default(),
        Some(b) => LinearRegression::new().with_intercept(b),
    }
}

fn ols_run<F: Float + Bits>(p: &P, c: OlsCfg) -> Fingerprint {
    let (x, y, q) = reg_data(p, Scale::Wild, c.collinear);
    let (mut x, mut y, q) = (cast2::<F>(&x), cast1::<F>(&y), cast2::<F>(&q));
    if c.wide {
        let keep = x.ncols() - 1;
        x = x.slice(ndarray::s![..keep, ..]).to_owned();
        y = y.slice(ndarray::s![..keep]).to_owned();
    }
    let mut f = Fingerprint::new();
    let res = if c.view { ols_model(c).fit(&DatasetBase::new(x.view(), y.view())) } else { ols_model(c).fit(&Dataset::new(x.clone(), y.clone())) };
    match res {
        Ok(m) => fp_ols(&m, &x, &q, &mut f),
        Err(e) => f.err("fit", &e),
    }
    f
}

fn ols_build<F: Float>(p: &P) -> FittedLinearRegression<F> {
    let (x, y, _) = reg_data(p, Scale::Wild, false);
    LinearRegression::new().with_intercept(p.seed % 2 == 1).fit(&Dataset::new(cast2::<F>(&x), cast1::<F>(&y))).expect("ols fit")
}
fn ols_fp<F: Float + Bits>(m: &FittedLinearRegression<F>, p: &P, f: &mut Fingerprint) {
    let (x, _, q) = reg_data(p, Scale::Wild, false);
    fp_ols(m, &cast2::<F>(&x), &cast2::<F>(&q), f);
}

fn register_ols(r: &mut Registry) {
    const K: &str = "linfa-linear";
    let base = OlsCfg { intercept: Some(true), collinear: false, view: false, wide: false };
    r.scenario("ols_intercept", K, Kind::Claim, false, move |p| ols_run::<f64>(p, base));
    r.scenario("ols_no_intercept", K, Kind::Claim, false, move |p| ols_run::<f64>(p, OlsCfg { intercept: Some(false), ..base }));
    r.scenario("ols_default", K, Kind::Claim, false, move |p| ols_run::<f64>(p, OlsCfg { intercept: None, ..base }));
    r.scenario("ols_f32", K, Kind::Claim, false, move |p| ols_run::<f32>(p, base));
    r.scenario("ols_f32_no_intercept", K, Kind::Claim, false, move |p| ols_run::<f32>(p, OlsCfg { intercept: Some(false), ..base }));
    r.scenario("ols_collinear", K, Kind::Claim, false, move |p| ols_run::<f64>(p, OlsCfg { collinear: true, ..base }));
    r.scenario("ols_view", K, Kind::Claim, false, move |p| ols_run::<f64>(p, OlsCfg { view: true, ..base }));
    r.scenario("ols_wide", K, Kind::Claim, false, move |p| ols_run::<f64>(p, OlsCfg { wide: true, intercept: Some(false), ..base }));
    r.model::<FittedLinearRegression<f64>>("ols_model", K, &["FittedLinearRegression"], Some((Kind::Claim, false)), ols_build::<f64>, ols_fp::<f64>, Some(|a, b| a == b));
    r.model::<FittedLinearRegression<f32>>("ols_model_f32", K, &["FittedLinearRegression"], Some((Kind::Claim, false)), ols_build::<f32>, ols_fp::<f32>, Some(|a, b| a == b));
    r.model::<LinearRegression>(
        "ols_params",
        K,
        &["LinearRegression"],
        None,
        |p| LinearRegression::new().with_intercept(p.seed % 2 == 0),
        |v, p, f| {
            f.text("debug", &format!("{v:?}"));
            let (x, y, q) = reg_data(p, Scale::Wild, false);
            match v.fit(&Dataset::new(x.clone(), y)) {
                Ok(m) => fp_ols(&m, &x, &q, f),
                Err(e) => f.err("fit", &e),
            }
        },
        Some(|a, b| a == b),
    );
}

// ------------------------------------------------------------------ isotonic

#[derive(Clone, Copy, PartialEq)]
enum IsoKind {
    Increasing,
    Decreasing,
    Sorted,
    ConstantX,
}

/// 1-d regressor on a coarse grid (many ties in x), offset by 100; conflicting y at tied x
fn iso_data(p: &P, kind: IsoKind) -> (Array2<f64>, Array1<f64>, Array1<f32>, Array2<f64>) {
    let n = p.pick(20, 300, 3000);
    let mut r = p.rng(0x150);
    let levels = (n / 3).max(4) as u64;
    let mut xs: Vec<f64> = (0..n).map(|_| 100.0 + 0.5 * r.below(levels) as f64).collect();
    match kind {
        IsoKind::Sorted => xs.sort_by(|a, b| a.total_cmp(b)),
        IsoKind::ConstantX => xs.iter_mut().for_each(|v| *v = 100.0),
        _ => {}
    }
    // both zeros: they compare equal but have different bit patterns
    if n >= 8 && kind != IsoKind::ConstantX && kind != IsoKind::Sorted {
        xs[1] = 0.0;
        xs[n / 2] = -0.0;
        xs[n - 2] = 0.0;
        xs[3] = -0.0;
    }
    let slope = if kind == IsoKind::Decreasing { -0.3 } else { 0.3 };
    let y = Array1::from_iter(xs.iter().map(|&v| ((slope * (v - 100.0) + 2.0 * r.normal()) * 4.0).round() / 4.0));
    let w = Array1::from_iter((0..n).map(|_| *r.pick(&[0.5f32, 1.0, 2.0, 1.0])));
    let m = nq(p);
    let hi = 100.0 + 0.5 * levels as f64;
    let q = Array2::from_shape_fn((m, 1), |(i, _)| match i % 3 {
        0 => xs[(i * 31) % n],
        1 => 99.0 + (hi - 98.0) * (i as f64 / m as f64),
        _ => 100.0 + 0.25 * r.below(2 * levels + 4) as f64 - 1.0,
    });
    (Array2::from_shape_vec((n, 1), xs).unwrap(), y, w, q)
}

fn fp_iso<F: linfa_linear::Float + Bits>(m: &FittedIsotonicRegression<F>, x: &Array2<F>, q: &Array2<F>, f: &mut Fingerprint) {
    // no accessors: the fitted knots are only observable through Debug and predictions
    f.text("debug", &format!("{m:?}"));
    let a: Array1<F> = m.predict(x);
    f.arr("predict_train", &a);
    let b: Array1<F> = m.predict(q);
    f.arr("predict_query", &b);
    f.seq("predict_single", singles(q, |r| -> Array1<F> { m.predict(r) }));
    // queries with missing values (NaN): whatever the answer for such a row is, it is a function of the input
    let mut qn = q.clone();
    for i in (0..qn.nrows()).step_by(3) {
        qn[[i, 0]] = F::nan();
    }
    // (some heap traffic of the same size class first, as a program would have)
    drop(std::hint::black_box(vec![F::one(); qn.nrows()]));
    let c: Array1<F> = m.predict(&qn);
    f.arr("predict_query_with_nan_rows", &c);
}

fn iso_run<F: linfa_linear::Float + Bits>(p: &P, kind: IsoKind, weighted: bool) -> Fingerprint {
    let (x, y, w, q) = iso_data(p, kind);
    let (x, y, q) = (cast2::<F>(&x), cast1::<F>(&y), cast2::<F>(&q));
    let mut ds = Dataset::new(x.clone(), y);
    if weighted {
        ds = ds.with_weights(w);
    }
    let mut f = Fingerprint::new();
    match IsotonicRegression::new().fit(&ds) {
        Ok(m) => fp_iso(&m, &x, &q, &mut f),
        Err(e) => f.err("fit", &e),
    }
    f
}

fn register_isotonic(r: &mut Registry) {
    const K: &str = "linfa-linear";
    r.scenario("isotonic_increasing", K, Kind::Claim, false, |p| iso_run::<f64>(p, IsoKind::Increasing, false));
    r.scenario("isotonic_decreasing", K, Kind::Claim, false, |p| iso_run::<f64>(p, IsoKind::Decreasing, false));
    r.scenario("isotonic_weighted", K, Kind::Claim, false, |p| iso_run::<f64>(p, IsoKind::Increasing, true));
    r.scenario("isotonic_decreasing_weighted", K, Kind::Claim, false, |p| iso_run::<f64>(p, IsoKind::Decreasing, true));
    r.scenario("isotonic_sorted", K, Kind::Claim, false, |p| iso_run::<f64>(p, IsoKind::Sorted, false));
    r.scenario("isotonic_sorted_weighted", K, Kind::Claim, false, |p| iso_run::<f64>(p, IsoKind::Sorted, true));
    r.scenario("isotonic_constant_x", K, Kind::Claim, false, |p| iso_run::<f64>(p, IsoKind::ConstantX, false));
    r.scenario("isotonic_f32", K, Kind::Claim, false, |p| iso_run::<f32>(p, IsoKind::Increasing, true));
    r.model::<FittedIsotonicRegression<f64>>(
        "isotonic_model",
        K,
        &["FittedIsotonicRegression"],
        Some((Kind::Claim, false)),
        |p| {
            let (x, y, w, _) = iso_data(p, IsoKind::Sorted);
            IsotonicRegression::default().fit(&Dataset::new(x, y).with_weights(w)).expect("isotonic fit")
        },
        |m, p, f| {
            let (x, _, _, q) = iso_data(p, IsoKind::Sorted);
            fp_iso(m, &x, &q, f)
        },
        Some(|a, b| a == b),
    );
    r.model::<FittedIsotonicRegression<f32>>(
        "isotonic_model_f32",
        K,
        &["FittedIsotonicRegression"],
        Some((Kind::Claim, false)),
        |p| {
            let (x, y, _, _) = iso_data(p, IsoKind::Increasing);
            IsotonicRegression::default().fit(&Dataset::new(cast2::<f32>(&x), cast1::<f32>(&y))).expect("isotonic fit")
        },
        |m, p, f| {
            let (x, _, _, q) = iso_data(p, IsoKind::Increasing);
            fp_iso(m, &cast2::<f32>(&x), &cast2::<f32>(&q), f)
        },
        Some(|a, b| a == b),
    );
    r.model::<IsotonicRegression>(
        "isotonic_params",
        K,
        &["IsotonicRegression"],
        None,
        |_| IsotonicRegression::new(),
        |v, p, f| {
            f.text("debug", &format!("{v:?}"));
            let (x, y, w, q) = iso_data(p, IsoKind::Increasing);
            match v.fit(&Dataset::new(x.clone(), y).with_weights(w)) {
                Ok(m) => fp_iso(&m, &x, &q, f),
                Err(e) => f.err("fit", &e),
            }
        },
        Some(|a, b| a == b),
    );
}

// ------------------------------------------------------------------ Tweedie GLM

#[derive(Clone, Copy)]
struct GlmCfg {
    power: f64,
    link: Option<Link>,
    alpha: f64,
    intercept: bool,
    /// `TweedieRegressor::params()` with only the iteration cap set
    default: bool,
}

/// mild collinear design; the target's range follows the distribution (`power`) and link:
/// logit → (0,1) on a 1/50 grid; power ≤ 0 → reals; [1,2) → counts with zeros; ≥ 2 → positive 1/8 grid
/// linfa's Poisson deviance is not the integral of its gradient, so every line search runs long:
/// fewer outer iterations keep the cost bounded
fn glm_iters(power: f64) -> usize {
    if (power - 1.0).abs() < 1e-6 {
        10
    } else {
        40
    }
}

fn glm_shrink(n: usize) -> f64 {
    1.5 / (n as f64).sqrt()
}

fn glm_data(p: &P, power: f64, link: Option<Link>) -> (Array2<f64>, Array1<f64>, Array2<f64>) {
    let (n, d) = dims(p);
    let mut r = p.rng(0x61);
    // features shrunk by ~1/sqrt(n): the solver's first step is the raw gradient (a sum over rows)
    // and larger designs send exp(linear predictor) to inf/NaN, on which the line search never returns
    let k = glm_shrink(n);
    let x0 = design(&mut r, n, d, Scale::Mild, true);
    let x = x0.mapv(|v| v * k);
    let w = Array1::from_shape_fn(d, |j| 0.15 / k * (((j * 3) % 5) as f64 - 2.0));
    let eta = x.dot(&w) + 0.2;
    let y = eta.mapv(|e| {
        let e = e.clamp(-3.0, 3.0);
        if link == Some(Link::Logit) {
            let m = 1.0 / (1.0 + (-e).exp());
            ((0.1 + 0.8 * m + 0.05 * r.normal()).clamp(0.02, 0.98) * 50.0).round() / 50.0
        } else if power <= 0.0 {
            ((e + 0.3 * r.normal()) * 16.0).round() / 16.0
        } else if power < 2.0 {
            (e.exp() * (0.5 + r.unit())).round()
        } else {
            (e.exp() * (0.5 + r.unit()) * 8.0).round() / 8.0 + 0.125
        }
    });
    let q = data::queries(&mut p.rng(0x62), &x0, nq(p)).mapv(|v| v.clamp(-6.0, 6.0) * k);
    (x, y, q)
}

// linfa-linear's GLM `Float` trait is private, so the float type is instantiated by macro
macro_rules! glm_impl {
    ($F:ty, $fp:ident, $params:ident, $run:ident) => {
        fn $fp(m: &TweedieRegressor<$F>, x: &Array2<$F>, q: &Array2<$F>, f: &mut Fingerprint) {
            f.arr("coef", &m.coef);
            f.one("intercept", m.intercept);
            // the link is private: observable through Debug and through predictions
            f.text("debug", &format!("{m:?}"));
            let a: Array1<$F> = m.predict(x);
            f.arr("predict_train", &a);
            let b: Array1<$F> = m.predict(q);
            f.arr("predict_query", &b);
            f.seq("predict_single", singles(q, |r| -> Array1<$F> { m.predict(r) }));
        }
        fn $params(c: GlmCfg) -> linfa_linear::TweedieRegressorParams<$F> {
            if c.default {
                // everything default (power 1, automatic log link, alpha 1) except the iteration cap
                return TweedieRegressor::<$F>::params().max_iter(10);
            }
            let mut params = TweedieRegressor::<$F>::params().alpha(c.alpha as $F).power(c.power as $F).fit_intercept(c.intercept).max_iter(glm_iters(c.power)).tol(1e-5);
            if let Some(l) = c.link {
                params = params.link(l);
            }
            params
        }
        fn $run(p: &P, c: GlmCfg) -> Fingerprint {
            let (x, y, q) = glm_data(p, c.power, c.link);
            let (x, y, q) = (x.mapv(|v| v as $F), y.mapv(|v| v as $F), q.mapv(|v| v as $F));
            let mut f = Fingerprint::new();
            match $params(c).fit(&Dataset::new(x.clone(), y)) {
                Ok(m) => $fp(&m, &x, &q, &mut f),
                Err(e) => f.err("fit", &e),
            }
            f
        }
    };
}
glm_impl!(f64, fp_glm64, glm_params64, glm_run64);
glm_impl!(f32, fp_glm32, glm_params32, glm_run32);

const GLM_MODEL: GlmCfg = GlmCfg { power: 1.5, link: Some(Link::Log), alpha: 0.05, intercept: true, default: false };

fn fp_glm_valid(v: &TweedieRegressorValidParams<f64>, p: &P, f: &mut Fingerprint) {
    f.one("alpha", v.alpha());
    f.one("fit_intercept", v.fit_intercept());
    f.one("power", v.power());
    f.text("link", &format!("{:?}", v.link()));
    f.one("max_iter", v.max_iter());
    f.one("tol", v.tol());
    f.text("debug", &format!("{v:?}"));
    let (x, y, q) = glm_data(p, v.power(), Some(v.link()));
    match v.fit(&Dataset::new(x.clone(), y)) {
        Ok(m) => fp_glm64(&m, &x, &q, f),
        Err(e) => f.err("fit", &e),
    }
}

fn fp_link(l: &Link, p: &P, f: &mut Fingerprint) {
    f.text("debug", &format!("{l:?}"));
    let mut r = p.rng(0x63);
    let mu = Array1::from_iter((0..16).map(|_| r.range(0.05, 0.95)));
    let eta = Array1::from_iter((0..16).map(|_| r.range(-3.0, 3.0)));
    f.arr("link", &l.link(&mu));
    f.arr("link_derivative", &l.link_derivative(&mu));
    f.arr("inverse", &l.inverse(&eta));
    f.arr("inverse_derivative", &l.inverse_derviative(&eta));
    f.arr("inverse_f32", &l.inverse(&eta.mapv(|v| v as f32)));
    let power = if *l == Link::Log { 2.0 } else { 0.0 };
    f.extend("fit.", glm_run64(p, GlmCfg { power, link: Some(*l), alpha: 0.1, intercept: true, default: false }));
}

fn register_glm(r: &mut Registry) {
    const K: &str = "linfa-linear";
    for (pname, power) in [("p0", 0.0), ("p1", 1.0), ("p15", 1.5), ("p2", 2.0), ("p3", 3.0)] {
        for (lname, link) in [("identity", Link::Identity), ("log", Link::Log), ("logit", Link::Logit)] {
            // left out: linfa's fit never returns on these (NaN cost inside argmin's unbounded line search)
            if (power == 0.0 && link == Link::Log) || (power == 1.5 && link == Link::Identity) {
                continue;
            }
            let c = GlmCfg { power, link: Some(link), alpha: 0.1, intercept: true, default: false };
            r.scenario(&format!("glm_{pname}_{lname}"), K, Kind::Claim, false, move |p| glm_run64(p, c));
        }
    }
    let base = GlmCfg { power: 1.0, link: Some(Link::Log), alpha: 0.0, intercept: false, default: false };
    r.scenario("glm_default", K, Kind::Claim, false, move |p| glm_run64(p, GlmCfg { default: true, ..base }));
    r.scenario("glm_p0_auto_noint_a0", K, Kind::Claim, false, move |p| glm_run64(p, GlmCfg { power: 0.0, link: None, ..base }));
    r.scenario("glm_p1_auto_a0", K, Kind::Claim, false, move |p| glm_run64(p, GlmCfg { link: None, intercept: true, ..base }));
    r.scenario("glm_p1_log_noint_a0", K, Kind::Claim, false, move |p| glm_run64(p, base));
    r.scenario("glm_p2_log_noint", K, Kind::Claim, false, move |p| glm_run64(p, GlmCfg { power: 2.0, alpha: 0.5, ..base }));
    r.scenario("glm_p3_log_a0", K, Kind::Claim, false, move |p| glm_run64(p, GlmCfg { power: 3.0, intercept: true, ..base }));
    r.scenario("glm_p0_identity_f32", K, Kind::Claim, false, move |p| glm_run32(p, GlmCfg { power: 0.0, link: Some(Link::Identity), alpha: 0.1, intercept: true, ..base }));
    r.scenario("glm_p1_log_f32", K, Kind::Claim, false, move |p| glm_run32(p, GlmCfg { alpha: 0.1, intercept: true, ..base }));
    r.scenario("glm_p2_log_f32", K, Kind::Claim, false, move |p| glm_run32(p, GlmCfg { power: 2.0, alpha: 0.1, intercept: true, ..base }));
    // invalid hyper-parameters at the documented bounds and a target outside the distribution's range
    r.scenario("glm_invalid", K, Kind::Claim, false, |p| {
        let mut f = Fingerprint::new();
        let (x, y, _) = glm_data(p, 0.0, None); // real-valued target, has negatives
        let ds = Dataset::new(x, y);
        for (name, params) in [
            ("alpha_negative", TweedieRegressor::<f64>::params().alpha(-1e-9).power(0.0)),
            ("alpha_negative_zero", TweedieRegressor::<f64>::params().alpha(-0.0).power(0.0)),
            ("power_half", TweedieRegressor::<f64>::params().power(0.5)),
            ("power_just_below_one", TweedieRegressor::<f64>::params().power(1.0 - f64::EPSILON)),
            ("poisson_negative_target", TweedieRegressor::<f64>::params().power(1.0)),
            ("gamma_negative_target", TweedieRegressor::<f64>::params().power(2.0)),
        ] {
            match params.check_ref() {
                Ok(_) => f.one(&format!("{name}.check"), true),
                Err(e) => f.err(&format!("{name}.check"), &e),
            }
            match params.max_iter(5).fit(&ds) {
                Ok(m) => f.arr(&format!("{name}.coef"), &m.coef),
                Err(e) => f.err(&format!("{name}.fit"), &e),
            }
        }
        f
    });
    r.model::<TweedieRegressor<f64>>(
        "glm_model",
        K,
        &["TweedieRegressor", "Link"],
        Some((Kind::Claim, false)),
        |p| {
            let (x, y, _) = glm_data(p, GLM_MODEL.power, GLM_MODEL.link);
            glm_params64(GLM_MODEL).fit(&Dataset::new(x, y)).expect("glm fit")
        },
        |m, p, f| {
            let (x, _, q) = glm_data(p, GLM_MODEL.power, GLM_MODEL.link);
            fp_glm64(m, &x, &q, f)
        },
        Some(|a, b| a == b),
    );
    r.model::<TweedieRegressor<f32>>(
        "glm_model_f32",
        K,
        &["TweedieRegressor", "Link"],
        Some((Kind::Claim, false)),
        |p| {
            let c = GlmCfg { power: 0.0, link: Some(Link::Logit), ..GLM_MODEL };
            let (x, y, _) = glm_data(p, c.power, c.link);
            glm_params32(c).fit(&Dataset::new(x.mapv(|v| v as f32), y.mapv(|v| v as f32))).expect("glm fit")
        },
        |m, p, f| {
            let (x, _, q) = glm_data(p, 0.0, Some(Link::Logit));
            fp_glm32(m, &x.mapv(|v| v as f32), &q.mapv(|v| v as f32), f)
        },
        Some(|a, b| a == b),
    );
    r.model::<TweedieRegressorValidParams<f64>>(
        "glm_valid_params",
        K,
        &["TweedieRegressorValidParams", "Link"],
        Some((Kind::Claim, false)),
        |p| {
            let link = [Link::Identity, Link::Logit][(p.seed % 2) as usize];
            glm_params64(GlmCfg { power: 0.0, link: Some(link), alpha: 0.25, intercept: (p.seed / 2) % 2 == 0, default: false }).check().expect("valid")
        },
        fp_glm_valid,
        Some(|a, b| a == b),
    );
    // link left unset (`None` inside): the automatic choice must survive persistence
    r.model::<TweedieRegressorValidParams<f64>>(
        "glm_valid_params_auto_link",
        K,
        &["TweedieRegressorValidParams"],
        None,
        |p| TweedieRegressor::<f64>::params().power([0.0, 1.0, 2.0][(p.seed % 3) as usize]).alpha(0.0).max_iter(30).check().expect("valid"),
        fp_glm_valid,
        Some(|a, b| a == b),
    );
    r.model::<TweedieRegressorValidParams<f32>>(
        "glm_valid_params_f32",
        K,
        &["TweedieRegressorValidParams", "Link"],
        None,
        |_| glm_params32(GLM_MODEL).check().expect("valid"),
        |v, p, f| {
            f.one("alpha", v.alpha());
            f.one("power", v.power());
            f.one("tol", v.tol());
            f.text("debug", &format!("{v:?}"));
            let (x, y, q) = glm_data(p, GLM_MODEL.power, GLM_MODEL.link);
            let (x, y, q) = (x.mapv(|v| v as f32), y.mapv(|v| v as f32), q.mapv(|v| v as f32));
            match v.fit(&Dataset::new(x.clone(), y)) {
                Ok(m) => fp_glm32(&m, &x, &q, f),
                Err(e) => f.err("fit", &e),
            }
        },
        Some(|a, b| a == b),
    );
    r.model::<Link>("glm_link_identity", K, &["Link"], None, |_| Link::Identity, fp_link, Some(|a, b| a == b));
    r.model::<Link>("glm_link_log", K, &["Link"], None, |_| Link::Log, fp_link, Some(|a, b| a == b));
    r.model::<Link>("glm_link_logit", K, &["Link"], None, |_| Link::Logit, fp_link, Some(|a, b| a == b));
}

// ------------------------------------------------------------------ elastic net

#[derive(Clone, Copy)]
struct EnCfg {
    penalty: f64,
    l1: f64,
    intercept: bool,
    collinear: bool,
    /// parameter builder untouched
    default: bool,
    /// keep only `d` rows: the variance estimate reports `NotEnoughSamples`
    wide: bool,
    tol: f64,
    /// multiply the second feature by this (0 = leave it): a feature in tiny units (nanosecond
    /// timestamps, byte counts) whose fitted coefficient is correspondingly minute
    huge: f64,
}
const EN: EnCfg = EnCfg { penalty: 0.1, l1: 0.5, intercept: true, collinear: true, default: false, wide: false, tol: 1e-5, huge: 0.0 };

fn en_params<F: Float, const MT: bool>(c: EnCfg) -> ElasticNetParamsBase<F, MT> {
    if c.default {
        return ElasticNetParamsBase::new();
    }
    ElasticNetParamsBase::new().penalty(F::cast(c.penalty)).l1_ratio(F::cast(c.l1)).with_intercept(c.intercept).tolerance(F::cast(c.tol)).max_iterations(200)
}

fn fp_enet<F: Float + Bits>(m: &ElasticNet<F>, x: &Array2<F>, q: &Array2<F>, f: &mut Fingerprint) {
    f.arr("hyperplane", m.hyperplane());
    f.one("intercept", m.intercept());
    f.one("duality_gap", m.duality_gap());
    f.one("n_steps", m.n_steps());
    let a: Array1<F> = m.predict(x);
    f.arr("predict_train", &a);
    let b: Array1<F> = m.predict(q);
    f.arr("predict_query", &b);
    f.seq("predict_single", singles(q, |r| -> Array1<F> { m.predict(r) }));
    match m.z_score() {
        Ok(z) => f.arr("z_score", &z),
        Err(e) => f.err("z_score", &e),
    }
    match m.confidence_95th() {
        Ok(c) => f.seq("conf95", c.iter().flat_map(|&(a, b)| [a, b])),
        Err(e) => f.err("conf95", &e),
    }
}

fn fp_mt<F: Float + Bits>(m: &MultiTaskElasticNet<F>, x: &Array2<F>, q: &Array2<F>, f: &mut Fingerprint) {
    f.arr("hyperplane", m.hyperplane());
    f.arr("intercept", m.intercept());
    f.one("duality_gap", m.duality_gap());
    f.one("n_steps", m.n_steps());
    let a: Array2<F> = m.predict(x);
    f.arr("predict_train", &a);
    let b: Array2<F> = m.predict(q);
    f.arr("predict_query", &b);
    f.seq("predict_single", singles(q, |r| -> Array2<F> { m.predict(r) }));
    // linfa broadcasts the per-feature variance (len n_features) against the (n_features, n_tasks)
    // hyperplane, which panics inside ndarray unless n_features == n_tasks: only observable then
    if m.hyperplane().nrows() != m.hyperplane().ncols() {
        return;
    }
    match m.z_score() {
        Ok(z) => f.arr("z_score", &z),
        Err(e) => f.err("z_score", &e),
    }
    match m.confidence_95th() {
        Ok(c) => f.seq("conf95", c.iter().flat_map(|&(a, b)| [a, b])),
        Err(e) => f.err("conf95", &e),
    }
}

const MT_TASKS: usize = 3;

fn en_data<F: Float>(p: &P, c: EnCfg) -> (Array2<F>, Array2<F>, Array2<F>) {
    let (x, y, q) = mt_data(p, Scale::Wild, c.collinear, MT_TASKS);
    let (mut x, mut y, mut q) = (cast2::<F>(&x), cast2::<F>(&y), cast2::<F>(&q));
    if c.huge != 0.0 && x.ncols() > 1 {
        x.column_mut(1).mapv_inplace(|v| v * F::cast(c.huge));
        q.column_mut(1).mapv_inplace(|v| v * F::cast(c.huge));
    }
    if c.wide {
        let keep = x.ncols();
        x = x.slice(ndarray::s![..keep, ..]).to_owned();
        y = y.slice(ndarray::s![..keep, ..]).to_owned();
    }
    (x, y, q)
}

fn en_run<F: Float + Bits>(p: &P, c: EnCfg) -> Fingerprint {
    let (x, y, q) = en_data::<F>(p, c);
    let mut f = Fingerprint::new();
    match en_params::<F, false>(c).fit(&Dataset::new(x.clone(), y.column(0).to_owned())) {
        Ok(m) => fp_enet(&m, &x, &q, &mut f),
        Err(e) => f.err("fit", &e),
    }
    f
}
fn mt_run<F: Float + Bits>(p: &P, c: EnCfg) -> Fingerprint {
    let (x, y, q) = en_data::<F>(p, c);
    let mut f = Fingerprint::new();
    match en_params::<F, true>(c).fit(&Dataset::new(x.clone(), y)) {
        Ok(m) => fp_mt(&m, &x, &q, &mut f),
        Err(e) => f.err("fit", &e),
    }
    f
}

fn fp_en_valid<const MT: bool>(v: &ElasticNetValidParamsBase<f64, MT>, p: &P, f: &mut Fingerprint) {
    f.one("penalty", v.penalty());
    f.one("l1_ratio", v.l1_ratio());
    f.one("with_intercept", v.with_intercept());
    f.one("max_iterations", v.max_iterations());
    f.one("tolerance", v.tolerance());
    f.text("debug", &format!("{v:?}"));
}

fn en_errors(_: &P) -> Vec<ElasticNetError> {
    let chk = |p: ElasticNetParamsBase<f64, false>| p.check().expect_err("invalid");
    vec![
        chk(ElasticNet::params().penalty(-1.0)),
        chk(ElasticNet::params().l1_ratio(1.5)),
        chk(ElasticNet::params().l1_ratio(-0.25)),
        chk(ElasticNet::params().tolerance(-1e-3)),
        ElasticNetError::NotEnoughSamples,
        ElasticNetError::IllConditioned,
        ElasticNetError::IncorrectTargetShape,
        ElasticNetError::from(linfa::Error::Parameters("bad \u{e9} parameter".into())),
        ElasticNetError::from(linfa::Error::MismatchedShapes(3, 4)),
        ElasticNetError::from(linfa::Error::NotEnoughSamples),
    ]
}

fn register_enet(r: &mut Registry) {
    const K: &str = "linfa-elasticnet";
    for (kname, penalty, l1, collinear) in [("elastic", 0.1, 0.5, true), ("lasso", 0.3, 1.0, true), ("ridge", 0.5, 0.0, true), ("unpenalised", 0.0, 0.5, false)] {
        for intercept in [true, false] {
            let c = EnCfg { penalty, l1, intercept, collinear, ..EN };
            let suffix = if intercept { "int" } else { "noint" };
            r.scenario(&format!("enet_{kname}_{suffix}"), K, Kind::Claim, false, move |p| en_run::<f64>(p, c));
            if kname != "unpenalised" {
                r.scenario(&format!("enet_mt_{kname}_{suffix}"), K, Kind::Claim, false, move |p| mt_run::<f64>(p, c));
            }
        }
    }
    r.scenario("enet_default", K, Kind::Claim, false, |p| en_run::<f64>(p, EnCfg { default: true, ..EN }));
    r.scenario("enet_mt_default", K, Kind::Claim, false, |p| mt_run::<f64>(p, EnCfg { default: true, ..EN }));
    r.scenario("enet_f32", K, Kind::Claim, false, |p| en_run::<f32>(p, EN));
    r.scenario("enet_mt_f32", K, Kind::Claim, false, |p| mt_run::<f32>(p, EN));
    r.scenario("enet_wide", K, Kind::Claim, false, |p| en_run::<f64>(p, EnCfg { wide: true, ..EN }));
    r.scenario("enet_mt_wide", K, Kind::Claim, false, |p| mt_run::<f64>(p, EnCfg { wide: true, ..EN }));
    r.scenario("enet_heavy_penalty", K, Kind::Claim, false, |p| en_run::<f64>(p, EnCfg { penalty: 1e9, l1: 1.0, ..EN }));
    r.scenario("enet_tolerance_zero", K, Kind::Claim, false, |p| en_run::<f64>(p, EnCfg { tol: 0.0, ..EN }));
    r.scenario("enet_lasso_ridge_ctors", K, Kind::Claim, false, |p| {
        let (x, y, q) = en_data::<f64>(p, EN);
        let ds = Dataset::new(x.clone(), y.column(0).to_owned());
        let mut f = Fingerprint::new();
        for (name, params) in [("lasso", ElasticNet::<f64>::lasso()), ("ridge", ElasticNet::<f64>::ridge())] {
            match params.max_iterations(100).fit(&ds) {
                Ok(m) => {
                    let mut g = Fingerprint::new();
                    fp_enet(&m, &x, &q, &mut g);
                    f.extend(&format!("{name}."), g);
                }
                Err(e) => f.err(name, &e),
            }
        }
        let dsm = Dataset::new(x.clone(), y);
        for (name, params) in [("mt_lasso", MultiTaskElasticNet::<f64>::lasso()), ("mt_ridge", MultiTaskElasticNet::<f64>::ridge())] {
            match params.max_iterations(100).fit(&dsm) {
                Ok(m) => {
                    let mut g = Fingerprint::new();
                    fp_mt(&m, &x, &q, &mut g);
                    f.extend(&format!("{name}."), g);
                }
                Err(e) => f.err(name, &e),
            }
        }
        f
    });
    r.scenario("enet_invalid", K, Kind::Claim, false, |p| {
        let (x, y, _) = en_data::<f64>(p, EN);
        let ds = Dataset::new(x, y.column(0).to_owned());
        let mut f = Fingerprint::new();
        for (name, params) in [
            ("penalty_negative", ElasticNet::<f64>::params().penalty(-1e-9)),
            ("l1_above_one", ElasticNet::<f64>::params().l1_ratio(1.0 + f64::EPSILON)),
            ("l1_negative", ElasticNet::<f64>::params().l1_ratio(-1e-9)),
            ("tolerance_negative", ElasticNet::<f64>::params().tolerance(-1e-9)),
            ("bounds_ok", ElasticNet::<f64>::params().penalty(0.0).l1_ratio(1.0).tolerance(0.0).max_iterations(20)),
        ] {
            match params.check_ref() {
                Ok(_) => f.one(&format!("{name}.check"), true),
                Err(e) => f.err(&format!("{name}.check"), &e),
            }
            match params.fit(&ds) {
                Ok(m) => f.arr(&format!("{name}.hyperplane"), m.hyperplane()),
                Err(e) => f.err(&format!("{name}.fit"), &e),
            }
        }
        f
    });
    r.model::<ElasticNet<f64>>(
        "enet_model",
        K,
        &["ElasticNet"],
        Some((Kind::Claim, false)),
        |p| {
            let (x, y, _) = en_data::<f64>(p, EN);
            en_params::<f64, false>(EN).fit(&Dataset::new(x, y.column(0).to_owned())).expect("enet fit")
        },
        |m, p, f| {
            let (x, _, q) = en_data::<f64>(p, EN);
            fp_enet(m, &x, &q, f)
        },
        None,
    );
    // the variance slot holds `Err(NotEnoughSamples)`: an error value persisted inside a model
    r.model::<ElasticNet<f64>>(
        "enet_model_wide",
        K,
        &["ElasticNet", "ElasticNetError"],
        None,
        |p| {
            let c = EnCfg { wide: true, ..EN };
            let (x, y, _) = en_data::<f64>(p, c);
            en_params::<f64, false>(c).fit(&Dataset::new(x, y.column(0).to_owned())).expect("enet fit")
        },
        |m, p, f| {
            let (x, _, q) = en_data::<f64>(p, EnCfg { wide: true, ..EN });
            fp_enet(m, &x, &q, f)
        },
        None,
    );
    r.model::<ElasticNet<f32>>(
        "enet_model_f32",
        K,
        &["ElasticNet"],
        None,
        |p| {
            let (x, y, _) = en_data::<f32>(p, EN);
            en_params::<f32, false>(EN).fit(&Dataset::new(x, y.column(0).to_owned())).expect("enet fit")
        },
        |m, p, f| {
            let (x, _, q) = en_data::<f32>(p, EN);
            fp_enet(m, &x, &q, f)
        },
        None,
    );
    // a feature in minute units: its coefficient is far below machine epsilon yet decides predictions
    r.model::<ElasticNet<f64>>(
        "enet_model_huge_feature",
        K,
        &["ElasticNet"],
        Some((Kind::Claim, false)),
        |p| {
            let c = EnCfg { huge: 1e17, collinear: false, ..EN };
            let (x, y, _) = en_data::<f64>(p, c);
            en_params::<f64, false>(c).fit(&Dataset::new(x, y.column(0).to_owned())).expect("enet fit")
        },
        |m, p, f| {
            let (x, _, q) = en_data::<f64>(p, EnCfg { huge: 1e17, collinear: false, ..EN });
            fp_enet(m, &x, &q, f)
        },
        None,
    );
    r.model::<ElasticNet<f32>>(
        "enet_model_huge_feature_f32",
        K,
        &["ElasticNet"],
        None,
        |p| {
            let c = EnCfg { huge: 1e8, collinear: false, ..EN };
            let (x, y, _) = en_data::<f32>(p, c);
            en_params::<f32, false>(c).fit(&Dataset::new(x, y.column(0).to_owned())).expect("enet fit")
        },
        |m, p, f| {
            let (x, _, q) = en_data::<f32>(p, EnCfg { huge: 1e8, collinear: false, ..EN });
            fp_enet(m, &x, &q, f)
        },
        None,
    );
    r.model::<MultiTaskElasticNet<f64>>(
        "enet_mt_model_huge_feature",
        K,
        &["MultiTaskElasticNet"],
        None,
        |p| {
            let c = EnCfg { huge: 1e17, collinear: false, ..EN };
            let (x, y, _) = en_data::<f64>(p, c);
            en_params::<f64, true>(c).fit(&Dataset::new(x, y)).expect("mt enet fit")
        },
        |m, p, f| {
            let (x, _, q) = en_data::<f64>(p, EnCfg { huge: 1e17, collinear: false, ..EN });
            fp_mt(m, &x, &q, f)
        },
        None,
    );
    r.model::<MultiTaskElasticNet<f64>>(
        "enet_mt_model",
        K,
        &["MultiTaskElasticNet"],
        Some((Kind::Claim, false)),
        |p| {
            let (x, y, _) = en_data::<f64>(p, EN);
            en_params::<f64, true>(EN).fit(&Dataset::new(x, y)).expect("mt enet fit")
        },
        |m, p, f| {
            let (x, _, q) = en_data::<f64>(p, EN);
            fp_mt(m, &x, &q, f)
        },
        None,
    );
    r.model::<ElasticNetValidParamsBase<f64, false>>(
        "enet_valid_params",
        K,
        &["ElasticNetValidParamsBase"],
        None,
        |p| en_params::<f64, false>(EnCfg { l1: [0.5, 1.0, 0.0][(p.seed % 3) as usize], intercept: (p.seed / 3) % 2 == 0, ..EN }).check().expect("valid"),
        |v, p, f| {
            fp_en_valid(v, p, f);
            let (x, y, q) = en_data::<f64>(p, EN);
            match v.fit(&Dataset::new(x.clone(), y.column(0).to_owned())) {
                Ok(m) => fp_enet(&m, &x, &q, f),
                Err(e) => f.err("fit", &e),
            }
        },
        Some(|a, b| a == b),
    );
    // every documented bound at once: penalty 0, l1_ratio 1, tolerance 0
    r.model::<ElasticNetValidParamsBase<f64, false>>(
        "enet_valid_params_bounds",
        K,
        &["ElasticNetValidParamsBase"],
        None,
        |_| ElasticNet::<f64>::params().penalty(0.0).l1_ratio(1.0).tolerance(0.0).max_iterations(20).check().expect("valid"),
        |v, p, f| {
            fp_en_valid(v, p, f);
            let (x, y, q) = en_data::<f64>(p, EnCfg { collinear: false, ..EN });
            match v.fit(&Dataset::new(x.clone(), y.column(0).to_owned())) {
                Ok(m) => fp_enet(&m, &x, &q, f),
                Err(e) => f.err("fit", &e),
            }
        },
        Some(|a, b| a == b),
    );
    r.model::<ElasticNetValidParamsBase<f64, true>>(
        "enet_mt_valid_params",
        K,
        &["ElasticNetValidParamsBase"],
        None,
        |p| en_params::<f64, true>(EnCfg { l1: [0.5, 1.0, 0.0][(p.seed % 3) as usize], ..EN }).check().expect("valid"),
        |v, p, f| {
            fp_en_valid(v, p, f);
            let (x, y, q) = en_data::<f64>(p, EN);
            match v.fit(&Dataset::new(x.clone(), y)) {
                Ok(m) => fp_mt(&m, &x, &q, f),
                Err(e) => f.err("fit", &e),
            }
        },
        Some(|a, b| a == b),
    );
    r.model::<Vec<ElasticNetError>>(
        "enet_errors",
        K,
        &["ElasticNetError"],
        None,
        en_errors,
        |v, _, f| {
            for (i, e) in v.iter().enumerate() {
                f.text(&format!("display{i}"), &e.to_string());
                f.text(&format!("debug{i}"), &format!("{e:?}"));
            }
        },
        None,
    );
}

// ------------------------------------------------------------------ logistic regression

#[derive(Clone, Copy, PartialEq)]
enum LgData {
    Mild,
    Wild,
    /// `data::tied_classes`: integer grid, every row duplicated with a conflicting label
    Tied,
}

#[derive(Clone, Copy)]
struct LgCfg {
    alpha: f64,
    intercept: bool,
    init: bool,
    /// `LogisticRegression::default()` untouched (100 iterations)
    default: bool,
    data: LgData,
}
const LG: LgCfg = LgCfg { alpha: 0.5, intercept: true, init: false, default: false, data: LgData::Mild };

fn lg_classes(p: &P) -> usize {
    p.pick(3, 4, 5)
}

/// `(x, labels in 0..k, queries)`; `k == 2`: both classes have exactly the same count (the
/// positive class is then decided by row order); duplicated rows carry conflicting labels
fn lg_data(p: &P, kind: LgData, k: usize) -> (Array2<f64>, Vec<usize>, Array2<f64>) {
    let (n, d) = dims(p);
    let mut r = p.rng(0x109);
    let (x, mut l) = if kind == LgData::Tied {
        let (x, y) = data::tied_classes(&mut r, n, d, k);
        (x, y.to_vec())
    } else {
        let x = design(&mut r, n, d, if kind == LgData::Wild { Scale::Wild } else { Scale::Mild }, true);
        let s = x.dot(&true_w(d, k, Scale::Mild));
        let l: Vec<usize> = (0..n)
            .map(|i| {
                let mut best = 0;
                let mut bv = f64::NEG_INFINITY;
                for c in 0..k {
                    let v = s[[i, c]] + 0.5 * r.normal();
                    if v > bv {
                        bv = v;
                        best = c;
                    }
                }
                best
            })
            .collect();
        (x, l)
    };
    if kind != LgData::Tied {
        for i in (3..n).step_by(5) {
            l[i] = (l[i - 3] + 1) % k;
        }
    }
    // every class present; binary: exact balance
    for c in 0..k {
        l[c] = c;
    }
    if k == 2 {
        let mut ones = l.iter().filter(|&&v| v == 1).count();
        let mut i = n;
        while ones != n / 2 && i > 2 {
            i -= 1;
            if ones > n / 2 && l[i] == 1 {
                l[i] = 0;
                ones -= 1;
            } else if ones < n / 2 && l[i] == 0 {
                l[i] = 1;
                ones += 1;
            }
        }
    }
    let q = data::queries(&mut p.rng(0x10a), &x, nq(p));
    (x, l, q)
}

fn lab<C: Clone>(l: &[usize], names: &[C]) -> Array1<C> {
    Array1::from_iter(l.iter().map(|&i| names[i].clone()))
}
fn strings(v: &[&str]) -> Vec<String> {
    v.iter().map(|s| s.to_string()).collect()
}
const BIN_USIZE: [usize; 2] = [7, 3];
const BIN_STR: [&str; 2] = ["yes", "No"];
const MULTI_USIZE: [usize; 5] = [10, 2, 33, 4, 5];
const MULTI_STR: [&str; 5] = ["b", "B", "a", "\u{e9}", "aa"];

fn init_val(j: usize) -> f64 {
    0.01 * (j + 1) as f64 * if j % 2 == 0 { 1.0 } else { -1.0 }
}

// linfa-logistic's `Float` trait is private: instantiate the float type by macro
macro_rules! logit_impl {
    ($F:ty, $pb:ident, $pm:ident, $fpb:ident, $fpm:ident, $runb:ident, $runm:ident) => {
        fn $pb(c: LgCfg, d: usize) -> LogisticRegression<$F> {
            if c.default {
                return LogisticRegression::default();
            }
            let mut params = LogisticRegression::<$F>::new().alpha(c.alpha as $F).with_intercept(c.intercept).max_iterations(50);
            if c.init {
                params = params.initial_params(Array1::from_shape_fn(d + c.intercept as usize, |j| init_val(j) as $F));
            }
            params
        }
        fn $pm(c: LgCfg, d: usize, k: usize) -> MultiLogisticRegression<$F> {
            if c.default {
                return MultiLogisticRegression::default();
            }
            let mut params = MultiLogisticRegression::<$F>::new().alpha(c.alpha as $F).with_intercept(c.intercept).max_iterations(50);
            if c.init {
                params = params.initial_params(Array2::from_shape_fn((d + c.intercept as usize, k), |(j, c)| init_val(j + 2 * c) as $F));
            }
            params
        }
        fn $fpb<C: Ord + Clone + Default + Bits>(m: &FittedLogisticRegression<$F, C>, x: &Array2<$F>, q: &Array2<$F>, f: &mut Fingerprint) {
            f.arr("params", m.params());
            f.one("intercept", m.intercept());
            let l = m.labels();
            f.one("pos_class", l.pos.class.clone());
            f.one("pos_label", l.pos.label);
            f.one("neg_class", l.neg.class.clone());
            f.one("neg_label", l.neg.label);
            f.arr("proba_train", &m.predict_probabilities(x));
            f.arr("proba_query", &m.predict_probabilities(q));
            let a: Array1<C> = m.predict(x);
            f.arr("predict_train", &a);
            let b: Array1<C> = m.predict(q);
            f.arr("predict_query", &b);
            f.seq("predict_single", singles(q, |r| -> Array1<C> { m.predict(r) }));
            let t = m.clone().set_threshold(0.25);
            let c: Array1<C> = t.predict(q);
            f.arr("predict_query_t25", &c);
        }
        fn $fpm<C: Ord + Clone + Default + Bits>(m: &MultiFittedLogisticRegression<$F, C>, x: &Array2<$F>, q: &Array2<$F>, f: &mut Fingerprint) {
            f.arr("params", m.params());
            f.arr("intercept", m.intercept());
            f.seq("classes", m.classes().iter().cloned());
            f.arr("proba_train", &m.predict_probabilities(x));
            f.arr("proba_query", &m.predict_probabilities(q));
            let a: Array1<C> = m.predict(x);
            f.arr("predict_train", &a);
            let b: Array1<C> = m.predict(q);
            f.arr("predict_query", &b);
            f.seq("predict_single", singles(q, |r| -> Array1<C> { m.predict(r) }));
        }
        fn $runb<C: Ord + Clone + Default + Bits>(p: &P, c: LgCfg, names: &[C]) -> Fingerprint {
            let (x, l, q) = lg_data(p, c.data, 2);
            let (x, q) = (x.mapv(|v| v as $F), q.mapv(|v| v as $F));
            let mut f = Fingerprint::new();
            match $pb(c, x.ncols()).fit(&Dataset::new(x.clone(), lab(&l, names))) {
                Ok(m) => $fpb(&m, &x, &q, &mut f),
                Err(e) => f.err("fit", &e),
            }
            f
        }
        fn $runm<C: Ord + Clone + Default + Bits>(p: &P, c: LgCfg, names: &[C]) -> Fingerprint {
            let k = lg_classes(p);
            let (x, l, q) = lg_data(p, c.data, k);
            let (x, q) = (x.mapv(|v| v as $F), q.mapv(|v| v as $F));
            let mut f = Fingerprint::new();
            match $pm(c, x.ncols(), k).fit(&Dataset::new(x.clone(), lab(&l, names))) {
                Ok(m) => $fpm(&m, &x, &q, &mut f),
                Err(e) => f.err("fit", &e),
            }
            f
        }
    };
}
logit_impl!(f64, lg_params64, lgm_params64, fp_lg64, fp_lgm64, lg_run64, lgm_run64);
logit_impl!(f32, lg_params32, lgm_params32, fp_lg32, fp_lgm32, lg_run32, lgm_run32);

fn lg_build<C: Ord + Clone>(p: &P, names: &[C]) -> FittedLogisticRegression<f64, C> {
    let (x, l, _) = lg_data(p, LgData::Mild, 2);
    lg_params64(LgCfg { init: true, ..LG }, x.ncols()).fit(&Dataset::new(x, lab(&l, names))).expect("logistic fit")
}
fn lg_fp<C: Ord + Clone + Default + Bits>(m: &FittedLogisticRegression<f64, C>, p: &P, f: &mut Fingerprint) {
    let (x, _, q) = lg_data(p, LgData::Mild, 2);
    fp_lg64(m, &x, &q, f)
}
fn lgm_build<C: Ord + Clone>(p: &P, names: &[C]) -> MultiFittedLogisticRegression<f64, C> {
    let k = lg_classes(p);
    let (x, l, _) = lg_data(p, LgData::Mild, k);
    lgm_params64(LG, x.ncols(), k).fit(&Dataset::new(x, lab(&l, names))).expect("multi logistic fit")
}
fn lgm_fp<C: Ord + Clone + Default + Bits>(m: &MultiFittedLogisticRegression<f64, C>, p: &P, f: &mut Fingerprint) {
    let (x, _, q) = lg_data(p, LgData::Mild, lg_classes(p));
    fp_lgm64(m, &x, &q, f)
}

fn fp_lg_params(v: &LogisticRegression<f64>, p: &P, f: &mut Fingerprint) {
    f.text("debug", &format!("{v:?}"));
    match v.check_ref() {
        Ok(_) => f.one("check_ok", true),
        Err(e) => f.err("check", &e),
    }
    let (x, l, q) = lg_data(p, LgData::Mild, 2);
    match v.fit(&Dataset::new(x.clone(), lab(&l, &BIN_USIZE))) {
        Ok(m) => fp_lg64(&m, &x, &q, f),
        Err(e) => f.err("fit", &e),
    }
}
fn fp_lgm_params(v: &MultiLogisticRegression<f64>, p: &P, f: &mut Fingerprint) {
    f.text("debug", &format!("{v:?}"));
    match v.check_ref() {
        Ok(_) => f.one("check_ok", true),
        Err(e) => f.err("check", &e),
    }
    let (x, l, q) = lg_data(p, LgData::Mild, lg_classes(p));
    match v.fit(&Dataset::new(x.clone(), lab(&l, &MULTI_USIZE))) {
        Ok(m) => fp_lgm64(&m, &x, &q, f),
        Err(e) => f.err("fit", &e),
    }
}

fn register_logistic(r: &mut Registry) {
    const K: &str = "linfa-logistic";
    r.scenario("logistic_bool", K, Kind::Claim, false, |p| lg_run64(p, LG, &[false, true]));
    r.scenario("logistic_bool_swapped", K, Kind::Claim, false, |p| lg_run64(p, LG, &[true, false]));
    r.scenario("logistic_usize", K, Kind::Claim, false, |p| lg_run64(p, LG, &BIN_USIZE));
    r.scenario("logistic_string", K, Kind::Claim, false, |p| lg_run64(p, LG, &strings(&BIN_STR)));
    r.scenario("logistic_str", K, Kind::Claim, false, |p| lg_run64::<&'static str>(p, LG, &["cat", "Dog"]));
    r.scenario("logistic_noint", K, Kind::Claim, false, |p| lg_run64(p, LgCfg { intercept: false, ..LG }, &BIN_USIZE));
    r.scenario("logistic_alpha0", K, Kind::Claim, false, |p| lg_run64(p, LgCfg { alpha: 0.0, ..LG }, &[false, true]));
    r.scenario("logistic_init", K, Kind::Claim, false, |p| lg_run64(p, LgCfg { init: true, ..LG }, &strings(&BIN_STR)));
    r.scenario("logistic_init_noint", K, Kind::Claim, false, |p| lg_run64(p, LgCfg { init: true, intercept: false, ..LG }, &BIN_USIZE));
    r.scenario("logistic_default", K, Kind::Claim, false, |p| lg_run64(p, LgCfg { default: true, ..LG }, &BIN_USIZE));
    r.scenario("logistic_wild", K, Kind::Claim, false, |p| lg_run64(p, LgCfg { data: LgData::Wild, ..LG }, &[false, true]));
    r.scenario("logistic_tied", K, Kind::Claim, false, |p| lg_run64(p, LgCfg { data: LgData::Tied, ..LG }, &strings(&BIN_STR)));
    r.scenario("logistic_f32", K, Kind::Claim, false, |p| lg_run32(p, LG, &BIN_USIZE));
    r.scenario("logistic_f32_string", K, Kind::Claim, false, |p| lg_run32(p, LgCfg { init: true, ..LG }, &strings(&BIN_STR)));
    r.scenario("logistic_multi_usize", K, Kind::Claim, false, |p| lgm_run64(p, LG, &MULTI_USIZE));
    r.scenario("logistic_multi_string", K, Kind::Claim, false, |p| lgm_run64(p, LG, &strings(&MULTI_STR)));
    r.scenario("logistic_multi_str", K, Kind::Claim, false, |p| lgm_run64::<&'static str>(p, LG, &MULTI_STR));
    r.scenario("logistic_multi_noint", K, Kind::Claim, false, |p| lgm_run64(p, LgCfg { intercept: false, ..LG }, &MULTI_USIZE));
    r.scenario("logistic_multi_alpha0", K, Kind::Claim, false, |p| lgm_run64(p, LgCfg { alpha: 0.0, ..LG }, &MULTI_USIZE));
    r.scenario("logistic_multi_init", K, Kind::Claim, false, |p| lgm_run64(p, LgCfg { init: true, ..LG }, &strings(&MULTI_STR)));
    r.scenario("logistic_multi_default", K, Kind::Claim, false, |p| lgm_run64(p, LgCfg { default: true, ..LG }, &MULTI_USIZE));
    r.scenario("logistic_multi_wild", K, Kind::Claim, false, |p| lgm_run64(p, LgCfg { data: LgData::Wild, ..LG }, &MULTI_USIZE));
    r.scenario("logistic_multi_tied", K, Kind::Claim, false, |p| lgm_run64(p, LgCfg { data: LgData::Tied, ..LG }, &strings(&MULTI_STR)));
    r.scenario("logistic_multi_f32", K, Kind::Claim, false, |p| lgm_run32(p, LG, &MULTI_USIZE));
    r.scenario("logistic_multi_binary_bool", K, Kind::Claim, false, |p| {
        // the multinomial model on a two-class problem
        let (x, l, q) = lg_data(p, LgData::Mild, 2);
        let mut f = Fingerprint::new();
        match lgm_params64(LG, x.ncols(), 2).fit(&Dataset::new(x.clone(), lab(&l, &[true, false]))) {
            Ok(m) => fp_lgm64(&m, &x, &q, &mut f),
            Err(e) => f.err("fit", &e),
        }
        f
    });
    r.scenario("logistic_errors", K, Kind::Claim, false, |p| {
        let (x, l3, _) = lg_data(p, LgData::Mild, 3);
        let (_, l2, _) = lg_data(p, LgData::Mild, 2);
        let d = x.ncols();
        let n = x.nrows();
        let y2 = lab(&l2, &BIN_USIZE);
        let mut f = Fingerprint::new();
        let mut rec = |name: &str, r: Result<FittedLogisticRegression<f64, usize>, linfa_logistic::error::Error>| match r {
            Ok(m) => f.arr(name, m.params()),
            Err(e) => f.err(name, &e),
        };
        rec("three_classes", lg_params64(LG, d).fit(&Dataset::new(x.clone(), lab(&l3, &MULTI_USIZE))));
        rec("one_class", lg_params64(LG, d).fit(&Dataset::new(x.clone(), Array1::from_elem(n, 4usize))));
        rec("alpha_negative", LogisticRegression::<f64>::new().alpha(-1e-9).fit(&Dataset::new(x.clone(), y2.clone())));
        rec("alpha_inf", LogisticRegression::<f64>::new().alpha(f64::INFINITY).fit(&Dataset::new(x.clone(), y2.clone())));
        rec("gradient_tolerance_zero", LogisticRegression::<f64>::new().gradient_tolerance(0.0).fit(&Dataset::new(x.clone(), y2.clone())));
        rec("init_nan", LogisticRegression::<f64>::new().initial_params(Array1::from_elem(d + 1, f64::NAN)).fit(&Dataset::new(x.clone(), y2.clone())));
        rec("init_rows", LogisticRegression::<f64>::new().initial_params(Array1::zeros(d)).max_iterations(5).fit(&Dataset::new(x.clone(), y2.clone())));
        rec("init_rows_noint", LogisticRegression::<f64>::new().with_intercept(false).initial_params(Array1::zeros(d)).max_iterations(5).fit(&Dataset::new(x.clone(), y2.clone())));
        let mut xbad = x.clone();
        xbad[[1, 0]] = f64::INFINITY;
        rec("x_infinite", lg_params64(LG, d).fit(&Dataset::new(xbad, y2.clone())));
        rec("max_iterations_zero", LogisticRegression::<f64>::new().max_iterations(0).fit(&Dataset::new(x.clone(), y2.clone())));
        match MultiLogisticRegression::<f64>::new().initial_params(Array2::zeros((d + 1, 2))).max_iterations(5).fit(&Dataset::new(x.clone(), lab(&l3, &MULTI_USIZE))) {
            Ok(m) => f.arr("multi_init_cols", m.params()),
            Err(e) => f.err("multi_init_cols", &e),
        }
        f
    });
    r.model::<FittedLogisticRegression<f64, bool>>("logistic_model_bool", K, &["FittedLogisticRegression", "BinaryClassLabels", "ClassLabel"], Some((Kind::Claim, false)), |p| lg_build(p, &[false, true]), lg_fp, Some(|a, b| a == b));
    r.model::<FittedLogisticRegression<f64, usize>>("logistic_model_usize", K, &["FittedLogisticRegression", "BinaryClassLabels", "ClassLabel"], Some((Kind::Claim, false)), |p| lg_build(p, &BIN_USIZE), lg_fp, Some(|a, b| a == b));
    r.model::<FittedLogisticRegression<f64, String>>("logistic_model_string", K, &["FittedLogisticRegression", "BinaryClassLabels", "ClassLabel"], Some((Kind::Claim, false)), |p| lg_build(p, &strings(&BIN_STR)), lg_fp, Some(|a, b| a == b));
    // class types beyond the usual primitives: the class parameter is any ordered type
    r.model::<FittedLogisticRegression<f64, (u8, u8)>>("logistic_model_tuple", K, &["FittedLogisticRegression", "BinaryClassLabels", "ClassLabel"], None, |p| lg_build(p, &[(2u8, 1u8), (1u8, 7u8)]), lg_fp, Some(|a, b| a == b));
    r.model::<FittedLogisticRegression<f64, Option<u8>>>("logistic_model_option", K, &["FittedLogisticRegression", "BinaryClassLabels", "ClassLabel"], None, |p| lg_build(p, &[Some(4u8), None]), lg_fp, Some(|a, b| a == b));
    r.model::<FittedLogisticRegression<f64, i64>>("logistic_model_negative_int", K, &["FittedLogisticRegression", "BinaryClassLabels", "ClassLabel"], None, |p| lg_build(p, &[-1i64, i64::MIN]), lg_fp, Some(|a, b| a == b));
    r.model::<MultiFittedLogisticRegression<f64, (u8, u8)>>("logistic_multi_model_tuple", K, &["MultiFittedLogisticRegression"], None, |p| lgm_build(p, &[(0u8, 9u8), (3, 3), (1, 0), (0, 2), (9, 9), (5, 1), (2, 8)]), lgm_fp, Some(|a, b| a == b));
    r.model::<MultiFittedLogisticRegression<f64, Option<u8>>>("logistic_multi_model_option", K, &["MultiFittedLogisticRegression"], None, |p| lgm_build(p, &[Some(3u8), None, Some(0), Some(200), Some(7), Some(1), Some(90)]), lgm_fp, Some(|a, b| a == b));
    r.model::<FittedLogisticRegression<f32, usize>>(
        "logistic_model_f32",
        K,
        &["FittedLogisticRegression", "BinaryClassLabels", "ClassLabel"],
        None,
        |p| {
            let (x, l, _) = lg_data(p, LgData::Mild, 2);
            lg_params32(LG, x.ncols()).fit(&Dataset::new(x.mapv(|v| v as f32), lab(&l, &BIN_USIZE))).expect("logistic fit")
        },
        |m, p, f| {
            let (x, _, q) = lg_data(p, LgData::Mild, 2);
            fp_lg32(m, &x.mapv(|v| v as f32), &q.mapv(|v| v as f32), f)
        },
        Some(|a, b| a == b),
    );
    // non-default threshold must survive persistence
    r.model::<FittedLogisticRegression<f64, usize>>(
        "logistic_model_threshold",
        K,
        &["FittedLogisticRegression"],
        None,
        |p| lg_build(p, &BIN_USIZE).set_threshold(0.8),
        |m, p, f| {
            let (x, _, q) = lg_data(p, LgData::Mild, 2);
            let a: Array1<usize> = m.predict(&x);
            f.arr("predict_train", &a);
            let b: Array1<usize> = m.predict(&q);
            f.arr("predict_query", &b);
            f.text("debug", &format!("{m:?}"));
        },
        Some(|a, b| a == b),
    );
    r.model::<MultiFittedLogisticRegression<f64, usize>>("logistic_multi_model_usize", K, &["MultiFittedLogisticRegression"], Some((Kind::Claim, false)), |p| lgm_build(p, &MULTI_USIZE), lgm_fp, Some(|a, b| a == b));
    r.model::<MultiFittedLogisticRegression<f64, String>>("logistic_multi_model_string", K, &["MultiFittedLogisticRegression"], Some((Kind::Claim, false)), |p| lgm_build(p, &strings(&MULTI_STR)), lgm_fp, Some(|a, b| a == b));
    // as many features as classes: the coefficient matrix is square, its two axes can be confused
    r.model::<MultiFittedLogisticRegression<f64, usize>>(
        "logistic_multi_model_square",
        K,
        &["MultiFittedLogisticRegression"],
        None,
        |p| {
            let k = lg_classes(p);
            let (x, l, _) = lg_data(p, LgData::Mild, k);
            let k = k.min(x.ncols());
            let x = x.slice(ndarray::s![.., ..k]).to_owned();
            let l: Vec<usize> = l.iter().map(|&c| c % k).collect();
            lgm_params64(LG, k, k).fit(&Dataset::new(x, lab(&l, &MULTI_USIZE))).expect("multi logistic fit")
        },
        |m, p, f| {
            let k = lg_classes(p);
            let (x, _, q) = lg_data(p, LgData::Mild, k);
            let k = k.min(x.ncols());
            fp_lgm64(m, &x.slice(ndarray::s![.., ..k]).to_owned(), &q.slice(ndarray::s![.., ..k]).to_owned(), f)
        },
        Some(|a, b| a == b),
    );
    r.model::<MultiFittedLogisticRegression<f32, String>>(
        "logistic_multi_model_f32",
        K,
        &["MultiFittedLogisticRegression"],
        None,
        |p| {
            let k = lg_classes(p);
            let (x, l, _) = lg_data(p, LgData::Mild, k);
            lgm_params32(LG, x.ncols(), k).fit(&Dataset::new(x.mapv(|v| v as f32), lab(&l, &strings(&MULTI_STR)))).expect("multi logistic fit")
        },
        |m, p, f| {
            let (x, _, q) = lg_data(p, LgData::Mild, lg_classes(p));
            fp_lgm32(m, &x.mapv(|v| v as f32), &q.mapv(|v| v as f32), f)
        },
        Some(|a, b| a == b),
    );
    r.model::<LogisticRegression<f64>>(
        "logistic_params",
        K,
        &["LogisticRegressionParams", "LogisticRegressionValidParams"],
        Some((Kind::Claim, false)),
        |p| lg_params64(LgCfg { init: p.seed % 2 == 0, intercept: (p.seed / 2) % 2 == 0, alpha: 0.25, ..LG }, dims(p).1),
        fp_lg_params,
        Some(|a, b| a == b),
    );
    // invalid at the documented bounds: alpha < 0, gradient_tolerance == 0
    r.model::<LogisticRegression<f64>>("logistic_params_invalid_alpha", K, &["LogisticRegressionParams"], None, |_| LogisticRegression::new().alpha(-1e-9), fp_lg_params, Some(|a, b| a == b));
    r.model::<LogisticRegression<f64>>("logistic_params_invalid_tol", K, &["LogisticRegressionParams"], None, |_| LogisticRegression::new().gradient_tolerance(0.0), fp_lg_params, Some(|a, b| a == b));
    r.model::<ValidLogisticRegression<f64>>(
        "logistic_valid_params",
        K,
        &["LogisticRegressionValidParams"],
        None,
        |p| lg_params64(LgCfg { init: true, ..LG }, dims(p).1).check().expect("valid"),
        |v, p, f| {
            f.text("debug", &format!("{v:?}"));
            let (x, l, q) = lg_data(p, LgData::Mild, 2);
            match v.fit(&Dataset::new(x.clone(), lab(&l, &[false, true]))) {
                Ok(m) => fp_lg64(&m, &x, &q, f),
                Err(e) => f.err("fit", &e),
            }
        },
        Some(|a, b| a == b),
    );
    r.model::<MultiLogisticRegression<f64>>(
        "logistic_multi_params",
        K,
        &["LogisticRegressionParams", "LogisticRegressionValidParams"],
        Some((Kind::Claim, false)),
        |p| lgm_params64(LgCfg { init: p.seed % 2 == 0, alpha: 0.25, ..LG }, dims(p).1, lg_classes(p)),
        fp_lgm_params,
        Some(|a, b| a == b),
    );
    r.model::<MultiLogisticRegression<f64>>("logistic_multi_params_invalid", K, &["LogisticRegressionParams"], None, |_| MultiLogisticRegression::new().alpha(-1.0), fp_lgm_params, Some(|a, b| a == b));
    r.model::<ValidMultiLogisticRegression<f64>>(
        "logistic_multi_valid_params",
        K,
        &["LogisticRegressionValidParams"],
        None,
        |p| lgm_params64(LgCfg { init: true, ..LG }, dims(p).1, lg_classes(p)).check().expect("valid"),
        |v, p, f| {
            f.text("debug", &format!("{v:?}"));
            let (x, l, q) = lg_data(p, LgData::Mild, lg_classes(p));
            match v.fit(&Dataset::new(x.clone(), lab(&l, &strings(&MULTI_STR)))) {
                Ok(m) => fp_lgm64(&m, &x, &q, f),
                Err(e) => f.err("fit", &e),
            }
        },
        Some(|a, b| a == b),
    );
    r.model::<BinaryClassLabels<f64, String>>(
        "logistic_binary_labels",
        K,
        &["BinaryClassLabels", "ClassLabel"],
        None,
        |p| lg_build(p, &strings(&BIN_STR)).labels().clone(),
        |v, _, f| {
            f.one("pos_class", v.pos.class.clone());
            f.one("pos_label", v.pos.label);
            f.one("neg_class", v.neg.class.clone());
            f.one("neg_label", v.neg.label);
        },
        Some(|a, b| a == b),
    );
    r.model::<ClassLabel<f32, usize>>(
        "logistic_class_label",
        K,
        &["ClassLabel"],
        None,
        |p| ClassLabel { class: (p.seed % 1000) as usize, label: -1.0 },
        |v, _, f| {
            f.one("class", v.class);
            f.one("label", v.label);
        },
        Some(|a, b| a == b),
    );
}

// ------------------------------------------------------------------ PLS

#[derive(Clone, Copy)]
struct PlsCfg {
    algo: Algorithm,
    scale: bool,
    /// `None`: the size-dependent default of `pls_ncomp`
    ncomp: Option<usize>,
    /// one exactly constant X column (its std is replaced by 1 inside linfa)
    constcol: bool,
}
const PLS: PlsCfg = PlsCfg { algo: Algorithm::Nipals, scale: true, ncomp: None, constcol: false };

fn pls_ncomp(p: &P) -> usize {
    p.pick(2, 3, 3)
}

/// `(x, y, query x, query y)`: wild collinear design with duplicate rows, 2..4 correlated targets
fn pls_data<F: Float>(p: &P, constcol: bool) -> (Array2<F>, Array2<F>, Array2<F>, Array2<F>) {
    let t = p.pick(2, 3, 4);
    let (mut x, y, q) = mt_data(p, Scale::Wild, true, t);
    if constcol {
        x.column_mut(2).fill(7.25);
    }
    let n = y.nrows();
    let qy = Array2::from_shape_fn((q.nrows(), t), |(i, c)| y[[(i * 31) % n, c]] + (i % 3) as f64 * 0.25);
    (cast2::<F>(&x), cast2::<F>(&y), cast2::<F>(&q), cast2::<F>(&qy))
}

macro_rules! pls_family {
    ($ty:ident, $fp:ident, $run:ident) => {
        fn $fp<F: Float + Bits>(m: &$ty<F>, p: &P, constcol: bool, f: &mut Fingerprint) {
            let (x, y, q, qy) = pls_data::<F>(p, constcol);
            let (a, b) = m.weights();
            f.arr("x_weights", a);
            f.arr("y_weights", b);
            let (a, b) = m.loadings();
            f.arr("x_loadings", a);
            f.arr("y_loadings", b);
            let (a, b) = m.rotations();
            f.arr("x_rotations", a);
            f.arr("y_rotations", b);
            f.arr("coefficients", m.coefficients());
            let t = m.transform(Dataset::new(x.clone(), y));
            f.arr("transform_train_x", t.records());
            f.arr("transform_train_y", t.targets());
            let tq = m.transform(Dataset::new(q.clone(), qy));
            f.arr("transform_query_x", tq.records());
            f.arr("transform_query_y", tq.targets());
            let inv = m.inverse_transform(tq);
            f.arr("inverse_query_x", inv.records());
            f.arr("inverse_query_y", inv.targets());
            let a: Array2<F> = m.predict(&x);
            f.arr("predict_train", &a);
            let b: Array2<F> = m.predict(&q);
            f.arr("predict_query", &b);
            f.seq("predict_single", singles(&q, |r| -> Array2<F> { m.predict(r) }));
        }
        fn $run<F: Float + Bits>(p: &P, c: PlsCfg) -> Fingerprint {
            let (x, y, _, _) = pls_data::<F>(p, c.constcol);
            let mut f = Fingerprint::new();
            match $ty::<F>::params(c.ncomp.unwrap_or(pls_ncomp(p))).algorithm(c.algo).scale(c.scale).fit(&Dataset::new(x, y)) {
                Ok(m) => $fp(&m, p, c.constcol, &mut f),
                Err(e) => f.err("fit", &e),
            }
            f
        }
    };
}
pls_family!(PlsRegression, fp_pls_reg, pls_reg_run);
pls_family!(PlsCanonical, fp_pls_can, pls_can_run);
pls_family!(PlsCca, fp_pls_cca, pls_cca_run);

fn fp_pls_svd<F: Float + Bits>(m: &PlsSvd<F>, p: &P, f: &mut Fingerprint) {
    let (x, y, q, qy) = pls_data::<F>(p, false);
    let (a, b) = m.weights();
    f.arr("x_weights", a);
    f.arr("y_weights", b);
    let t = m.transform(Dataset::new(x, y));
    f.arr("transform_train_x", t.records());
    f.arr("transform_train_y", t.targets());
    let tq = m.transform(Dataset::new(q, qy));
    f.arr("transform_query_x", tq.records());
    f.arr("transform_query_y", tq.targets());
}

fn pls_svd_run<F: Float + Bits>(p: &P, params: PlsSvdParams) -> Fingerprint {
    let (x, y, _, _) = pls_data::<F>(p, false);
    let mut f = Fingerprint::new();
    let r: Result<PlsSvd<F>, _> = params.fit(&Dataset::new(x, y));
    match r {
        Ok(m) => fp_pls_svd(&m, p, &mut f),
        Err(e) => f.err("fit", &e),
    }
    f
}

fn fp_pls_svd_params(v: &PlsSvdParams, p: &P, f: &mut Fingerprint) {
    f.text("debug", &format!("{v:?}"));
    f.extend("fit.", pls_svd_run::<f64>(p, v.clone()));
}

fn register_pls(r: &mut Registry) {
    const K: &str = "linfa-pls";
    let svd = PlsCfg { algo: Algorithm::Svd, ..PLS };
    macro_rules! fam {
        ($name:literal, $run:ident) => {
            r.scenario(concat!("pls_", $name, "_nipals"), K, Kind::Claim, false, |p| $run::<f64>(p, PLS));
            r.scenario(concat!("pls_", $name, "_svd"), K, Kind::Claim, false, move |p| $run::<f64>(p, svd));
            r.scenario(concat!("pls_", $name, "_noscale"), K, Kind::Claim, false, |p| $run::<f64>(p, PlsCfg { scale: false, ..PLS }));
            r.scenario(concat!("pls_", $name, "_svd_noscale"), K, Kind::Claim, false, move |p| $run::<f64>(p, PlsCfg { scale: false, ..svd }));
            r.scenario(concat!("pls_", $name, "_one_component"), K, Kind::Claim, false, |p| $run::<f64>(p, PlsCfg { ncomp: Some(1), ..PLS }));
            r.scenario(concat!("pls_", $name, "_constcol"), K, Kind::Claim, false, |p| $run::<f64>(p, PlsCfg { constcol: true, ..PLS }));
            r.scenario(concat!("pls_", $name, "_f32"), K, Kind::Claim, false, |p| $run::<f32>(p, PLS));
            r.scenario(concat!("pls_", $name, "_f32_svd"), K, Kind::Claim, false, move |p| $run::<f32>(p, svd));
        };
    }
    fam!("reg", pls_reg_run);
    fam!("can", pls_can_run);
    fam!("cca", pls_cca_run);
    r.scenario("pls_svd_scale", K, Kind::Claim, false, |p| pls_svd_run::<f64>(p, PlsSvd::<f64>::params(pls_ncomp(p).min(2))));
    r.scenario("pls_svd_noscale", K, Kind::Claim, false, |p| pls_svd_run::<f64>(p, PlsSvd::<f64>::params(pls_ncomp(p).min(2)).scale(false)));
    r.scenario("pls_svd_default", K, Kind::Claim, false, |p| pls_svd_run::<f64>(p, PlsSvdParams::default()));
    r.scenario("pls_svd_f32", K, Kind::Claim, false, |p| pls_svd_run::<f32>(p, PlsSvdParams::new(2)));
    r.scenario("pls_invalid", K, Kind::Claim, false, |p| {
        let (x, y, _, _) = pls_data::<f64>(p, false);
        let (d, t) = (x.ncols(), y.ncols());
        let ds = Dataset::new(x.clone(), y.clone());
        let one = Dataset::new(x.slice(ndarray::s![..1, ..]).to_owned(), y.slice(ndarray::s![..1, ..]).to_owned());
        let mut f = Fingerprint::new();
        macro_rules! rec {
            ($name:expr, $res:expr) => {
                match $res {
                    Ok(m) => f.arr($name, m.weights().0),
                    Err(e) => f.err($name, &e),
                }
            };
        }
        rec!("reg.tolerance_negative", PlsRegression::<f64>::params(1).tolerance(-1e-9).fit(&ds));
        rec!("reg.tolerance_nan", PlsRegression::<f64>::params(1).tolerance(f64::NAN).fit(&ds));
        rec!("reg.tolerance_inf", PlsRegression::<f64>::params(1).tolerance(f64::INFINITY).fit(&ds));
        rec!("reg.max_iter_zero", PlsRegression::<f64>::params(1).max_iterations(0).fit(&ds));
        rec!("reg.max_iter_one", PlsRegression::<f64>::params(1).max_iterations(1).fit(&ds));
        rec!("reg.zero_components", PlsRegression::<f64>::params(0).fit(&ds));
        rec!("reg.too_many_components", PlsRegression::<f64>::params(d + 1).fit(&ds));
        rec!("reg.max_components", PlsRegression::<f64>::params(d).fit(&ds));
        rec!("reg.one_sample", PlsRegression::<f64>::params(1).fit(&one));
        rec!("can.too_many_components", PlsCanonical::<f64>::params(t + 1).fit(&ds));
        rec!("can.max_iter_zero", PlsCanonical::<f64>::params(1).max_iterations(0).fit(&ds));
        rec!("can.one_sample", PlsCanonical::<f64>::params(1).fit(&one));
        rec!("cca.too_many_components", PlsCca::<f64>::params(t + 1).fit(&ds));
        rec!("cca.tolerance_negative", PlsCca::<f64>::params(1).tolerance(-1.0).fit(&ds));
        rec!("cca.zero_components", PlsCca::<f64>::params(0).fit(&ds));
        let r: Result<PlsSvd<f64>, _> = PlsSvdParams::new(0).fit(&ds);
        rec!("svd.zero_components", r);
        let r: Result<PlsSvd<f64>, _> = PlsSvdParams::new(t + 1).fit(&ds);
        rec!("svd.too_many_components", r);
        let r: Result<PlsSvd<f64>, _> = PlsSvdParams::new(1).fit(&one);
        rec!("svd.one_sample", r);
        match PlsRegression::<f64>::params(1).tolerance(-1.0).check_ref() {
            Ok(_) => f.one("check", true),
            Err(e) => f.err("check", &e),
        }
        f
    });
    r.scenario("pls_orthogonal_start", K, Kind::Claim, false, |p| {
        // balanced two-level design: the first response column is a replicate indicator that is
        // exactly orthogonal to both factors; the power method's start vector is degenerate
        let reps = 2 + (p.seed % 3) as usize;
        let n = 8 * reps;
        let x = Array2::from_shape_fn((n, 2), |(i, j)| if (i >> j) & 1 == 1 { 1.0 } else { -1.0 });
        let y = Array2::from_shape_fn((n, 3), |(i, j)| match j {
            0 => {
                if (i >> 2) & 1 == 1 {
                    1.0
                } else {
                    -1.0
                }
            }
            1 => 2.0 * x[[i, 0]] + 0.5 * x[[i, 1]] + 0.25 * (((i * 7) % 5) as f64 - 2.0),
            _ => -x[[i, 0]] + 1.5 * x[[i, 1]] + 0.125 * (((i * 3) % 7) as f64 - 3.0),
        });
        let mut f = Fingerprint::new();
        let ds = Dataset::new(x.clone(), y);
        macro_rules! one {
            ($name:expr, $res:expr) => {
                match $res {
                    Ok(m) => {
                        f.arr(&format!("{}_weights_x", $name), m.weights().0);
                        f.arr(&format!("{}_coefficients", $name), m.coefficients());
                        f.arr(&format!("{}_predict", $name), &m.predict(&x));
                    }
                    Err(e) => f.err($name, &e),
                }
            };
        }
        one!("reg_nipals", PlsRegression::<f64>::params(2).algorithm(Algorithm::Nipals).fit(&ds));
        one!("can_nipals", PlsCanonical::<f64>::params(2).algorithm(Algorithm::Nipals).fit(&ds));
        one!("reg_svd", PlsRegression::<f64>::params(2).algorithm(Algorithm::Svd).fit(&ds));
        f
    });
    macro_rules! model {
        ($name:literal, $ty:ident, $F:ty, $fp:ident, $tyname:literal, $algo:expr, $c20:expr) => {
            r.model::<$ty<$F>>(
                $name,
                K,
                &[$tyname, "Pls"],
                $c20,
                |p| {
                    let (x, y, _, _) = pls_data::<$F>(p, false);
                    $ty::<$F>::params(pls_ncomp(p)).algorithm($algo).fit(&Dataset::new(x, y)).expect("pls fit")
                },
                |m, p, f| $fp(m, p, false, f),
                Some(|a, b| a == b),
            );
        };
    }
    // one component (with >= 2 targets the coefficient matrix is then not in standard memory
    // layout) and the maximal number of components
    macro_rules! model_nc {
        ($name:literal, $ty:ident, $F:ty, $fp:ident, $tyname:literal, $algo:expr, $nc:expr) => {
            r.model::<$ty<$F>>(
                $name,
                K,
                &[$tyname, "Pls"],
                None,
                |p| {
                    let (x, y, _, _) = pls_data::<$F>(p, false);
                    let nc: usize = $nc(x.ncols().min(y.ncols()));
                    $ty::<$F>::params(nc).algorithm($algo).fit(&Dataset::new(x, y)).expect("pls fit")
                },
                |m, p, f| $fp(m, p, false, f),
                Some(|a, b| a == b),
            );
        };
    }
    model_nc!("pls_reg_model_one_component", PlsRegression, f64, fp_pls_reg, "PlsRegression", Algorithm::Nipals, |_m: usize| 1);
    model_nc!("pls_can_model_one_component", PlsCanonical, f64, fp_pls_can, "PlsCanonical", Algorithm::Svd, |_m: usize| 1);
    model_nc!("pls_cca_model_one_component", PlsCca, f64, fp_pls_cca, "PlsCca", Algorithm::Svd, |_m: usize| 1);
    model_nc!("pls_reg_model_max_components", PlsRegression, f64, fp_pls_reg, "PlsRegression", Algorithm::Svd, |m: usize| m);
    // CCA models use the SVD variant: its power method reports `PowerMethodNotConvergedError` on some
    // small data sets (covered as an outcome by the `pls_cca_*` scenarios), and `build` must not fail
    model!("pls_reg_model", PlsRegression, f64, fp_pls_reg, "PlsRegression", Algorithm::Nipals, Some((Kind::Claim, false)));
    model!("pls_can_model", PlsCanonical, f64, fp_pls_can, "PlsCanonical", Algorithm::Nipals, Some((Kind::Claim, false)));
    model!("pls_cca_model", PlsCca, f64, fp_pls_cca, "PlsCca", Algorithm::Svd, Some((Kind::Claim, false)));
    model!("pls_reg_model_f32", PlsRegression, f32, fp_pls_reg, "PlsRegression", Algorithm::Svd, None);
    model!("pls_can_model_f32", PlsCanonical, f32, fp_pls_can, "PlsCanonical", Algorithm::Nipals, None);
    model!("pls_cca_model_f32", PlsCca, f32, fp_pls_cca, "PlsCca", Algorithm::Svd, None);
    r.model::<PlsSvdParams>("pls_svd_params", K, &["PlsSvdParams"], Some((Kind::Claim, false)), |p| PlsSvdParams::new(1 + (p.seed % 2) as usize).scale(p.seed % 3 != 0), fp_pls_svd_params, Some(|a, b| a == b));
    // validated only at fit time: zero components is reported by `fit`
    r.model::<PlsSvdParams>("pls_svd_params_invalid", K, &["PlsSvdParams"], None, |_| PlsSvdParams::new(0), fp_pls_svd_params, Some(|a, b| a == b));
}

pub fn register(r: &mut Registry) {
    register_ols(r);
    register_isotonic(r);
    register_glm(r);
    register_enet(r);
    register_logistic(r);
    register_pls(r);
}
