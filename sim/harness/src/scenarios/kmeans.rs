//! k-means family (the only code in linfa that runs on the rayon pool).

use crate::data;
use crate::fp::Fingerprint;
use crate::scen::{Kind, Registry, P};
use linfa::prelude::*;
use linfa::DatasetBase;
use linfa_clustering::{IncrKMeansError, KMeans, KMeansInit, KMeansParams, KMeansValidParams};
use linfa_nn::distance::{L1Dist, L2Dist};
use ndarray::{Array2, Axis};
use rand_xoshiro::rand_core::SeedableRng;
use rand_xoshiro::Xoshiro256Plus;

fn dims(p: &P) -> (usize, usize, usize) {
    // rows, features, clusters
    p.pick((40, 2, 3), (512, 3, 4), (2304, 4, 6))
}

pub fn train(p: &P) -> Array2<f64> {
    let (n, d, k) = dims(p);
    data::blobs(&mut p.rng(1), n, d, k, 0.8).0
}
pub fn query(p: &P, train: &Array2<f64>) -> Array2<f64> {
    data::queries(&mut p.rng(2), train, p.pick(9, 96, 640))
}

fn fp_model<D: linfa_nn::distance::Distance<f64>>(m: &KMeans<f64, D>, p: &P, f: &mut Fingerprint) {
    let x = train(p);
    let q = query(p, &x);
    f.arr("centroids", m.centroids());
    f.arr("cluster_count", m.cluster_count());
    f.one("inertia", m.inertia());
    f.arr("predict_train", &m.predict(&x));
    f.arr("predict_query", &m.predict(&q));
    f.arr("transform_query", &m.transform(&q));
    // single-row predictions must agree with the batch and with themselves
    let single: Vec<usize> = q.axis_iter(Axis(0)).take(8).map(|r| m.predict(&r.insert_axis(Axis(0)).to_owned())[0]).collect();
    f.seq("predict_single", single);
}

fn fit_with(init: KMeansInit<f64>, l1: bool, runs: usize, p: &P) -> Fingerprint {
    let (_, _, k) = dims(p);
    let ds = DatasetBase::from(train(p));
    let mut f = Fingerprint::new();
    if l1 {
        // (the distance is a caller-supplied callback, instrumented for fault injection: the
        // fault then strikes inside a job on some pool worker)
        let m = KMeans::params_with(k, Xoshiro256Plus::seed_from_u64(p.seed), crate::fault::FaultyDist(L1Dist))
            .init_method(init)
            .n_runs(runs)
            .max_n_iterations(30)
            .fit(&ds)
            .expect("kmeans fit");
        fp_model(&m, p, &mut f);
    } else {
        let m = KMeans::params_with(k, Xoshiro256Plus::seed_from_u64(p.seed), crate::fault::FaultyDist(L2Dist))
            .init_method(init)
            .n_runs(runs)
            .max_n_iterations(30)
            .fit(&ds)
            .expect("kmeans fit");
        fp_model(&m, p, &mut f);
    }
    f
}

fn precomputed(p: &P) -> KMeansInit<f64> {
    let (_, _, k) = dims(p);
    let x = train(p);
    // first k rows as centroids
    KMeansInit::Precomputed(x.slice(ndarray::s![0..k, ..]).to_owned())
}

type Params = KMeansParams<f64, Xoshiro256Plus, L2Dist>;

fn build_default(p: &P) -> KMeans<f64, L2Dist> {
    let (_, _, k) = dims(p);
    // default builder: no rng passed — decides "default seeds are fixed"
    KMeans::params(k).fit(&DatasetBase::from(train(p))).expect("kmeans default fit")
}

fn build_params(p: &P) -> Params {
    let (_, _, k) = dims(p);
    let mut rng = Xoshiro256Plus::seed_from_u64(p.seed ^ 99);
    // advance the generator so that a non-initial state has to round-trip
    use rand::RngCore;
    for _ in 0..(p.seed % 17) {
        rng.next_u64();
    }
    KMeans::params_with_rng(k, rng).n_runs(2).tolerance(1e-3).max_n_iterations(25).init_method(KMeansInit::KMeansPlusPlus)
}
fn fp_params(v: &Params, p: &P, f: &mut Fingerprint) {
    match v.check_ref() {
        Ok(valid) => {
            f.one("check_ok", true);
            f.one("n_runs", valid.n_runs());
            f.one("tolerance", valid.tolerance());
            f.one("max_iter", valid.max_n_iterations());
            f.one("n_clusters", valid.n_clusters());
            let m = valid.fit(&DatasetBase::from(train(p))).expect("refit");
            fp_model(&m, p, f);
        }
        Err(e) => f.err("check", &e),
    }
}

fn build_invalid_params(p: &P) -> Params {
    let _ = p;
    KMeans::params_with_rng(0, Xoshiro256Plus::seed_from_u64(1)).n_runs(0).tolerance(-1.0)
}

// one invalid field at a time, so that a restore that "repairs" or clamps a single field shows
// in the check() verdict even for types without PartialEq
fn build_invalid_n_runs(_p: &P) -> Params {
    KMeans::params_with_rng(3, Xoshiro256Plus::seed_from_u64(1)).n_runs(0)
}
fn build_invalid_max_iter(_p: &P) -> Params {
    KMeans::params_with_rng(3, Xoshiro256Plus::seed_from_u64(1)).max_n_iterations(0)
}
fn build_invalid_tolerance(_p: &P) -> Params {
    KMeans::params_with_rng(3, Xoshiro256Plus::seed_from_u64(1)).tolerance(0.0)
}
fn build_invalid_clusters(_p: &P) -> Params {
    KMeans::params_with_rng(0, Xoshiro256Plus::seed_from_u64(1))
}
fn build_boundary_params(p: &P) -> Params {
    // every field at its smallest valid value
    let (_, _, k) = dims(p);
    KMeans::params_with_rng(k, Xoshiro256Plus::seed_from_u64(p.seed)).n_runs(1).max_n_iterations(1).tolerance(f64::MIN_POSITIVE)
}

fn build_valid_params(p: &P) -> KMeansValidParams<f64, Xoshiro256Plus, L2Dist> {
    build_params(p).check().expect("valid")
}
fn fp_valid_params(v: &KMeansValidParams<f64, Xoshiro256Plus, L2Dist>, p: &P, f: &mut Fingerprint) {
    let m = v.fit(&DatasetBase::from(train(p))).expect("refit");
    fp_model(&m, p, f);
}

/// mini-batch history: the model is fed `b` consecutive batches; `NotConverged`
/// carries the model inside the error and is fed back (documented protocol)
fn incremental(p: &P) -> Fingerprint {
    let (n, _, k) = dims(p);
    let x = train(p);
    let params = KMeans::params_with_rng(k, Xoshiro256Plus::seed_from_u64(p.seed)).tolerance(1e-2).check().unwrap();
    let mut f = Fingerprint::new();
    let mut model: Option<KMeans<f64, L2Dist>> = None;
    let b = p.pick(3, 4, 6);
    let step = n / b;
    for i in 0..b {
        let batch = DatasetBase::from(x.slice(ndarray::s![i * step..(i + 1) * step, ..]).to_owned());
        let (m, conv) = match params.fit_with(model.take(), &batch) {
            Ok(m) => (m, true),
            Err(IncrKMeansError::NotConverged(m)) => (m, false),
            Err(e) => {
                f.err("fit_with", &e);
                return f;
            }
        };
        f.one(&format!("converged{i}"), conv);
        f.arr(&format!("centroids{i}"), m.centroids());
        f.arr(&format!("count{i}"), m.cluster_count());
        f.one(&format!("inertia{i}"), m.inertia());
        model = Some(m);
    }
    f
}

/// fewer distinct points than clusters: the initialisers' fallback branches (all remaining
/// sampling weights zero) are taken
fn few_distinct(init: KMeansInit<f64>, p: &P) -> Fingerprint {
    let n = p.pick(12, 40, 90);
    let x = Array2::from_shape_fn((n, 2), |(i, j)| if i % 2 == 0 { 1.0 + j as f64 } else { -3.0 + 2.0 * j as f64 });
    let ds = DatasetBase::from(x.clone());
    let mut f = Fingerprint::new();
    for k in [3usize, 4] {
        match KMeans::params_with(k, Xoshiro256Plus::seed_from_u64(p.seed), L2Dist).init_method(init.clone()).n_runs(2).max_n_iterations(10).fit(&ds) {
            Ok(m) => {
                f.arr(&format!("k{k}_centroids"), m.centroids());
                f.arr(&format!("k{k}_count"), m.cluster_count());
                f.one(&format!("k{k}_inertia"), m.inertia());
                f.arr(&format!("k{k}_predict"), &m.predict(&x));
            }
            Err(e) => f.err(&format!("k{k}_fit"), &e),
        }
    }
    f
}

/// hundreds of clusters (vector quantisation / codebook use): cluster counts beyond any
/// internal threshold at which an implementation might change strategy
fn many_clusters(default_builder: bool, p: &P) -> Fingerprint {
    let (n, k) = p.pick((300, 101), (700, 130), (1500, 260));
    let x = data::blobs(&mut p.rng(7), n, 3, 12, 1.5).0;
    let ds = DatasetBase::from(x.clone());
    let mut f = Fingerprint::new();
    let fitted = if default_builder {
        KMeans::params(k).max_n_iterations(4).n_runs(1).fit(&ds)
    } else {
        KMeans::params_with(k, Xoshiro256Plus::seed_from_u64(p.seed), L2Dist).max_n_iterations(4).n_runs(2).fit(&ds)
    };
    match fitted {
        Ok(m) => {
            f.arr("centroids", m.centroids());
            f.arr("cluster_count", m.cluster_count());
            f.one("inertia", m.inertia());
            f.arr("predict", &m.predict(&x));
        }
        Err(e) => f.err("fit", &e),
    }
    f
}

pub fn register(r: &mut Registry) {
    const K: &str = "linfa-clustering";
    r.scenario("kmeans_many_clusters_default", K, Kind::Claim, true, |p| many_clusters(true, p));
    r.scenario("kmeans_many_clusters_seeded", K, Kind::Claim, true, |p| many_clusters(false, p));
    r.scenario("kmeans_few_distinct_pp", K, Kind::Claim, true, |p| few_distinct(KMeansInit::KMeansPlusPlus, p));
    r.scenario("kmeans_few_distinct_random", K, Kind::Claim, true, |p| few_distinct(KMeansInit::Random, p));
    for (iname, l1, runs) in [("random", false, 1), ("random", true, 3), ("pp", false, 1), ("pp", false, 3), ("pp", true, 1), ("pre", false, 1), ("pre", true, 1)] {
        let name = format!("kmeans_{iname}_{}_r{runs}", if l1 { "l1" } else { "l2" });
        r.scenario(&name, K, Kind::Claim, true, move |p| {
            let init = match iname {
                "random" => KMeansInit::Random,
                "pp" => KMeansInit::KMeansPlusPlus,
                _ => precomputed(p),
            };
            fit_with(init, l1, runs, p)
        });
    }
    // the documented exclusion, kept as the schedule-sensitivity control
    r.scenario("kmeans_para_control", K, Kind::ControlSchedule, true, |p| fit_with(KMeansInit::KMeansPara, false, 1, p));
    r.scenario("kmeans_incremental", K, Kind::Claim, true, incremental);
    r.model::<KMeans<f64, L2Dist>>(
        "kmeans_default_model",
        K,
        &["KMeans"],
        Some((Kind::Claim, true)),
        build_default,
        |m, p, f| fp_model(m, p, f),
        Some(|a, b| a == b),
    );
    r.model::<Params>("kmeans_params", K, &["KMeansParams", "KMeansValidParams", "KMeansInit"], Some((Kind::Claim, true)), build_params, fp_params, Some(|a, b| a == b));
    r.model::<Params>("kmeans_params_invalid", K, &["KMeansParams"], None, build_invalid_params, fp_params, Some(|a, b| a == b));
    r.model::<Params>("kmeans_params_invalid_n_runs", K, &["KMeansParams"], None, build_invalid_n_runs, fp_params, None);
    r.model::<Params>("kmeans_params_invalid_max_iter", K, &["KMeansParams"], None, build_invalid_max_iter, fp_params, None);
    r.model::<Params>("kmeans_params_invalid_tolerance", K, &["KMeansParams"], None, build_invalid_tolerance, fp_params, None);
    r.model::<Params>("kmeans_params_invalid_clusters", K, &["KMeansParams"], None, build_invalid_clusters, fp_params, None);
    r.model::<Params>("kmeans_params_boundary", K, &["KMeansParams"], None, build_boundary_params, fp_params, Some(|a, b| a == b));
    r.model::<KMeansValidParams<f64, Xoshiro256Plus, L2Dist>>(
        "kmeans_valid_params",
        K,
        &["KMeansValidParams"],
        None,
        build_valid_params,
        fp_valid_params,
        Some(|a, b| a == b),
    );
    r.model::<KMeansInit<f64>>(
        "kmeans_init_precomputed",
        K,
        &["KMeansInit"],
        None,
        precomputed,
        |v, p, f| {
            if let KMeansInit::Precomputed(c) = v {
                f.arr("centroids", c);
            }
            let (_, _, k) = dims(p);
            let m = KMeans::params(k).init_method(v.clone()).fit(&DatasetBase::from(train(p))).expect("fit");
            fp_model(&m, p, f);
        },
        Some(|a, b| a == b),
    );
}
