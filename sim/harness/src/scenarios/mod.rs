//! Catalogue assembly.
use crate::scen::Registry;

pub mod kmeans;

pub fn registry() -> Registry {
    let mut r = Registry::default();
    kmeans::register(&mut r);
    r
}
