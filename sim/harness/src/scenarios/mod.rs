//! Catalogue assembly.
use crate::scen::Registry;

pub mod big;
pub mod big2;
pub mod cluster;
pub mod core_ds;
pub mod extremes;
pub mod kmeans;
pub mod linear;
pub mod reduce_prep;
pub mod svm_trees;

pub fn registry() -> Registry {
    let mut r = Registry::default();
    kmeans::register(&mut r);
    linear::register(&mut r);
    core_ds::register(&mut r);
    cluster::register(&mut r);
    big::register(&mut r);
    big2::register(&mut r);
    reduce_prep::register(&mut r);
    svm_trees::register(&mut r);
    extremes::register(&mut r);
    r
}
