//! Every estimator / transformer once more, this time with EVERY public operation — fit and each
//! inference / transform call — on inputs past the sizes at which a contributor would start to
//! block, chunk or parallelise a loop.  `big.rs` fits on big data but looks at ~10 query rows; the
//! other modules keep everything small.  Fits are kept cheap here (few rows or few iterations),
//! inference inputs are not.  What "past the size" means, learnt from seeded changes:
//! - row counts are never a multiple of 512 (a blocked loop has a partial last block), and the
//!   logistic models also predict on `k * 4096 + (21..60)` rows laid out in stretches, so that
//!   the short last block is of a different kind (moderate logits) than the full block before it
//!   (logits beyond +-40): a stale per-task buffer shows;
//! - a loop cut into tasks of >= 2048 rows has the same two tasks in every pool until it has more
//!   than 8192 rows: wherever it is cheap, inference inputs have > 16000 rows and one class of a
//!   classifier's (second, third) batch has > 8192 / > 16000 rows;
//! - models with more than 65536 features, response matrices / point sets / projection matrices
//!   with more than 65536 elements.
//!
//! All scenarios are registered with `uses_pool = true`: the point is to sweep pool sizes and
//! schedules over them.  A reference run of any of them stays below ~40 ms.
//!
//! Left out: t-SNE and hierarchical clustering (quadratic); `predict` of the wide elastic nets on
//! thousands of rows (a 5000 x 4200 query matrix alone costs more than the time budget: the wide
//! models predict on their few training rows, the tall ones on > 16000 rows); `AppxDbscan` (an
//! alias of `Dbscan` in this version).  linfa-ftrl has no `Fit`: models are created by
//! `fit_with(None, ..)` and by `Ftrl::new`.

use crate::fp::{Bits, Fingerprint};
use crate::prng::Prng;
use crate::scen::{Kind, Registry, P};
use linfa::composing::platt_scaling::{platt_newton_method, platt_predict, PlattValidParams};
use linfa::composing::Platt;
use linfa::dataset::{AsTargets, Labels, Pr, Records};
use linfa::metrics::{BinaryClassification, MultiTargetRegression, SingleTargetRegression, ToConfusionMatrix};
use linfa::prelude::*;
use linfa::Dataset;
use linfa_nn::distance::L2Dist;
use linfa_nn::NearestNeighbour;
use ndarray::{s, Array1, Array2, ArrayView1, Axis};
use rand::rngs::SmallRng;
use rand::SeedableRng;
use rand_xoshiro::Xoshiro256Plus;

// ------------------------------------------------------------------------------------------------
// shared generators
// ------------------------------------------------------------------------------------------------

/// `base + jitter`, never a multiple of 512 (hence of 1024): a blocked loop always has a tail
fn rows(p: &P, base: usize, jitter: u64) -> usize {
    let n = base + (p.seed % jitter) as usize;
    if n % 512 == 0 {
        n + 3
    } else {
        n
    }
}

/// class-shifted normals (class = row mod 3): records, regression target, boolean target, class
fn xy(p: &P, tag: u64, n: usize, d: usize) -> (Array2<f64>, Array1<f64>, Array1<bool>, Array1<usize>) {
    let mut r: Prng = p.rng(tag);
    let mut x = Array2::<f64>::zeros((n, d));
    let mut y = Array1::<f64>::zeros(n);
    let mut yb = Array1::from_elem(n, false);
    let mut yc = Array1::<usize>::zeros(n);
    for i in 0..n {
        let c = i % 3;
        let mut s = 0.0;
        for j in 0..d {
            let v = r.normal() * (1.0 + 0.5 * j as f64) + (c * (j + 1)) as f64 * 0.7;
            x[[i, j]] = v;
            s += v * ((j % 3) as f64 - 0.8);
        }
        y[i] = s + 0.3 * r.normal();
        yb[i] = s + r.normal() > 0.0;
        yc[i] = c;
    }
    (x, y, yb, yc)
}

/// cheap draws for the really large inputs, where Box–Muller alone would eat the time budget:
/// four 16-bit values per PRNG word
struct Draw16 {
    r: Prng,
    w: u64,
    k: u32,
}
impl Draw16 {
    fn new(p: &P, tag: u64) -> Draw16 {
        Draw16 { r: p.rng(tag), w: 0, k: 0 }
    }
    fn next(&mut self) -> u64 {
        if self.k == 0 {
            self.w = self.r.next_u64();
            self.k = 4;
        }
        self.k -= 1;
        let h = self.w & 0xFFFF;
        self.w >>= 16;
        h
    }
    /// uniform on a 1/4096 grid in [-8, 8)
    fn grid(&mut self) -> f64 {
        (self.next() as f64 - 32768.0) / 4096.0
    }
    /// bell-shaped (sum of two uniforms), standard deviation about 1, on a 1/16384 grid
    fn bell(&mut self) -> f64 {
        (self.next() as f64 + self.next() as f64 - 65535.0) / 26754.0
    }
}

/// cheap grid-valued matrix (values in [-8, 8) on a 1/4096 grid)
fn grid(p: &P, tag: u64, n: usize, d: usize) -> Array2<f64> {
    let mut r = Draw16::new(p, tag);
    Array2::from_shape_simple_fn((n, d), || r.grid())
}

/// `k` well separated blobs (blob = row mod k)
fn blobs(p: &P, tag: u64, n: usize, d: usize, k: usize) -> Array2<f64> {
    let mut r: Prng = p.rng(tag);
    Array2::from_shape_fn((n, d), |(i, j)| {
        let c = i % k;
        (c * (5 + j)) as f64 * if (c + j) % 2 == 0 { 1.0 } else { -1.0 } + 0.7 * r.normal()
    })
}

/// [`grid`] in column-major layout
fn grid_f(p: &P, tag: u64, n: usize, d: usize) -> Array2<f64> {
    grid(p, tag, d, n).reversed_axes()
}

#[derive(Clone, Copy, PartialEq)]
enum Layout {
    /// the four kinds of row alternate: every block of rows holds all of them
    Interleaved,
    /// long stretches (700 rows) of moderate rows alternate with stretches that hold saturating
    /// ones; the last rows (everything past the last multiple of 4096) are moderate again and
    /// follow a saturating stretch: the partial block at the end of a blocked loop differs in
    /// kind from the full block before it, for every power-of-two block length up to 4096
    Stretches,
}

/// `n` query rows cycling through `x`: kind 0 as they are, kind 1 shrunk (scores near zero),
/// kinds 2 / 3 moved along `w` until `row·w + b` is +(41..59) / -(41..59)
fn spread(x: &Array2<f64>, w: ArrayView1<f64>, b: f64, n: usize, layout: Layout) -> Array2<f64> {
    let ww = w.dot(&w).max(1e-12);
    let tail = n - n % 4096;
    let mut q = Array2::<f64>::zeros((n, x.ncols()));
    for i in 0..n {
        let src = x.row((i * 7) % x.nrows());
        let mut row = q.row_mut(i);
        row.assign(&src);
        let kind = match layout {
            Layout::Interleaved => i % 4,
            Layout::Stretches if i >= tail => 1,
            Layout::Stretches if (i / 700) % 2 == 1 || i + 700 >= tail => [2, 0, 3][i % 3],
            Layout::Stretches => i % 2,
        };
        match kind {
            0 => {}
            1 => row.mapv_inplace(|v| v * 0.015),
            k => {
                let t = (41 + i % 19) as f64 * if k == 2 { 1.0 } else { -1.0 };
                let shift = (t - b - src.dot(&w)) / ww;
                row.scaled_add(shift, &w);
            }
        }
    }
    q
}

/// a multiple of 4096 plus a short tail (21..60 rows)
fn rows_short_tail(p: &P, blocks: usize) -> usize {
    blocks * 4096 + 21 + (p.seed % 40) as usize
}

/// a model without accessors: its serde view (object keys sorted by serde_json's map)
fn state<M: serde::Serialize>(f: &mut Fingerprint, name: &str, m: &M) {
    match serde_json::to_value(m) {
        Ok(v) => f.text(name, &v.to_string()),
        Err(e) => f.err(name, &e),
    }
}

fn put<T: Bits, E: std::fmt::Display>(f: &mut Fingerprint, name: &str, r: Result<T, E>) {
    match r {
        Ok(v) => f.one(name, v),
        Err(e) => f.err(name, &e),
    }
}
fn put_arr<T: Bits, E: std::fmt::Display>(f: &mut Fingerprint, name: &str, r: Result<Array1<T>, E>) {
    match r {
        Ok(v) => f.arr(name, &v),
        Err(e) => f.err(name, &e),
    }
}

// ------------------------------------------------------------------------------------------------
// naive Bayes: one batch of `n` rows; `main`: all of that class except every `other`-th row.
// A per-class loop that is split into tasks of 2048 rows only varies its task count with the
// pool once a class has more than 8192 rows.
// ------------------------------------------------------------------------------------------------

fn nb_batch(p: &P, tag: u64, n: usize, main: Option<(usize, usize)>, counts: bool) -> (Array2<f64>, Array1<usize>) {
    let mut r = Draw16::new(p, tag);
    let y = Array1::from_shape_fn(n, |i| match main {
        Some((m, other)) if i % other != 0 => m,
        Some((m, other)) => (m + 1 + (i / other) % 2) % 3,
        None => i % 3,
    });
    let x = Array2::from_shape_fn((n, 4), |(i, j)| {
        if counts {
            (r.next() % (3 + y[i] * (j + 1) + j) as u64) as f64
        } else {
            r.bell() * (1.0 + 0.5 * j as f64) + (y[i] * (j + 1)) as f64 * 0.7
        }
    });
    (x, y)
}

macro_rules! nb_scenario {
    ($r:ident, $name:expr, $Model:ident, $counts:expr) => {
        $r.scenario($name, "linfa-bayes", Kind::Claim, true, |p| {
            let mut f = Fingerprint::new();
            let (q, _) = nb_batch(p, 0xB2A0, rows(p, 16500, 700), None, $counts);
            // one-shot fit: 9700 rows, 7/8 of them class 0
            let (x, y) = nb_batch(p, 0xB2A1, rows(p, 9700, 700), Some((0, 8)), $counts);
            match linfa_bayes::$Model::<f64, usize>::params().fit(&Dataset::new(x, y)) {
                Ok(m) => {
                    state(&mut f, "fit_state", &m);
                    f.arr("fit_predict", &m.predict(&q));
                }
                Err(e) => f.err("fit", &e),
            }
            // incremental: a mixed batch, then two batches that are almost entirely one class
            let params = match linfa_bayes::$Model::<f64, usize>::params().check() {
                Ok(v) => v,
                Err(e) => {
                    f.err("check", &e);
                    return f;
                }
            };
            let mut model = None;
            for (b, (n, main)) in [(600, None), (rows(p, 8300, 500), Some((1, 861))), (rows(p, 16500, 300), Some((2, 861)))].into_iter().enumerate() {
                let (x, y) = nb_batch(p, 0xB2B0 + b as u64, n, main, $counts);
                match params.fit_with(model.take(), &Dataset::new(x, y)) {
                    Ok(m) => model = m,
                    Err(e) => {
                        f.err(&format!("fit_with{b}"), &e);
                        return f;
                    }
                }
                if let Some(m) = &model {
                    state(&mut f, &format!("b{b}_state"), m);
                }
            }
            if let Some(m) = &model {
                f.arr("fit_with_predict", &m.predict(&q));
            }
            f
        });
    };
}

// ------------------------------------------------------------------------------------------------
// FTRL
// ------------------------------------------------------------------------------------------------

fn fp_ftrl(f: &mut Fingerprint, tag: &str, m: &linfa_ftrl::Ftrl<f64>, q: &Array2<f64>) {
    f.arr(&format!("{tag}_z"), m.z());
    f.arr(&format!("{tag}_n"), m.n());
    f.arr(&format!("{tag}_weights"), &m.get_weights());
    let pr: Array1<Pr> = m.predict(q);
    f.arr(&format!("{tag}_predict"), &pr);
}

/// `n` rows of `d` features, `nnz` of them non-zero per row (`nnz >= d`: dense)
fn ftrl_data(p: &P, tag: u64, n: usize, d: usize, nnz: usize) -> (Array2<f64>, Array1<bool>) {
    let mut r: Prng = p.rng(tag);
    let mut x = Array2::<f64>::zeros((n, d));
    let mut y = Array1::from_elem(n, false);
    for i in 0..n {
        let mut s = 0.0;
        if nnz >= d {
            for j in 0..d {
                let v = (r.normal() * 4.0).round() / 4.0;
                x[[i, j]] = v;
                s += v * (1.0 - (j % 3) as f64);
            }
        } else {
            for _ in 0..nnz {
                let j = r.below(d as u64) as usize;
                let v = (r.range(-2.0, 2.0) * 8.0).round() / 8.0;
                x[[i, j]] = v;
                s += v * (1.0 - (j % 3) as f64);
            }
        }
        y[i] = s > 0.0;
    }
    (x, y)
}

fn ftrl_run(p: &P, n: usize, d: usize, nnz: usize) -> Fingerprint {
    use linfa_ftrl::Ftrl;
    let mut f = Fingerprint::new();
    let (x, y) = ftrl_data(p, 0xF7A1, n, d, nnz);
    let (x2, y2) = ftrl_data(p, 0xF7A2, n, d, nnz);
    let (ds, ds2) = (Dataset::new(x.clone(), y), Dataset::new(x2.clone(), y2));
    // default builder (its own fixed seed), model created by `fit_with(None, ..)`
    match Ftrl::<f64>::params().alpha(0.1).l1_ratio(0.4).l2_ratio(0.3).check() {
        Ok(v) => match v.fit_with(None, &ds) {
            Ok(m) => {
                fp_ftrl(&mut f, "default_b0", &m, &x2);
                match v.fit_with(Some(m), &ds2) {
                    Ok(m) => fp_ftrl(&mut f, "default_b1", &m, &x),
                    Err(e) => f.err("default_fit_with1", &e),
                }
            }
            Err(e) => f.err("default_fit_with0", &e),
        },
        Err(e) => f.err("default_check", &e),
    }
    // seeded rng, model created by `Ftrl::new`, trained through `fit_with(Some)` and `update`
    match Ftrl::<f64>::params_with_rng(Xoshiro256Plus::seed_from_u64(p.seed)).alpha(0.05).beta(0.5).l1_ratio(0.6).l2_ratio(0.2).check() {
        Ok(v) => {
            let m = Ftrl::new(v.clone(), d);
            fp_ftrl(&mut f, "seeded_init", &m, &x);
            match v.fit_with(Some(m), &ds) {
                Ok(mut m) => {
                    let served: Array1<Pr> = m.predict(&x2);
                    m.update(&ds2, served.view());
                    fp_ftrl(&mut f, "seeded_updated", &m, &x);
                }
                Err(e) => f.err("seeded_fit_with", &e),
            }
        }
        Err(e) => f.err("seeded_check", &e),
    }
    match Ftrl::<f64>::params_with_rng(SmallRng::seed_from_u64(p.seed ^ 9)).check() {
        Ok(v) => match v.fit_with(None, &ds2) {
            Ok(m) => fp_ftrl(&mut f, "small", &m, &x),
            Err(e) => f.err("small_fit_with", &e),
        },
        Err(e) => f.err("small_check", &e),
    }
    f
}

// ------------------------------------------------------------------------------------------------
// PLS: n x 4 responses with n*4 > 66000; `constcol`: the first response column is constant
// ------------------------------------------------------------------------------------------------

fn pls_data(p: &P, n: usize, px: usize) -> (Array2<f64>, Array2<f64>) {
    let x = grid(p, 0x9150, n, px);
    let e = grid(p, 0x9151, n, 4);
    let y = Array2::from_shape_fn((n, 4), |(i, c)| x[[i, c % px]] - 0.5 * x[[i, (c + 1) % px]] + 0.25 * x[[i, (c + 2) % px]] + 0.3 * e[[i, c]]);
    (x, y)
}

macro_rules! pls_scenario {
    ($r:ident, $name:expr, $Ty:ident, $algo:ident, $px:expr, $ncomp:expr, $tol:expr, $variants:expr) => {
        $r.scenario($name, "linfa-pls", Kind::Claim, true, |p| {
            let mut f = Fingerprint::new();
            let n = rows(p, 16600, 700);
            let (x, y0) = pls_data(p, n, $px);
            for (tag, constcol) in $variants {
                let mut y = y0.clone();
                if constcol {
                    y.column_mut(0).fill(2.5);
                }
                // inference on all 16600 rows
                let (qx, qy) = (x.clone(), y.clone());
                match linfa_pls::$Ty::<f64>::params($ncomp).algorithm(linfa_pls::Algorithm::$algo).max_iterations(60).tolerance($tol).fit(&Dataset::new(x.clone(), y)) {
                    Ok(m) => {
                        let (a, b) = m.weights();
                        f.arr(&format!("{tag}_x_weights"), a);
                        f.arr(&format!("{tag}_y_weights"), b);
                        let (a, b) = m.loadings();
                        f.arr(&format!("{tag}_x_loadings"), a);
                        f.arr(&format!("{tag}_y_loadings"), b);
                        let (a, b) = m.rotations();
                        f.arr(&format!("{tag}_x_rotations"), a);
                        f.arr(&format!("{tag}_y_rotations"), b);
                        f.arr(&format!("{tag}_coefficients"), m.coefficients());
                        let pr: Array2<f64> = m.predict(&qx);
                        f.arr(&format!("{tag}_predict"), &pr);
                        let t = m.transform(Dataset::new(qx, qy));
                        f.arr(&format!("{tag}_transform_x"), t.records());
                        f.arr(&format!("{tag}_transform_y"), t.targets());
                        let inv = m.inverse_transform(t);
                        f.arr(&format!("{tag}_inverse_x"), inv.records());
                        f.arr(&format!("{tag}_inverse_y"), inv.targets());
                    }
                    Err(e) => f.err(&format!("{tag}_fit"), &e),
                }
            }
            f
        });
    };
}

// ------------------------------------------------------------------------------------------------
// SVM: tiny fit, thousands of query rows
// ------------------------------------------------------------------------------------------------

fn svm_data(p: &P, n: usize, nq: usize) -> (Array2<f64>, Array1<f64>, Array1<bool>, Array2<f64>) {
    let (x, y, yb, _) = xy(p, 0x5B20, n + (p.seed % 20) as usize, 3);
    let q = grid(p, 0x5B21, rows(p, nq, 700), 3) * 0.5;
    (x, y, yb, q)
}

fn fp_svm<T>(f: &mut Fingerprint, m: &linfa_svm::Svm<f64, T>, q: &Array2<f64>) {
    f.seq("alpha", m.alpha.iter().copied());
    f.one("rho", m.rho);
    f.one("nsupport", m.nsupport());
    f.seq("weighted_sum", q.outer_iter().map(|r| m.weighted_sum(&r)));
}

#[derive(Clone, Copy)]
enum Kern {
    Linear,
    Gaussian,
    Poly,
}

fn svm_kernel<T>(prm: linfa_svm::SvmParams<f64, T>, k: Kern) -> linfa_svm::SvmParams<f64, T> {
    match k {
        Kern::Linear => prm.linear_kernel(),
        Kern::Gaussian => prm.gaussian_kernel(20.0),
        Kern::Poly => prm.polynomial_kernel(1.0, 2.0),
    }
}

fn svm_bool(p: &P, k: Kern, nq: usize) -> Fingerprint {
    // (SMO on a polynomial kernel is the slowest of the three fits)
    let (x, _, yb, q) = svm_data(p, if matches!(k, Kern::Poly) { 44 } else { 70 }, nq);
    let mut f = Fingerprint::new();
    match svm_kernel(linfa_svm::Svm::<f64, bool>::params().eps(1e-3).pos_neg_weights(1.0, 1.0), k).fit(&Dataset::new(x, yb)) {
        Ok(m) => {
            fp_svm(&mut f, &m, &q);
            let pr: Array1<bool> = m.predict(&q);
            f.arr("predict", &pr);
        }
        Err(e) => f.err("fit", &e),
    }
    f
}

// ------------------------------------------------------------------------------------------------
// neighbour indices over > 66000 points in the plane
// ------------------------------------------------------------------------------------------------

fn nn_run<N: NearestNeighbour>(p: &P, algo: N, knn_queries: usize) -> Fingerprint {
    let n = rows(p, 66100, 700);
    let x = grid(p, 0x22A0, n, 2);
    let mut r: Prng = p.rng(0x22A1);
    let mut f = Fingerprint::new();
    let idx = match algo.from_batch(&x, L2Dist) {
        Ok(i) => i,
        Err(e) => {
            f.err("build", &e);
            return f;
        }
    };
    for qi in 0..12 {
        // stored points and points in between
        let q = if qi % 3 == 0 { x.row(r.below(n as u64) as usize).to_owned() } else { Array1::from(vec![r.range(-8.0, 8.0), r.range(-8.0, 8.0)]) };
        if qi < knn_queries {
            match idx.k_nearest(q.view(), 1 + 3 * qi) {
                Ok(h) => f.raw(&format!("knn{qi}"), h.iter().flat_map(|(pt, i)| [*i as u64, pt[0].to_bits(), pt[1].to_bits()])),
                Err(e) => f.err(&format!("knn{qi}"), &e),
            }
        }
        match idx.within_range(q.view(), 0.05 + 0.03 * qi as f64) {
            Ok(h) => {
                // the order inside a range answer is the index's traversal order: fingerprinted as returned
                f.raw(&format!("range{qi}"), h.iter().flat_map(|(pt, i)| [*i as u64, pt[0].to_bits(), pt[1].to_bits()]));
            }
            Err(e) => f.err(&format!("range{qi}"), &e),
        }
    }
    f
}

// ------------------------------------------------------------------------------------------------
// documents from a small mixed-case vocabulary
// ------------------------------------------------------------------------------------------------

const WORDS: [&str; 14] = ["alpha", "Beta", "GAMMA", "delta", "beta", "Alpha", "rust", "Rust", "tree", "leaf", "Leaf", "gamma", "sum", "map"];

fn docs(p: &P, tag: u64, n: usize) -> Array1<String> {
    let mut r: Prng = p.rng(tag);
    Array1::from_shape_fn(n, |i| {
        let len = 2 + (i % 4) + r.below(2) as usize;
        let mut s = String::new();
        for k in 0..len {
            if k > 0 {
                s.push(' ');
            }
            s.push_str(WORDS[r.below(WORDS.len() as u64) as usize]);
        }
        s
    })
}

/// Vectoriser output, canonical in the one respect linfa leaves open (which column a word gets):
/// for the vocabulary in sorted order, the word followed by its `(row, value)` entries
fn fp_sparse<N: Bits + Copy>(f: &mut Fingerprint, tag: &str, voc: &[String], m: &sprs::CsMat<N>) {
    f.seq(&format!("{tag}_shape"), [m.rows(), m.cols(), m.nnz()]);
    let mut by_col: Vec<Vec<u64>> = vec![Vec::new(); m.cols()];
    let mut entries: Vec<(usize, usize, u64)> = m.iter().map(|(v, (i, j))| (j, i, v.bits())).collect();
    entries.sort();
    for (j, i, v) in entries {
        by_col[j].extend([i as u64, v]);
    }
    let mut idx: Vec<usize> = (0..voc.len()).collect();
    idx.sort_by(|&a, &b| voc[a].cmp(&voc[b]));
    let mut out = Vec::new();
    for j in idx {
        out.push(voc[j].bits());
        match by_col.get(j) {
            Some(c) => {
                out.push(c.len() as u64);
                out.extend_from_slice(c);
            }
            None => out.push(u64::MAX),
        }
    }
    f.raw(&format!("{tag}_by_word"), out);
}

fn fp_vocabulary(f: &mut Fingerprint, voc: &[String], nentries: usize) {
    let mut sorted: Vec<&str> = voc.iter().map(|s| s.as_str()).collect();
    sorted.sort();
    f.text("vocabulary_sorted", &sorted.join(" | "));
    f.one("nentries", nentries);
}

// ------------------------------------------------------------------------------------------------

pub fn register(r: &mut Registry) {
    // ---------------------------------------------------------------------------- linfa-logistic
    r.scenario("big2_logistic_binary", "linfa-logistic", Kind::Claim, true, |p| {
        let (x, _, yb, _) = xy(p, 0x1061, 900 + (p.seed % 100) as usize, 4);
        let mut f = Fingerprint::new();
        match linfa_logistic::LogisticRegression::default().max_iterations(6).fit(&Dataset::new(x.clone(), yb)) {
            Ok(m) => {
                f.arr("params", m.params());
                f.one("intercept", m.intercept());
                for (tag, n, layout) in [("mixed", rows(p, 7800, 700), Layout::Interleaved), ("stretches", rows_short_tail(p, 4), Layout::Stretches)] {
                    let q = spread(&x, m.params().view(), m.intercept(), n, layout);
                    f.arr(&format!("{tag}_proba"), &m.predict_probabilities(&q));
                    f.arr(&format!("{tag}_predict"), &m.predict(&q));
                    f.arr(&format!("{tag}_predict_t90"), &m.clone().set_threshold(0.9).predict(&q));
                }
            }
            Err(e) => f.err("fit", &e),
        }
        f
    });
    r.scenario("big2_logistic_multi", "linfa-logistic", Kind::Claim, true, |p| {
        let (x, _, _, yc) = xy(p, 0x1062, 900 + (p.seed % 100) as usize, 3);
        let mut f = Fingerprint::new();
        match linfa_logistic::MultiLogisticRegression::default().max_iterations(5).fit(&Dataset::new(x.clone(), yc)) {
            Ok(m) => {
                f.arr("params", m.params());
                f.arr("intercept", m.intercept());
                // saturate class 1 (and push it far down) in half of the rows
                for (tag, n, layout) in [("mixed", rows(p, 7900, 600), Layout::Interleaved), ("stretches", rows_short_tail(p, 4), Layout::Stretches)] {
                    let q = spread(&x, m.params().column(1), m.intercept()[1], n, layout);
                    f.arr(&format!("{tag}_proba"), &m.predict_probabilities(&q));
                    f.arr(&format!("{tag}_predict"), &m.predict(&q));
                }
            }
            Err(e) => f.err("fit", &e),
        }
        f
    });

    // ------------------------------------------------------------------------------- linfa-bayes
    nb_scenario!(r, "big2_gaussian_nb", GaussianNb, false);
    nb_scenario!(r, "big2_multinomial_nb", MultinomialNb, true);

    // -------------------------------------------------------------------------------- linfa-ftrl
    r.scenario("big2_ftrl_wide", "linfa-ftrl", Kind::Claim, true, |p| ftrl_run(p, 8, 66000 + (p.seed % 700) as usize, 400));
    r.scenario("big2_ftrl_tall", "linfa-ftrl", Kind::Claim, true, |p| ftrl_run(p, rows(p, 20100, 700), 6, 6));

    // --------------------------------------------------------------------------------- linfa-pls
    const BOTH: [(&str, bool); 2] = [("plain", false), ("const", true)];
    pls_scenario!(r, "big2_pls_regression_nipals", PlsRegression, Nipals, 5, 2, 1e-3, BOTH);
    pls_scenario!(r, "big2_pls_regression_svd", PlsRegression, Svd, 5, 2, 1e-3, BOTH);
    pls_scenario!(r, "big2_pls_canonical_nipals", PlsCanonical, Nipals, 5, 2, 1e-3, BOTH);
    pls_scenario!(r, "big2_pls_canonical_svd", PlsCanonical, Svd, 5, 2, 1e-3, BOTH);
    // CCA's power method takes a pseudo-inverse of both blocks per component: three regressors,
    // one component, one fit per scenario
    pls_scenario!(r, "big2_pls_cca_nipals_plain", PlsCca, Nipals, 3, 1, 1e-3, [("plain", false)]);
    pls_scenario!(r, "big2_pls_cca_nipals_const", PlsCca, Nipals, 3, 1, 1e-3, [("const", true)]);
    pls_scenario!(r, "big2_pls_cca_svd", PlsCca, Svd, 5, 2, 1e-3, BOTH);

    // ------------------------------------------------------------------------------ linfa-linear
    r.scenario("big2_ols", "linfa-linear", Kind::Claim, true, |p| {
        let (x, y, _, _) = xy(p, 0x0151, rows(p, 20100, 900), 5);
        let mut f = Fingerprint::new();
        for (tag, icpt) in [("icpt", true), ("noicpt", false)] {
            match linfa_linear::LinearRegression::new().with_intercept(icpt).fit(&Dataset::new(x.clone(), y.clone())) {
                Ok(m) => {
                    f.arr(&format!("{tag}_params"), m.params());
                    f.one(&format!("{tag}_intercept"), m.intercept());
                    f.arr(&format!("{tag}_predict"), &m.predict(&x));
                }
                Err(e) => f.err(tag, &e),
            }
        }
        f
    });
    r.scenario("big2_isotonic", "linfa-linear", Kind::Claim, true, |p| {
        let n = rows(p, 66100, 700);
        let mut rr: Prng = p.rng(0x1507);
        // regressor on a grid of ~4000 values (many ties), noisy increasing response
        let x = Array2::from_shape_fn((n, 1), |_| rr.below(4000) as f64 / 16.0);
        let y = Array1::from_shape_fn(n, |i| (x[[i, 0]] * 0.1).floor() + (rr.below(9) as f64 - 4.0) * 0.5);
        let w = Array1::from_shape_fn(n, |i| 0.5 + (i % 4) as f32 * 0.5);
        let q = Array2::from_shape_fn((rows(p, 5100, 300), 1), |_| rr.range(-5.0, 260.0));
        let mut f = Fingerprint::new();
        for (tag, ds) in [("plain", Dataset::new(x.clone(), y.clone())), ("weighted", Dataset::new(x.clone(), y.clone()).with_weights(w))] {
            match linfa_linear::IsotonicRegression::new().fit(&ds) {
                Ok(m) => {
                    f.text(&format!("{tag}_debug_len"), &format!("{m:?}").len().to_string());
                    f.arr(&format!("{tag}_predict_train"), &m.predict(&x));
                    f.arr(&format!("{tag}_predict_query"), &m.predict(&q));
                }
                Err(e) => f.err(tag, &e),
            }
        }
        f
    });
    r.scenario("big2_tweedie", "linfa-linear", Kind::Claim, true, |p| {
        use linfa_linear::{Link, TweedieRegressor};
        let n = rows(p, 9100, 700);
        let mut rr: Prng = p.rng(0x73E1);
        // features shrunk by ~1/sqrt(n): the solver's first step is the raw gradient (a sum over
        // rows); on larger designs the line search of linfa's GLM never returns
        let k = 1.5 / (n as f64).sqrt();
        let x = Array2::from_shape_fn((n, 3), |_| rr.range(-1.0, 1.0) * k);
        let lin = x.dot(&ndarray::arr1(&[0.4 / k, -0.3 / k, 0.2 / k]));
        let y_pos = Array1::from_shape_fn(n, |i| (0.5 + lin[i]).exp() * rr.range(0.7, 1.3));
        let y_any = Array1::from_shape_fn(n, |i| 1.0 + lin[i] + 0.2 * rr.normal());
        let q = grid(p, 0x73E2, rows(p, 16500, 700), 3) * (k / 8.0);
        let mut f = Fingerprint::new();
        for (tag, prm, y) in [
            ("gamma_log", TweedieRegressor::<f64>::params().power(2.0).link(Link::Log).alpha(0.01).max_iter(6), &y_pos),
            ("normal_identity", TweedieRegressor::<f64>::params().power(0.0).link(Link::Identity).alpha(0.01).max_iter(6), &y_any),
        ] {
            match prm.fit(&Dataset::new(x.clone(), y.clone())) {
                Ok(m) => {
                    f.arr(&format!("{tag}_coef"), &m.coef);
                    f.one(&format!("{tag}_intercept"), m.intercept);
                    f.arr(&format!("{tag}_predict"), &m.predict(&x));
                    f.arr(&format!("{tag}_predict_query"), &m.predict(&q));
                }
                Err(e) => f.err(tag, &e),
            }
        }
        f
    });

    // -------------------------------------------------------------------------- linfa-elasticnet
    r.scenario("big2_elasticnet_tall", "linfa-elasticnet", Kind::Claim, true, |p| {
        let (x, y, _, _) = xy(p, 0xE1A1, rows(p, 8300, 700), 5);
        let q = grid(p, 0xE1A5, rows(p, 16500, 700), 5);
        let mut f = Fingerprint::new();
        for (tag, prm) in [("enet", linfa_elasticnet::ElasticNet::<f64>::params().penalty(0.1).l1_ratio(0.5)), ("lasso", linfa_elasticnet::ElasticNet::<f64>::lasso().penalty(0.3))] {
            match prm.max_iterations(12).fit(&Dataset::new(x.clone(), y.clone())) {
                Ok(m) => {
                    f.arr(&format!("{tag}_hyperplane"), m.hyperplane());
                    f.one(&format!("{tag}_intercept"), m.intercept());
                    f.one(&format!("{tag}_duality_gap"), m.duality_gap());
                    f.one(&format!("{tag}_n_steps"), m.n_steps());
                    f.arr(&format!("{tag}_predict"), &m.predict(&x));
                    f.arr(&format!("{tag}_predict_query"), &m.predict(&q));
                }
                Err(e) => f.err(tag, &e),
            }
        }
        f
    });
    // a design of more than 2^20 elements with correlated columns: the size at which an
    // implementation might start to ration expensive bookkeeping (convergence tests, logging)
    // by wall-clock time
    r.scenario("big2_elasticnet_million", "linfa-elasticnet", Kind::Claim, true, |p| {
        let (n, d) = (16400 + (p.seed % 200) as usize, 64);
        let mut x = grid(p, 0xE1A7, n, d);
        // moderately correlated columns: the first duality-gap test does not pass
        for i in 0..n {
            let base = x[[i, 0]];
            for j in 1..d {
                x[[i, j]] = 0.6 * base + 0.8 * x[[i, j]];
            }
        }
        let y = Array1::from_shape_fn(n, |i| x[[i, 0]] - 0.5 * x[[i, 7]] + 0.25 * x[[i, 63]] + (i % 5) as f64 * 0.125);
        let mut f = Fingerprint::new();
        // two tolerances: the cheap per-coordinate criterion starts to hold sweeps before the
        // duality gap certifies convergence, so how often the gap is looked at decides n_steps
        for tol in [1e-2, 1e-4] {
        match linfa_elasticnet::ElasticNet::<f64>::params().penalty(0.02).l1_ratio(0.5).tolerance(tol).max_iterations(10).fit(&Dataset::new(x.clone(), y.clone())) {
            Ok(m) => {
                f.arr(&format!("tol{tol:e}_hyperplane"), m.hyperplane());
                f.one(&format!("tol{tol:e}_intercept"), m.intercept());
                f.one(&format!("tol{tol:e}_duality_gap"), m.duality_gap());
                f.one(&format!("tol{tol:e}_n_steps"), m.n_steps());
            }
            Err(e) => f.err("fit", &e),
        }
        }
        f
    });
    r.scenario("big2_elasticnet_wide", "linfa-elasticnet", Kind::Claim, true, |p| {
        let (n, d) = (24, 4200 + (p.seed % 300) as usize);
        let x = grid(p, 0xE1A2, n, d);
        let y = Array1::from_shape_fn(n, |i| x[[i, 0]] - 0.5 * x[[i, d / 2]] + 0.25 * x[[i, d - 1]] + (i % 3) as f64 * 0.125);
        let mut f = Fingerprint::new();
        match linfa_elasticnet::ElasticNet::<f64>::params().penalty(0.05).l1_ratio(0.7).max_iterations(4).fit(&Dataset::new(x.clone(), y)) {
            Ok(m) => {
                f.arr("hyperplane", m.hyperplane());
                f.one("intercept", m.intercept());
                f.one("duality_gap", m.duality_gap());
                f.arr("predict", &m.predict(&x));
            }
            Err(e) => f.err("fit", &e),
        }
        f
    });
    r.scenario("big2_multitask_elasticnet_tall", "linfa-elasticnet", Kind::Claim, true, |p| {
        let (x, y, _, _) = xy(p, 0xE1A3, rows(p, 8300, 700), 5);
        let n = x.nrows();
        let ym = Array2::from_shape_fn((n, 3), |(i, t)| y[i] * (1.0 + t as f64) - x[[i, t]] + 0.5 * x[[(i + 1) % n, t + 1]]);
        let q = grid(p, 0xE1A6, rows(p, 16500, 700), 5);
        let mut f = Fingerprint::new();
        match linfa_elasticnet::MultiTaskElasticNet::<f64>::params().penalty(0.1).l1_ratio(0.5).max_iterations(10).fit(&Dataset::new(x.clone(), ym)) {
            Ok(m) => {
                f.arr("hyperplane", m.hyperplane());
                f.arr("intercept", m.intercept());
                f.one("duality_gap", m.duality_gap());
                f.one("n_steps", m.n_steps());
                f.arr("predict", &m.predict(&x));
                f.arr("predict_query", &m.predict(&q));
            }
            Err(e) => f.err("fit", &e),
        }
        f
    });
    r.scenario("big2_multitask_elasticnet_wide", "linfa-elasticnet", Kind::Claim, true, |p| {
        let (n, d) = (20, 4200 + (p.seed % 300) as usize);
        let x = grid(p, 0xE1A4, n, d);
        let ym = Array2::from_shape_fn((n, 2), |(i, t)| x[[i, t]] - 0.5 * x[[i, d / 2 + t]] + (i % 3) as f64 * 0.125);
        let mut f = Fingerprint::new();
        match linfa_elasticnet::MultiTaskElasticNet::<f64>::params().penalty(0.05).l1_ratio(0.7).max_iterations(3).fit(&Dataset::new(x.clone(), ym)) {
            Ok(m) => {
                f.arr("hyperplane", m.hyperplane());
                f.arr("intercept", m.intercept());
                f.one("duality_gap", m.duality_gap());
                f.arr("predict", &m.predict(&x));
            }
            Err(e) => f.err("fit", &e),
        }
        f
    });

    // --------------------------------------------------------------------------------- linfa-svm
    r.scenario("big2_svm_linear", "linfa-svm", Kind::Claim, true, |p| svm_bool(p, Kern::Linear, 16500));
    r.scenario("big2_svm_gaussian", "linfa-svm", Kind::Claim, true, |p| svm_bool(p, Kern::Gaussian, 8300));
    r.scenario("big2_svm_poly", "linfa-svm", Kind::Claim, true, |p| svm_bool(p, Kern::Poly, 8300));
    r.scenario("big2_svm_platt", "linfa-svm", Kind::Claim, true, |p| {
        let (x, _, yb, q) = svm_data(p, 70, 8300);
        let mut f = Fingerprint::new();
        match svm_kernel(linfa_svm::Svm::<f64, Pr>::params().eps(1e-3).pos_neg_weights(1.0, 1.0), Kern::Gaussian).fit(&Dataset::new(x, yb)) {
            Ok(m) => {
                fp_svm(&mut f, &m, &q);
                let pr: Array1<Pr> = m.predict(&q);
                f.arr("predict", &pr);
            }
            Err(e) => f.err("fit", &e),
        }
        f
    });
    r.scenario("big2_svm_regression", "linfa-svm", Kind::Claim, true, |p| {
        let (x, y, _, q) = svm_data(p, 36, 8300);
        let mut f = Fingerprint::new();
        for (tag, k) in [("linear", Kern::Linear), ("gaussian", Kern::Gaussian)] {
            match svm_kernel(linfa_svm::Svm::<f64, f64>::params().eps(1e-3).c_svr(2.0, Some(0.2)), k).fit(&Dataset::new(x.clone(), y.clone())) {
                Ok(m) => {
                    let mut g = Fingerprint::new();
                    fp_svm(&mut g, &m, &q);
                    let pr: Array1<f64> = m.predict(&q);
                    g.arr("predict", &pr);
                    f.extend(&format!("{tag}_"), g);
                }
                Err(e) => f.err(tag, &e),
            }
        }
        f
    });

    // ------------------------------------------------------------------------------- linfa-trees
    for (name, quality) in [("big2_tree_gini", linfa_trees::SplitQuality::Gini), ("big2_tree_entropy", linfa_trees::SplitQuality::Entropy)] {
        r.scenario(name, "linfa-trees", Kind::Claim, true, move |p| {
            let (x, _, _, yc) = xy(p, 0x73EE, rows(p, 9100, 700), 6);
            let q = grid(p, 0x73EF, rows(p, 16500, 500), 6);
            let mut f = Fingerprint::new();
            match linfa_trees::DecisionTree::<f64, usize>::params().split_quality(quality).max_depth(Some(3)).fit(&Dataset::new(x.clone(), yc)) {
                Ok(m) => {
                    f.one("max_depth", m.max_depth());
                    f.one("num_leaves", m.num_leaves());
                    f.seq("feature_importance", m.feature_importance());
                    f.seq("mean_impurity_decrease", m.mean_impurity_decrease());
                    f.seq("features", m.features());
                    f.raw("nodes", m.iter_nodes().flat_map(|n| [n.depth() as u64, n.is_leaf() as u64, n.split().0 as u64, n.split().1.to_bits(), n.prediction().map(|l| l as u64).unwrap_or(u64::MAX)]));
                    f.arr("predict_train", &m.predict(&x));
                    f.arr("predict_query", &m.predict(&q));
                }
                Err(e) => f.err("fit", &e),
            }
            f
        });
    }

    // -------------------------------------------------------------------------- linfa-clustering
    r.scenario("big2_kmeans_predict", "linfa-clustering", Kind::Claim, true, |p| {
        let (x, _, _, _) = xy(p, 0xC1A1, 300 + (p.seed % 50) as usize, 3);
        let (q, _, _, _) = xy(p, 0xC1A2, rows(p, 20100, 900), 3);
        let mut f = Fingerprint::new();
        match linfa_clustering::KMeans::params_with_rng(4, Xoshiro256Plus::seed_from_u64(p.seed)).max_n_iterations(8).n_runs(2).fit(&Dataset::from(x)) {
            Ok(m) => {
                f.arr("centroids", m.centroids());
                f.arr("cluster_count", m.cluster_count());
                f.one("inertia", m.inertia());
                f.arr("predict", &m.predict(&q));
                f.arr("transform", &m.transform(&q));
            }
            Err(e) => f.err("fit", &e),
        }
        f
    });
    r.scenario("big2_gmm_predict", "linfa-clustering", Kind::Claim, true, |p| {
        let x = blobs(p, 0xC1A3, 150 + (p.seed % 30) as usize, 3, 3);
        // blob members, points in between and far away
        let q = blobs(p, 0xC1A4, rows(p, 16500, 700), 3, 3) * &Array1::from_shape_fn(3, |j| 1.0 - 0.25 * j as f64);
        let mut f = Fingerprint::new();
        match linfa_clustering::GaussianMixtureModel::params_with_rng(3, Xoshiro256Plus::seed_from_u64(p.seed)).max_n_iterations(40).tolerance(1e-3).n_runs(1).fit(&Dataset::from(x)) {
            Ok(m) => {
                f.arr("weights", m.weights());
                f.arr("means", m.means());
                f.arr("covariances", m.covariances());
                f.arr("precisions", m.precisions());
                f.arr("predict", &m.predict(&q));
                f.arr("predict_proba", &m.predict_proba(&q));
            }
            Err(e) => f.err("fit", &e),
        }
        f
    });
    // seven blobs along a zig-zag with thin bridges, low dimension, small tolerance
    fn zigzag(p: &P, tag: u64, n: usize) -> Array2<f64> {
        let mut rr: Prng = p.rng(tag);
        Array2::from_shape_fn((n, 2), |(i, j)| {
            let c = (i * 7 / n) as f64;
            if j == 0 {
                c * 3.0 + 0.35 * rr.normal()
            } else {
                (c as usize % 2) as f64 * 2.5 + 0.35 * rr.normal()
            }
        })
    }
    r.scenario("big2_dbscan", "linfa-clustering", Kind::Claim, true, |p| {
        let x = zigzag(p, 0xDB52, rows(p, 4450, 300));
        let mut f = Fingerprint::new();
        match linfa_clustering::Dbscan::params(5).tolerance(0.15).check() {
            Ok(prm) => f.seq("labels", prm.transform(&x).iter().map(|l| l.map(|v| v as u64 + 1).unwrap_or(0))),
            Err(e) => f.err("params", &e),
        }
        f
    });
    r.scenario("big2_optics", "linfa-clustering", Kind::Claim, true, |p| {
        let x = zigzag(p, 0xDB53, rows(p, 4450, 300));
        let mut f = Fingerprint::new();
        match linfa_clustering::Optics::params::<f64>(5).tolerance(0.15).transform(x.view()) {
            Ok(a) => {
                f.seq("order", a.iter().map(|s| s.index()));
                f.seq("reachability", a.iter().map(|s| *s.reachability_distance()));
                f.seq("core", a.iter().map(|s| *s.core_distance()));
            }
            Err(e) => f.err("optics", &e),
        }
        f
    });

    // ---------------------------------------------------------------------------------- linfa-nn
    // (a linear k-nearest query pushes all 66000 points through a heap: six of them, twelve range queries)
    r.scenario("big2_nn_linear", "linfa-nn", Kind::Claim, true, |p| nn_run(p, linfa_nn::LinearSearch, 6));
    r.scenario("big2_nn_kdtree", "linfa-nn", Kind::Claim, true, |p| nn_run(p, linfa_nn::KdTree, 12));
    r.scenario("big2_nn_balltree", "linfa-nn", Kind::Claim, true, |p| nn_run(p, linfa_nn::BallTree, 12));

    // ------------------------------------------------------------------------------ linfa-kernel
    r.scenario("big2_kernel_dense", "linfa-kernel", Kind::Claim, true, |p| {
        use linfa_kernel::{Kernel, KernelMethod, KernelType};
        let n = 300 + (p.seed % 30) as usize;
        let (x, _, _, _) = xy(p, 0x4E21, n, 3);
        let rhs = grid(p, 0x4E22, n, 3);
        let mut f = Fingerprint::new();
        for (tag, method) in [("gaussian", KernelMethod::Gaussian(8.0)), ("poly", KernelMethod::Polynomial(1.0, 2.0)), ("linear", KernelMethod::Linear)] {
            let k = Kernel::params().method(method).kind(KernelType::Dense).transform(x.view());
            f.one(&format!("{tag}_size"), k.size());
            f.arr(&format!("{tag}_diagonal"), &k.diagonal());
            f.arr(&format!("{tag}_sum"), &k.sum());
            f.seq(&format!("{tag}_column"), k.column(n / 2));
            f.arr(&format!("{tag}_dot"), &k.dot(&rhs.view()));
            f.seq(&format!("{tag}_upper_triangle"), k.to_upper_triangle());
        }
        f
    });
    r.scenario("big2_kernel_sparse", "linfa-kernel", Kind::Claim, true, |p| {
        use linfa_kernel::{Kernel, KernelMethod, KernelType};
        let n = rows(p, 4450, 300);
        let x = grid(p, 0x4E23, n, 2);
        let rhs = grid(p, 0x4E24, n, 2);
        let mut f = Fingerprint::new();
        let k = Kernel::params().method(KernelMethod::Gaussian(0.5)).kind(KernelType::Sparse(5)).transform(x.view());
        f.one("size", k.size());
        f.arr("diagonal", &k.diagonal());
        f.arr("sum", &k.sum());
        for i in [0, n / 2, n - 1] {
            f.seq(&format!("column{i}"), k.column(i));
        }
        f.arr("dot", &k.dot(&rhs.view()));
        if let linfa_kernel::KernelInner::Sparse(m) = &k.inner {
            f.seq("indptr", m.indptr().raw_storage().to_vec());
            f.seq("indices", m.indices().to_vec());
            f.seq("data", m.data().to_vec());
        }
        f
    });

    // --------------------------------------------------------------------------- linfa-reduction
    r.scenario("big2_pca", "linfa-reduction", Kind::Claim, true, |p| {
        let (x, _, _, _) = xy(p, 0x9CA1, rows(p, 20100, 900), 5);
        let mut f = Fingerprint::new();
        for (tag, whiten) in [("plain", false), ("whiten", true)] {
            match linfa_reduction::Pca::params(3).whiten(whiten).fit(&Dataset::from(x.clone())) {
                Ok(m) => {
                    f.arr(&format!("{tag}_components"), m.components());
                    f.arr(&format!("{tag}_explained_variance"), &m.explained_variance());
                    f.arr(&format!("{tag}_explained_variance_ratio"), &m.explained_variance_ratio());
                    f.arr(&format!("{tag}_singular_values"), m.singular_values());
                    f.arr(&format!("{tag}_mean"), m.mean());
                    let t: Array2<f64> = m.predict(&x);
                    f.arr(&format!("{tag}_inverse"), &m.inverse_transform(t.slice(s![..5003, ..]).to_owned()));
                    f.arr(&format!("{tag}_predict"), &t);
                }
                Err(e) => f.err(tag, &e),
            }
        }
        f
    });
    r.scenario("big2_rproj_gaussian", "linfa-reduction", Kind::Claim, true, |p| {
        use linfa_reduction::random_projection::GaussianRandomProjection;
        // 520 x 128 projection matrix (> 66000 elements)
        let d = 520 + (p.seed % 40) as usize;
        let fit_x = grid(p, 0x9CA2, 4, d);
        let q = grid(p, 0x9CA3, rows(p, 5010, 300), d);
        let mut f = Fingerprint::new();
        match GaussianRandomProjection::<f64>::params_with_rng(Xoshiro256Plus::seed_from_u64(p.seed)).target_dim(128).fit(&Dataset::from(fit_x)) {
            Ok(m) => {
                let t: Array2<f64> = m.transform(&q);
                f.arr("transform", &t);
            }
            Err(e) => f.err("fit", &e),
        }
        match GaussianRandomProjection::<f64>::params().target_dim(128).fit(&Dataset::from(grid(p, 0x9CA2, 4, d))) {
            Ok(m) => {
                let t: Array2<f64> = m.transform(q.slice(s![..40, ..]).to_owned());
                f.arr("default_rng_transform", &t);
            }
            Err(e) => f.err("default_rng_fit", &e),
        }
        f
    });
    r.scenario("big2_rproj_sparse", "linfa-reduction", Kind::Claim, true, |p| {
        use linfa_reduction::random_projection::SparseRandomProjection;
        // 520 x 128 as well; the records are column-major (sprs' dense-by-sparse product walks the
        // columns of the left operand: on row-major records it costs five times as much)
        let d = 520 + (p.seed % 40) as usize;
        let fit_x = grid(p, 0x9CA4, 4, d);
        let q = grid_f(p, 0x9CA5, rows(p, 5010, 300), d);
        let mut f = Fingerprint::new();
        match SparseRandomProjection::<f64>::params_with_rng(Xoshiro256Plus::seed_from_u64(p.seed)).target_dim(128).fit(&Dataset::from(fit_x)) {
            Ok(m) => {
                let t: Array2<f64> = m.transform(&q);
                f.arr("transform", &t);
            }
            Err(e) => f.err("fit", &e),
        }
        match SparseRandomProjection::<f64>::params().target_dim(128).fit(&Dataset::from(grid(p, 0x9CA4, 4, d))) {
            Ok(m) => {
                let t: Array2<f64> = m.transform(q.slice(s![..40, ..]).to_owned());
                f.arr("default_rng_transform", &t);
            }
            Err(e) => f.err("default_rng_fit", &e),
        }
        f
    });

    // ----------------------------------------------------------------------- linfa-preprocessing
    r.scenario("big2_scaler_linear", "linfa-preprocessing", Kind::Claim, true, |p| {
        use linfa_preprocessing::linear_scaling::LinearScaler;
        let n = rows(p, 33100, 500);
        let mut rr: Prng = p.rng(0x5CA2);
        let x = Array2::from_shape_fn((n, 3), |(i, j)| rr.normal() * (1.0 + j as f64) + 1e3 * (j as f64) + (i % 5) as f64 * 0.01);
        let mut f = Fingerprint::new();
        for (name, prm) in [("standard", LinearScaler::standard()), ("minmax", LinearScaler::min_max()), ("maxabs", LinearScaler::max_abs())] {
            match prm.fit(&Dataset::from(x.clone())) {
                Ok(m) => {
                    f.arr(&format!("{name}_offsets"), m.offsets());
                    f.arr(&format!("{name}_scales"), m.scales());
                    f.arr(&format!("{name}_transform"), &m.transform(x.clone()));
                }
                Err(e) => f.err(name, &e),
            }
        }
        f
    });
    r.scenario("big2_scaler_norm", "linfa-preprocessing", Kind::Claim, true, |p| {
        use linfa_preprocessing::norm_scaling::NormScaler;
        let x = grid(p, 0x5CA3, rows(p, 33100, 500), 3);
        let mut f = Fingerprint::new();
        for (name, m) in [("l1", NormScaler::l1()), ("l2", NormScaler::l2()), ("max", NormScaler::max())] {
            f.arr(name, &m.transform(x.clone()));
        }
        f
    });
    r.scenario("big2_whitener", "linfa-preprocessing", Kind::Claim, true, |p| {
        use linfa_preprocessing::whitening::Whitener;
        let n = rows(p, 33100, 500);
        let mut rr: Prng = p.rng(0x5CA4);
        let x = Array2::from_shape_fn((n, 3), |(_, j)| rr.normal() * (1.0 + j as f64) + j as f64);
        let x = &x + &(&x.slice(s![.., 0..1]) * 0.5);
        let mut f = Fingerprint::new();
        for (name, prm) in [("pca", Whitener::pca()), ("cholesky", Whitener::cholesky()), ("zca", Whitener::zca())] {
            match prm.fit(&Dataset::from(x.clone())) {
                Ok(m) => {
                    f.arr(&format!("{name}_matrix"), &m.transformation_matrix());
                    f.arr(&format!("{name}_mean"), &m.mean());
                    f.arr(&format!("{name}_transform"), &m.transform(x.clone()));
                }
                Err(e) => f.err(name, &e),
            }
        }
        f
    });
    r.scenario("big2_count_vectorizer", "linfa-preprocessing", Kind::Claim, true, |p| {
        let d = docs(p, 0xD0C1, rows(p, 4350, 300));
        let mut f = Fingerprint::new();
        match linfa_preprocessing::CountVectorizer::params().n_gram_range(1, 2).fit(&d) {
            Ok(m) => {
                fp_vocabulary(&mut f, m.vocabulary(), m.nentries());
                match m.transform(&d) {
                    Ok(c) => fp_sparse(&mut f, "transform", m.vocabulary(), &c),
                    Err(e) => f.err("transform", &e),
                }
            }
            Err(e) => f.err("fit", &e),
        }
        f
    });
    r.scenario("big2_tfidf_vectorizer", "linfa-preprocessing", Kind::Claim, true, |p| {
        let d = docs(p, 0xD0C2, rows(p, 4350, 300));
        let mut f = Fingerprint::new();
        match linfa_preprocessing::tf_idf_vectorization::TfIdfVectorizer::default().n_gram_range(1, 2).fit(&d) {
            Ok(m) => {
                fp_vocabulary(&mut f, m.vocabulary(), m.nentries());
                match m.transform(&d) {
                    Ok(c) => fp_sparse(&mut f, "transform", m.vocabulary(), &c),
                    Err(e) => f.err("transform", &e),
                }
            }
            Err(e) => f.err("fit", &e),
        }
        f
    });

    // --------------------------------------------------------------------------------- linfa-ica
    r.scenario("big2_fast_ica", "linfa-ica", Kind::Claim, true, |p| {
        let n = rows(p, 20100, 900);
        let mut rr: Prng = p.rng(0x1CA1);
        // three mixed non-Gaussian sources
        let src = Array2::from_shape_fn((n, 3), |(i, j)| match j {
            0 => ((i as f64) * 0.013).sin(),
            1 => rr.range(-1.0, 1.0),
            _ => ((i / 37) % 2) as f64 - 0.5 + 0.05 * rr.unit(),
        });
        let x = src.dot(&ndarray::arr2(&[[1.0, 0.5, 0.2], [0.3, 1.0, -0.4], [-0.2, 0.6, 1.0]]));
        let mut f = Fingerprint::new();
        match linfa_ica::fast_ica::FastIca::<f64>::params().max_iter(6).tol(1e-4).random_state((p.seed % 1000) as usize).fit(&Dataset::from(x.clone())) {
            Ok(m) => {
                let t: Array2<f64> = m.predict(&x);
                f.arr("predict", &t);
            }
            Err(e) => f.err("fit", &e),
        }
        f
    });

    // ------------------------------------------------------------------------------------- linfa
    r.scenario("big2_dataset_ops", "linfa", Kind::Claim, true, |p| {
        let n = rows(p, 66100, 700);
        let x = grid(p, 0xD5A1, n, 2);
        let y = Array1::from_shape_fn(n, |i| ((x[[i, 0]] + 8.0) as usize + i % 2) % 5);
        let w = Array1::from_shape_fn(n, |i| 0.25 + (i % 7) as f32 * 0.25);
        let ds = Dataset::new(x, y).with_weights(w);
        let mut f = Fingerprint::new();
        let head = |f: &mut Fingerprint, tag: &str, d: &Dataset<f64, usize, ndarray::Ix1>| {
            f.one(&format!("{tag}_n"), d.nsamples());
            f.arr(&format!("{tag}_records"), d.records());
            f.arr(&format!("{tag}_targets"), d.targets());
            f.seq(&format!("{tag}_weights"), d.weights().map(|w| w.to_vec()).unwrap_or_default());
        };
        let mut rng = Xoshiro256Plus::seed_from_u64(p.seed);
        let sh = ds.shuffle(&mut rng);
        head(&mut f, "shuffle", &sh);
        let (a, b) = sh.split_with_ratio(0.7);
        head(&mut f, "split_a", &a);
        head(&mut f, "split_b", &b);
        for (i, bs) in ds.bootstrap_samples(n / 4, &mut rng).take(2).enumerate() {
            f.arr(&format!("bootstrap{i}_records"), bs.records());
            f.arr(&format!("bootstrap{i}_targets"), bs.targets());
        }
        let mut freq: Vec<(usize, f32)> = ds.label_frequencies().into_iter().collect();
        freq.sort_by(|a, b| a.0.cmp(&b.0));
        f.seq("label_frequencies_sorted", freq);
        f.seq("labels", ds.labels());
        match ds.one_vs_all() {
            Ok(v) => {
                f.seq("ova_labels", v.iter().map(|(l, _)| *l));
                for (l, d) in &v {
                    f.arr(&format!("ova{l}_targets"), &d.as_targets());
                }
            }
            Err(e) => f.err("one_vs_all", &e),
        }
        f
    });
    r.scenario("big2_dataset_fold", "linfa", Kind::Claim, true, |p| {
        let n = rows(p, 66100, 700);
        let x = grid(p, 0xD5A2, n, 2);
        let y = Array1::from_shape_fn(n, |i| x[[i, 0]] - x[[i, 1]]);
        let ds = Dataset::new(x, y);
        let mut f = Fingerprint::new();
        for (i, (train, valid)) in ds.fold(7).into_iter().enumerate() {
            f.seq(&format!("fold{i}_sizes"), [train.nsamples(), valid.nsamples()]);
            f.arr(&format!("fold{i}_train_head"), &train.records().slice(s![..3, ..]));
            f.arr(&format!("fold{i}_valid"), valid.records());
            f.arr(&format!("fold{i}_valid_targets"), valid.targets());
            f.one(&format!("fold{i}_train_sum"), train.targets().sum());
        }
        for (i, ch) in ds.sample_chunks(n / 5 + 1).enumerate() {
            f.one(&format!("chunk{i}_n"), ch.nsamples());
            f.arr(&format!("chunk{i}_records"), ch.records());
            f.arr(&format!("chunk{i}_targets"), &ch.targets().as_targets());
        }
        f
    });
    r.scenario("big2_metrics_classification", "linfa", Kind::Claim, true, |p| {
        let n = rows(p, 66100, 700);
        let mut rr: Prng = p.rng(0x3E71);
        let truth = Array1::from_shape_fn(n, |_| rr.below(4) as usize);
        let pred = Array1::from_shape_fn(n, |i| if rr.below(10) < 7 { truth[i] } else { rr.below(4) as usize });
        let mut f = Fingerprint::new();
        match pred.confusion_matrix(&truth) {
            Ok(cm) => {
                f.text("debug", &format!("{cm:?}"));
                f.one("accuracy", cm.accuracy());
                f.one("precision", cm.precision());
                f.one("recall", cm.recall());
                f.one("f1", cm.f1_score());
                f.one("mcc", cm.mcc());
                for (i, b) in cm.split_one_vs_all().iter().enumerate() {
                    f.seq(&format!("ova{i}"), [b.accuracy(), b.precision(), b.recall(), b.f1_score(), b.mcc()]);
                }
            }
            Err(e) => f.err("confusion_matrix", &e),
        }
        let (tb, pb) = (truth.mapv(|v| v < 2), pred.mapv(|v| v < 2));
        match pb.confusion_matrix(&tb) {
            Ok(cm) => f.seq("binary", [cm.accuracy(), cm.precision(), cm.recall(), cm.f1_score(), cm.mcc()]),
            Err(e) => f.err("binary", &e),
        }
        f
    });
    r.scenario("big2_metrics_roc", "linfa", Kind::Claim, true, |p| {
        let n = rows(p, 66100, 700);
        let mut rr: Prng = p.rng(0x3E72);
        // scores on a grid of 1024 values: plenty of exact ties
        let pr = Array1::from_shape_fn(n, |_| Pr::new(rr.below(1025) as f32 / 1024.0));
        let y = Array1::from_shape_fn(n, |i| rr.unit() < (*pr[i] as f64) * 0.8 + 0.1);
        let ys = y.as_slice().expect("contiguous");
        let mut f = Fingerprint::new();
        match pr.roc(ys) {
            Ok(c) => {
                f.raw("curve", c.get_curve().into_iter().flat_map(|(a, b)| [a.bits(), b.bits()]));
                f.seq("thresholds", c.get_thresholds());
                f.one("auc", c.area_under_curve());
            }
            Err(e) => f.err("roc", &e),
        }
        put(&mut f, "log_loss", pr.log_loss(ys));
        f
    });
    r.scenario("big2_metrics_regression", "linfa", Kind::Claim, true, |p| {
        let n = rows(p, 66100, 700);
        let mut rr: Prng = p.rng(0x3E73);
        let truth = Array1::from_shape_fn(n, |_| 1.0 + rr.below(4000) as f64 / 64.0);
        let pred = Array1::from_shape_fn(n, |i| if i % 4 == 0 { truth[i] } else { truth[i] + (rr.below(9) as f64 - 4.0) * 0.25 });
        let mut f = Fingerprint::new();
        put(&mut f, "max_error", pred.max_error(&truth));
        put(&mut f, "mae", pred.mean_absolute_error(&truth));
        put(&mut f, "mse", pred.mean_squared_error(&truth));
        put(&mut f, "msle", pred.mean_squared_log_error(&truth));
        put(&mut f, "medae", pred.median_absolute_error(&truth));
        put(&mut f, "mape", pred.mean_absolute_percentage_error(&truth));
        put(&mut f, "r2", pred.r2(&truth));
        put(&mut f, "explained_variance", pred.explained_variance(&truth));
        let h = n / 2;
        let t2 = ndarray::stack(Axis(1), &[truth.slice(s![..h]), truth.slice(s![h..2 * h])]).expect("stack");
        let p2 = ndarray::stack(Axis(1), &[pred.slice(s![..h]), pred.slice(s![h..2 * h])]).expect("stack");
        put_arr(&mut f, "multi_max_error", p2.max_error(&t2));
        put_arr(&mut f, "multi_mae", p2.mean_absolute_error(&t2));
        put_arr(&mut f, "multi_mse", p2.mean_squared_error(&t2));
        put_arr(&mut f, "multi_medae", p2.median_absolute_error(&t2));
        put_arr(&mut f, "multi_r2", p2.r2(&t2));
        put_arr(&mut f, "multi_explained_variance", p2.explained_variance(&t2));
        f
    });
    r.scenario("big2_platt", "linfa", Kind::Claim, true, |p| {
        let n = rows(p, 20100, 900);
        let mut rr: Prng = p.rng(0x91A7);
        let dec = Array1::from_shape_fn(n, |_| (rr.normal() * 2.0 * 16.0).round() / 16.0);
        let y = Array1::from_shape_fn(n, |i| dec[i] + 1.5 * rr.normal() > 0.25);
        let mut f = Fingerprint::new();
        let prm: PlattValidParams<f64, ()> = match Platt::params().check() {
            Ok(v) => v,
            Err(e) => {
                f.err("check", &e);
                return f;
            }
        };
        match platt_newton_method(dec.view(), y.view(), &prm) {
            Ok((a, b)) => {
                f.one("a", a);
                f.one("b", b);
                f.seq("platt_predict", dec.iter().map(|&d| platt_predict(d, a, b)));
            }
            Err(e) => f.err("newton", &e),
        }
        // the composed model over a fitted linear regression, predicting on all rows
        let x = Array2::from_shape_fn((n, 2), |(i, j)| if j == 0 { dec[i] } else { (i % 9) as f64 * 0.125 });
        match linfa_linear::LinearRegression::new().fit(&Dataset::new(x.clone(), y.mapv(|b| if b { 1.0 } else { -1.0 }))) {
            Ok(lin) => {
                let fit: Result<Platt<f64, _>, _> = Platt::params().fit_with(lin, &Dataset::new(x.clone(), y.clone()));
                match fit {
                    Ok(m) => {
                        let pr: Array1<Pr> = m.predict(&x);
                        f.arr("composed_predict", &pr);
                    }
                    Err(e) => f.err("composed_fit", &e),
                }
            }
            Err(e) => f.err("linear_fit", &e),
        }
        f
    });
}
