//! `linfa` core crate (/repo/src): dataset label facilities, dataset operations with a
//! caller-supplied seeded rng, metrics, correlation, composing (Platt scaling,
//! `MultiTargetModel`, `MultiClassModel`) and the serde-deriving error enums.
//!
//! Module is called `core_ds` (not `core`) so that it does not shadow the `core` crate
//! inside `scenarios`; every scenario name still carries the `core_` prefix.
//!
//! ## Ordered / unordered decisions (from the doc comments in /repo/src/dataset)
//! * `Labels::label_count()`, `Labels::label_set()`, `label_frequencies()`,
//!   `label_frequencies_with_mask()` return `HashMap`/`HashSet`: the *return type itself*
//!   documents the order as arbitrary (std's contract), so the iteration order goes into
//!   `core_raworder_*` scenarios with `Kind::NoCompare`, and the sorted content into the
//!   `core_labels_*` scenarios (`*_canonical` fields, `Kind::Claim`).
//! * `Labels::labels()` and `Labels::combined_labels()` return a `Vec<L>` and have no doc comment
//!   at all (the trait only says "Get the labels in all targets"): nothing says "unordered", so
//!   the raw order is `Kind::Claim` (`core_raworder_labels_*`, `core_raworder_combined_labels_*`).
//! * `one_vs_all()` returns a `Vec<(L, dataset)>`; doc: "Produce N boolean targets from
//!   multi-class targets ... splits a dataset into multiple binary single-target views" — no
//!   word about order, so the sequence as returned is `Kind::Claim`
//!   (`core_raworder_one_vs_all_*`); the label-sorted content is `core_one_vs_all_*`.
//! * `confusion_matrix` documents "Sort classes to get reproducible confusion_matrix": raw.
//!
//! ## C19
//! `grep -rn 'derive(Serialize, Deserialize)' /repo/src` finds exactly two types:
//! `linfa::error::Error` and `linfa::composing::platt_scaling::PlattError`.
//!
//! NOT SERDE-DERIVING in this tree (so no C19 entry is possible; they only get C20
//! scenarios): `Platt<F, O>`, `PlattParams<F, O>`, `PlattValidParams<F, O>`,
//! `PearsonCorrelation`, `ConfusionMatrix`, `ReceiverOperatingCharacteristic`, `DatasetBase`,
//! `CountedTargets`, `Pr`, `MultiClassModel`, `MultiTargetModel`.
//!
//! UNREACHABLE: none of the serde-deriving types.  Notes on variants:
//! * `Error::NdShape` is `#[serde(skip)]`: reachable (`Error::from(ShapeError)`) but
//!   serialising it fails by construction — registered as `core_error_ndshape_skipped`, which
//!   is EXPECTED to report a codec error (that is linfa's behaviour, see the report).
//! * KNOWN C19 FAILURES (linfa's fault, see report): because `NdShape` (declaration index 3)
//!   is skipped, serde's derived `Serialize` still writes `NotEnoughSamples` as variant index 4
//!   and `MismatchedShapes` as 5, while the derived `Deserialize` renumbers the remaining five
//!   variants 0..=4.  With an index-based codec (bincode) `NotEnoughSamples` is read back as
//!   "MismatchedShapes, two more words please" (EOF, or silently swallows following bytes) and
//!   `MismatchedShapes` as "invalid variant index 5".  Entries `core_error_not_enough_samples`,
//!   `core_error_mismatched_shapes`, `core_platt_error_linfa`, `core_platt_error_linfa_not_enough`
//!   report codec errors for that reason; serde_json (name-based) is unaffected.
//! * `PlattError::MaxIterZero` is never produced by linfa (`check_ref` returns
//!   `MaxIterReached` for `maxiter == 0`); it is constructed directly.

#![allow(clippy::type_complexity)]

use crate::data;
use crate::fp::{Bits, Fingerprint};
use crate::prng::Prng;
use crate::scen::{Kind, Registry, P};
use linfa::composing::platt_scaling::{platt_newton_method, platt_predict, PlattValidParams};
use linfa::composing::{MultiClassModel, MultiTargetModel, Platt, PlattError, PlattParams};
use linfa::dataset::{AsTargets, CountedTargets, Label, Labels, Pr, Records};
use linfa::metrics::{
    BinaryClassification, ConfusionMatrix, MultiTargetRegression, SilhouetteScore, SingleTargetRegression,
    ToConfusionMatrix,
};
use linfa::traits::{Fit, FitWith, Predict, PredictInplace};
use linfa::{Dataset, DatasetBase, ParamGuard};
use linfa_linear::{FittedLinearRegression, LinearError, LinearRegression};
use ndarray::{s, Array1, Array2, ArrayBase, ArrayView1, ArrayView2, Axis, Data, Ix2};
use rand::rngs::SmallRng;
use rand::SeedableRng;
use rand_xoshiro::Xoshiro256Plus;
use std::collections::{HashMap, HashSet};

const K: &str = "linfa";

// ------------------------------------------------------------------------------------------
// label types
// ------------------------------------------------------------------------------------------

/// label values are deliberately NOT monotone in the class index
const USIZES: [usize; 10] = [3, 17, 0, 250, 9, 1_000_003, 42, 5, 77, 64];
const NAMES: [&str; 10] = ["pear", "apple", "zebra", "mango", "Apple", "kiwi", "fig", "date", "\u{e9}clair", "nut"];

trait Lab: Label + Bits + Send + Sync + std::fmt::Display + 'static {
    const NAME: &'static str;
    fn conv(c: usize) -> Self;
}
impl Lab for usize {
    const NAME: &'static str = "usize";
    fn conv(c: usize) -> Self {
        USIZES[c % 10]
    }
}
impl Lab for bool {
    const NAME: &'static str = "bool";
    fn conv(c: usize) -> Self {
        c % 2 == 1
    }
}
impl Lab for String {
    const NAME: &'static str = "string";
    fn conv(c: usize) -> Self {
        NAMES[c % 10].to_string()
    }
}
impl Lab for &'static str {
    const NAME: &'static str = "str";
    fn conv(c: usize) -> Self {
        NAMES[c % 10]
    }
}

struct LabData<L> {
    x: Array2<f64>,
    /// single target, classes 0..=k: several classes with exactly equal counts plus one rare class
    y1: Array1<L>,
    /// two target columns
    y2: Array2<L>,
    /// a second label vector over classes 1..=k+1 (label sets differ from `y1`)
    other: Array1<L>,
    /// a "prediction" of `y1`: right on three rows out of five, `other` elsewhere
    pred: Array1<L>,
    w: Array1<f32>,
}

fn class_ids(p: &P, r: &mut Prng) -> (usize, usize, Vec<usize>) {
    let (n, k) = p.pick((24, 4), (240, 6), (2400, 8));
    let mut cls: Vec<usize> = (0..n).map(|i| if i + 3 >= n { k } else { i % k }).collect();
    r.shuffle(&mut cls);
    (n, k, cls)
}

fn lab_data<L: Lab>(p: &P) -> LabData<L> {
    let mut r = p.rng(11);
    let (n, k, cls) = class_ids(p, &mut r);
    // integer grid features, each row duplicated somewhere with another class
    let x = Array2::from_shape_fn((n, 3), |(i, j)| ((cls[i] * (j + 1) + (i / 5) % 3) % 5) as f64);
    let y1 = Array1::from_shape_fn(n, |i| L::conv(cls[i]));
    let y2 = Array2::from_shape_fn((n, 2), |(i, j)| if j == 0 { L::conv(cls[i]) } else { L::conv((cls[i] * 3 + i % 3) % (k + 1)) });
    let other = Array1::from_shape_fn(n, |i| L::conv(1 + (cls[i] + i % 2) % (k + 1)));
    let w = Array1::from_shape_fn(n, |_| [0.25f32, 0.5, 1.0, 2.0][r.below(4) as usize]);
    let pred = Array1::from_shape_fn(n, |i| if i % 5 < 3 { y1[i].clone() } else { other[i].clone() });
    LabData { x, y1, y2, other, pred, w }
}

fn put_pairs<L: Bits, V: Bits>(f: &mut Fingerprint, name: &str, v: &[(L, V)]) {
    f.raw(name, v.iter().flat_map(|(l, c)| [l.bits(), c.bits()]));
}
fn sorted_map<L: Lab, V: Copy>(m: &HashMap<L, V>) -> Vec<(L, V)> {
    let mut v: Vec<(L, V)> = m.iter().map(|(a, b)| (a.clone(), *b)).collect();
    v.sort_by(|a, b| a.0.cmp(&b.0));
    v
}
fn raw_map<L: Lab, V: Copy>(m: &HashMap<L, V>) -> Vec<(L, V)> {
    m.iter().map(|(a, b)| (a.clone(), *b)).collect()
}
fn sorted_set<L: Lab>(m: &HashSet<L>) -> Vec<L> {
    let mut v: Vec<L> = m.iter().cloned().collect();
    v.sort();
    v
}
fn sorted<L: Ord>(mut v: Vec<L>) -> Vec<L> {
    v.sort();
    v
}

fn masks(n: usize) -> Vec<bool> {
    // shorter than the data on purpose: rows past the mask count as `true`
    (0..n / 2).map(|i| i % 3 != 0).collect()
}

/// everything the label facilities return, canonicalised (sorted by label)
fn labels_canonical<L: Lab>(p: &P) -> Fingerprint {
    let d = lab_data::<L>(p);
    let mut f = Fingerprint::new();
    let n = d.x.nrows();
    let ds1 = DatasetBase::new(d.x.clone(), d.y1.clone()).with_weights(d.w.clone());
    let ds2 = DatasetBase::new(d.x.clone(), d.y2.clone()).with_weights(d.w.clone());
    let plain = DatasetBase::new(d.x.clone(), d.y1.clone());
    f.seq("array1_labels_canonical", sorted(d.y1.labels()));
    f.seq("array2_labels_canonical", sorted(d.y2.labels()));
    f.seq("ds1_labels_canonical", sorted(ds1.labels()));
    f.seq("ds2_labels_canonical", sorted(ds2.labels()));
    for (t, m) in ds1.label_count().iter().enumerate() {
        put_pairs(&mut f, &format!("ds1_label_count{t}_canonical"), &sorted_map(m));
    }
    for (t, m) in ds2.label_count().iter().enumerate() {
        put_pairs(&mut f, &format!("ds2_label_count{t}_canonical"), &sorted_map(m));
    }
    for (t, m) in ds2.label_set().iter().enumerate() {
        f.seq(&format!("ds2_label_set{t}_canonical"), sorted_set(m));
    }
    f.seq("combined_labels_canonical", sorted(d.y1.combined_labels(&d.other)));
    f.seq("combined_labels_ds_canonical", sorted(ds1.combined_labels(&d.other)));
    put_pairs(&mut f, "ds1_label_frequencies_canonical", &sorted_map(&ds1.label_frequencies()));
    put_pairs(&mut f, "ds2_label_frequencies_canonical", &sorted_map(&ds2.label_frequencies()));
    put_pairs(&mut f, "plain_label_frequencies_canonical", &sorted_map(&plain.label_frequencies()));
    put_pairs(&mut f, "ds1_label_frequencies_with_mask_canonical", &sorted_map(&ds1.label_frequencies_with_mask(&masks(n))));
    put_pairs(&mut f, "ds2_label_frequencies_with_mask_canonical", &sorted_map(&ds2.label_frequencies_with_mask(&masks(n))));
    // counted targets built from plain ones
    let ct = CountedTargets::new(d.y1.clone());
    for (t, m) in ct.label_count().iter().enumerate() {
        put_pairs(&mut f, &format!("counted_label_count{t}_canonical"), &sorted_map(m));
    }
    f.seq("counted_labels_canonical", sorted(ct.labels()));
    f.seq("counted_targets", ct.as_targets().iter().cloned());
    f
}

fn raworder_labels<L: Lab>(p: &P) -> Fingerprint {
    let d = lab_data::<L>(p);
    let mut f = Fingerprint::new();
    let ds1 = DatasetBase::new(d.x.clone(), d.y1.clone());
    let ds2 = DatasetBase::new(d.x.clone(), d.y2.clone());
    f.seq("array1_labels_raw_order", d.y1.labels());
    f.seq("array2_labels_raw_order", d.y2.labels());
    f.seq("ds1_labels_raw_order", ds1.labels());
    f.seq("ds2_labels_raw_order", ds2.labels());
    f.seq("counted_labels_raw_order", CountedTargets::new(d.y1.clone()).labels());
    // every `HashSet` gets fresh `RandomState` keys: two calls on the same value in the same
    // process need not agree with each other
    let repeats: Vec<bool> = (0..8).map(|_| ds1.labels() == ds1.labels()).collect();
    f.seq("labels_repeat_equal_raw_order", repeats);
    f
}
fn raworder_combined_labels<L: Lab>(p: &P) -> Fingerprint {
    let d = lab_data::<L>(p);
    let mut f = Fingerprint::new();
    f.seq("combined_labels_raw_order", d.y1.combined_labels(&d.other));
    f.seq("combined_labels_rev_raw_order", d.other.combined_labels(&d.y1));
    f
}
fn raworder_label_count<L: Lab>(p: &P) -> Fingerprint {
    let d = lab_data::<L>(p);
    let mut f = Fingerprint::new();
    for (t, m) in d.y2.label_count().iter().enumerate() {
        put_pairs(&mut f, &format!("label_count{t}_raw_order"), &raw_map(m));
    }
    for (t, m) in d.y2.label_set().iter().enumerate() {
        f.seq(&format!("label_set{t}_raw_order"), m.iter().cloned());
    }
    f
}
fn raworder_label_frequencies<L: Lab>(p: &P) -> Fingerprint {
    let d = lab_data::<L>(p);
    let n = d.x.nrows();
    let mut f = Fingerprint::new();
    let ds1 = DatasetBase::new(d.x.clone(), d.y1.clone()).with_weights(d.w.clone());
    put_pairs(&mut f, "label_frequencies_raw_order", &raw_map(&ds1.label_frequencies()));
    put_pairs(&mut f, "label_frequencies_with_mask_raw_order", &raw_map(&ds1.label_frequencies_with_mask(&masks(n))));
    f
}

fn fp_one_vs_all<L: Lab>(f: &mut Fingerprint, suffix: &str, v: &[(L, DatasetBase<ArrayView2<'_, f64>, CountedTargets<bool, Array1<bool>>>)]) {
    f.seq(&format!("labels_{suffix}"), v.iter().map(|(l, _)| l.clone()));
    for (i, (_, ds)) in v.iter().enumerate() {
        f.arr(&format!("targets{i}_{suffix}"), &ds.targets().as_targets());
        put_pairs(f, &format!("label_count{i}_{suffix}"), &sorted_map(&ds.label_count()[0]));
        f.one(&format!("nsamples{i}_{suffix}"), ds.nsamples());
        f.seq(&format!("weights{i}_{suffix}"), ds.weights().map(|w| w.to_vec()).unwrap_or_default());
        f.text(&format!("names{i}_{suffix}"), &ds.feature_names().join(","));
    }
}
fn one_vs_all_ds<L: Lab>(d: &LabData<L>) -> DatasetBase<Array2<f64>, Array1<L>> {
    DatasetBase::new(d.x.clone(), d.y1.clone()).with_weights(d.w.clone()).with_feature_names(vec!["a", "b", "c"])
}
/// the sequence of `(label, binary dataset)` exactly as `one_vs_all()` returns it
fn raworder_one_vs_all<L: Lab>(p: &P) -> Fingerprint {
    let d = lab_data::<L>(p);
    let ds = one_vs_all_ds(&d);
    let mut f = Fingerprint::new();
    match ds.one_vs_all() {
        Ok(v) => fp_one_vs_all(&mut f, "raw_order", &v),
        Err(e) => f.err("one_vs_all", &e),
    }
    f
}
fn one_vs_all_canonical<L: Lab>(p: &P) -> Fingerprint {
    let d = lab_data::<L>(p);
    let ds = one_vs_all_ds(&d);
    let mut f = Fingerprint::new();
    match ds.one_vs_all() {
        Ok(mut v) => {
            v.sort_by(|a, b| a.0.cmp(&b.0));
            fp_one_vs_all(&mut f, "canonical", &v)
        }
        Err(e) => f.err("one_vs_all", &e),
    }
    f
}

/// `with_labels` needs `L: Copy`
fn with_labels_fp<L: Lab + Copy>(p: &P, raw: bool) -> Fingerprint {
    let d = lab_data::<L>(p);
    let mut f = Fingerprint::new();
    let ds1 = DatasetBase::new(d.x.clone(), d.y1.clone()).with_weights(d.w.clone()).with_feature_names(vec!["a", "b", "c"]);
    let ds2 = DatasetBase::new(d.x.clone(), d.y2.clone());
    let keep = [L::conv(2), L::conv(0), L::conv(9)];
    let a = ds1.with_labels(&keep);
    let b = ds2.with_labels(&keep[..1]);
    if raw {
        f.seq("with_labels_labels_raw_order", a.labels());
        f.seq("with_labels2_labels_raw_order", b.labels());
        return f;
    }
    f.arr("records", a.records());
    f.arr("targets", &a.as_targets());
    f.seq("weights", a.weights().map(|w| w.to_vec()).unwrap_or_default());
    f.text("names", &a.feature_names().join(","));
    f.seq("labels_canonical", sorted(a.labels()));
    for (t, m) in a.label_count().iter().enumerate() {
        put_pairs(&mut f, &format!("label_count{t}_canonical"), &sorted_map(m));
    }
    f.arr("records2", b.records());
    f.arr("targets2", &b.as_targets());
    f.seq("labels2_canonical", sorted(b.labels()));
    for (t, m) in b.label_count().iter().enumerate() {
        put_pairs(&mut f, &format!("label_count2_{t}_canonical"), &sorted_map(m));
    }
    // the counted targets survive a seeded shuffle (FromTargetArray for CountedTargets)
    let sh = a.shuffle(&mut SmallRng::seed_from_u64(p.seed));
    f.arr("shuffled_records", sh.records());
    f.arr("shuffled_targets", &sh.as_targets());
    for (t, m) in sh.label_count().iter().enumerate() {
        put_pairs(&mut f, &format!("shuffled_label_count{t}_canonical"), &sorted_map(m));
    }
    f
}

fn reg_labels<L: Lab>(r: &mut Registry) {
    let n = L::NAME;
    r.scenario(&format!("core_labels_{n}"), K, Kind::Claim, false, labels_canonical::<L>);
    // Vec-returning, order not documented as unspecified: Claim
    r.scenario(&format!("core_raworder_labels_{n}"), K, Kind::Claim, false, raworder_labels::<L>);
    r.scenario(&format!("core_raworder_combined_labels_{n}"), K, Kind::Claim, false, raworder_combined_labels::<L>);
    r.scenario(&format!("core_raworder_one_vs_all_{n}"), K, Kind::Claim, false, raworder_one_vs_all::<L>);
    // HashMap/HashSet-returning: order unspecified by the return type: NoCompare
    r.scenario(&format!("core_raworder_label_count_{n}"), K, Kind::NoCompare, false, raworder_label_count::<L>);
    r.scenario(&format!("core_raworder_label_frequencies_{n}"), K, Kind::NoCompare, false, raworder_label_frequencies::<L>);
    r.scenario(&format!("core_one_vs_all_{n}"), K, Kind::Claim, false, one_vs_all_canonical::<L>);
}
fn reg_with_labels<L: Lab + Copy>(r: &mut Registry) {
    let n = L::NAME;
    r.scenario(&format!("core_with_labels_{n}"), K, Kind::Claim, false, |p| with_labels_fp::<L>(p, false));
    // `labels()` of the CountedTargets that `with_labels` builds: Vec, undocumented order: Claim
    r.scenario(&format!("core_raworder_with_labels_{n}"), K, Kind::Claim, false, |p| with_labels_fp::<L>(p, true));
}


// ------------------------------------------------------------------------------------------
// dataset operations with a caller-supplied seeded rng
// ------------------------------------------------------------------------------------------

fn ops_dims(p: &P) -> (usize, usize) {
    p.pick((30, 3), (300, 5), (3000, 6))
}

/// regression records with duplicated rows; single and 2-column float targets, class targets
fn ops_data(p: &P) -> (Array2<f64>, Array1<f64>, Array2<f64>, Array1<usize>) {
    let (n, d) = ops_dims(p);
    let mut r = p.rng(21);
    let (mut x, mut y2) = data::regression(&mut r, n, d, 2);
    // exact duplicate rows with conflicting targets
    for i in (5..n).step_by(6) {
        for j in 0..d {
            x[[i, j]] = x[[i - 5, j]];
        }
        y2[[i, 0]] = -y2[[i - 5, 0]];
    }
    let y1 = y2.column(0).to_owned();
    let cls = Array1::from_shape_fn(n, |i| USIZES[(i * 7 + i / 4) % 4]);
    (x, y1, y2, cls)
}

fn names(d: usize) -> Vec<String> {
    (0..d).map(|j| format!("feat-{}", NAMES[j % 10])).collect()
}

fn fp_ds1<F: Bits, E: Bits, D: Data<Elem = F>, T: AsTargets<Elem = E>>(f: &mut Fingerprint, tag: &str, ds: &DatasetBase<ArrayBase<D, Ix2>, T>) {
    f.arr(&format!("{tag}_records"), ds.records());
    f.arr(&format!("{tag}_targets"), &ds.as_targets());
    f.seq(&format!("{tag}_weights"), ds.weights().map(|w| w.to_vec()).unwrap_or_default());
    f.text(&format!("{tag}_feature_names"), &ds.feature_names().join(","));
}

fn ds_shuffle(p: &P) -> Fingerprint {
    let (x, y1, y2, cls) = ops_data(p);
    let (n, d) = x.dim();
    let w = Array1::from_shape_fn(n, |i| (i % 4) as f32 * 0.5);
    let mut f = Fingerprint::new();
    let a = Dataset::new(x.clone(), cls.clone()).with_weights(w.clone()).with_feature_names(names(d));
    let mut rng = SmallRng::seed_from_u64(p.seed);
    let s1 = a.shuffle(&mut rng);
    fp_ds1(&mut f, "smallrng_1", &s1);
    // the same generator, advanced: a second shuffle of the shuffled data
    let s2 = s1.shuffle(&mut rng);
    fp_ds1(&mut f, "smallrng_2", &s2);
    let mut rng = Xoshiro256Plus::seed_from_u64(p.seed ^ 0xABCD);
    let b = Dataset::new(x.clone(), y2.clone()).with_target_names(vec!["t0", "t1"]);
    let s3 = b.shuffle(&mut rng);
    fp_ds1(&mut f, "xoshiro_multi", &s3);
    f.text("xoshiro_multi_target_names", &s3.target_names().join(","));
    // views shuffle into owned data
    let c = DatasetBase::new(x.view(), y1.view());
    fp_ds1(&mut f, "view", &c.shuffle(&mut rng));
    // f32 records, &'static str targets
    let strs = cls.mapv(|c| NAMES[c % 10]);
    let e = Dataset::new(data::to_f32(&x), strs);
    fp_ds1(&mut f, "f32_str", &e.shuffle(&mut SmallRng::seed_from_u64(p.seed.wrapping_add(1))));
    f
}

fn ds_bootstrap(p: &P) -> Fingerprint {
    let (x, y1, y2, cls) = ops_data(p);
    let (n, d) = x.dim();
    let mut f = Fingerprint::new();
    let a = Dataset::new(x.clone(), cls);
    let b = Dataset::new(x.clone(), y2);
    let c = DatasetBase::new(x.view(), y1.view());
    let mut rng = SmallRng::seed_from_u64(p.seed);
    for (i, s) in a.bootstrap((n / 2 + 1, d - 1), &mut rng).take(3).enumerate() {
        fp_ds1(&mut f, &format!("bootstrap{i}"), &s);
    }
    // the generator carries on where the previous iterator left it
    for (i, s) in a.bootstrap_samples(n / 3 + 2, &mut rng).take(3).enumerate() {
        fp_ds1(&mut f, &format!("bootstrap_samples{i}"), &s);
    }
    for (i, s) in b.bootstrap_features(d + 2, &mut rng).take(3).enumerate() {
        fp_ds1(&mut f, &format!("bootstrap_features{i}"), &s);
    }
    let mut rng = Xoshiro256Plus::seed_from_u64(p.seed);
    for (i, s) in c.bootstrap((n, d), &mut rng).take(2).enumerate() {
        fp_ds1(&mut f, &format!("view_bootstrap{i}"), &s);
    }
    for (i, s) in b.bootstrap_samples(7, &mut rng).take(2).enumerate() {
        fp_ds1(&mut f, &format!("multi_bootstrap_samples{i}"), &s);
    }
    f
}

fn ds_split(p: &P) -> Fingerprint {
    let (x, y1, y2, cls) = ops_data(p);
    let (n, d) = x.dim();
    let w = Array1::from_shape_fn(n, |i| 1.0 + (i % 3) as f32);
    let mut f = Fingerprint::new();
    for (i, ratio) in [0.0f32, 0.1, 0.5, 0.9, 1.0, 1.0 / 3.0].into_iter().enumerate() {
        let a = Dataset::new(x.clone(), cls.clone()).with_weights(w.clone()).with_feature_names(names(d));
        let (l, r) = a.split_with_ratio(ratio);
        fp_ds1(&mut f, &format!("owned{i}_first"), &l);
        fp_ds1(&mut f, &format!("owned{i}_second"), &r);
        let b = Dataset::new(x.clone(), y2.clone());
        let (l, r) = b.split_with_ratio(ratio);
        fp_ds1(&mut f, &format!("multi{i}_first"), &l);
        fp_ds1(&mut f, &format!("multi{i}_second"), &r);
        let c = DatasetBase::new(x.view(), y1.view()).with_weights(w.clone());
        let (l, r) = c.split_with_ratio(ratio);
        fp_ds1(&mut f, &format!("view{i}_first"), &l);
        fp_ds1(&mut f, &format!("view{i}_second"), &r);
    }
    // shuffle then split (the usual train/validation preparation)
    let a = Dataset::new(x.clone(), cls.clone());
    let (l, r) = a.shuffle(&mut SmallRng::seed_from_u64(p.seed)).split_with_ratio(0.8);
    fp_ds1(&mut f, "shuffled_first", &l);
    fp_ds1(&mut f, "shuffled_second", &r);
    f
}

fn ds_fold(p: &P) -> Fingerprint {
    let (x, y1, _y2, cls) = ops_data(p);
    let mut f = Fingerprint::new();
    let a = Dataset::new(x.clone(), cls);
    for k in [2usize, 3, 5] {
        for (i, (train, valid)) in a.fold(k).into_iter().enumerate() {
            fp_ds1(&mut f, &format!("k{k}_train{i}"), &train);
            fp_ds1(&mut f, &format!("k{k}_valid{i}"), &valid);
        }
    }
    let c = DatasetBase::new(x.view(), y1.view());
    for (i, (train, valid)) in c.fold(3).into_iter().enumerate() {
        fp_ds1(&mut f, &format!("view_train{i}"), &train);
        fp_ds1(&mut f, &format!("view_valid{i}"), &valid);
    }
    // sample_chunks / sample_iter / feature_iter / target_iter / view / to_owned / map_targets
    for (i, ch) in a.sample_chunks(x.nrows() / 4).enumerate() {
        fp_ds1(&mut f, &format!("chunk{i}"), &ch);
    }
    let firsts: Vec<f64> = a.sample_iter().map(|(r, t)| r[0] + *t.into_scalar() as f64).collect();
    f.seq("sample_iter", firsts);
    for (i, v) in a.feature_iter().enumerate() {
        f.arr(&format!("feature_iter{i}"), v.records());
    }
    let b = Dataset::new(x.clone(), _y2).with_target_names(vec!["t0", "t1"]);
    for (i, v) in b.target_iter().enumerate() {
        f.arr(&format!("target_iter{i}"), &v.as_targets());
        f.text(&format!("target_iter{i}_names"), &v.target_names().join(","));
    }
    fp_ds1(&mut f, "view_to_owned", &a.view().to_owned());
    fp_ds1(&mut f, "map_targets", &a.map_targets(|t| *t > 5));
    f
}

fn fp_linreg(f: &mut Fingerprint, tag: &str, m: &FittedLinearRegression<f64>) {
    f.arr(&format!("{tag}_params"), m.params());
    f.one(&format!("{tag}_intercept"), m.intercept());
}

fn ds_iter_fold(p: &P) -> Fingerprint {
    let (x, y1, y2, _cls) = ops_data(p);
    let mut f = Fingerprint::new();
    let mut a = Dataset::new(x.clone(), y1);
    let params = LinearRegression::new();
    for k in [2usize, 4] {
        for (i, (model, valid)) in a.iter_fold(k, |v| params.fit(v)).enumerate() {
            match model {
                Ok(m) => {
                    fp_linreg(&mut f, &format!("k{k}_fold{i}"), &m);
                    f.arr(&format!("k{k}_fold{i}_pred"), &m.predict(valid.records()));
                }
                Err(e) => f.err(&format!("k{k}_fold{i}_fit"), &e),
            }
            fp_ds1(&mut f, &format!("k{k}_valid{i}"), &valid);
        }
        // the folding swaps chunks in place and must swap them back
        f.one(&format!("k{k}_restored"), a.records() == &x);
    }
    // multi-target data, closure returns a plain observation
    let mut b = Dataset::new(x.clone(), y2);
    for (i, (sum, valid)) in b.iter_fold(3, |v| (v.records().sum(), v.targets().sum(), v.nsamples())).enumerate() {
        f.one(&format!("multi_fold{i}_recsum"), sum.0);
        f.one(&format!("multi_fold{i}_tarsum"), sum.1);
        f.one(&format!("multi_fold{i}_n"), sum.2);
        fp_ds1(&mut f, &format!("multi_valid{i}"), &valid);
    }
    f
}

/// deterministic nearest-centroid classifier (module-local, ties -> smallest label): the
/// classification estimator for the cross-validation scenarios (GaussianNb has a known
/// hash-order defect of its own and would mask what `cross_validate` does)
struct Centroid {
    fail_below: usize,
}
struct CentroidModel {
    labels: Vec<usize>,
    centroids: Array2<f64>,
}
impl<'c> Fit<ArrayView2<'c, f64>, ArrayView1<'c, usize>, linfa::Error> for Centroid {
    type Object = CentroidModel;
    fn fit(&self, ds: &DatasetBase<ArrayView2<'c, f64>, ArrayView1<'c, usize>>) -> Result<CentroidModel, linfa::Error> {
        if ds.nsamples() < self.fail_below {
            return Err(linfa::Error::NotEnoughSamples);
        }
        let mut labels: Vec<usize> = ds.targets().iter().cloned().collect();
        labels.sort();
        labels.dedup();
        let mut centroids = Array2::zeros((labels.len(), ds.nfeatures()));
        let mut counts = vec![0.0f64; labels.len()];
        for (row, t) in ds.records().outer_iter().zip(ds.targets().iter()) {
            let i = labels.binary_search(t).unwrap();
            let mut c = centroids.row_mut(i);
            c += &row;
            counts[i] += 1.0;
        }
        for (mut c, n) in centroids.outer_iter_mut().zip(counts) {
            c /= n;
        }
        Ok(CentroidModel { labels, centroids })
    }
}
impl<D: Data<Elem = f64>> PredictInplace<ArrayBase<D, Ix2>, Array1<usize>> for CentroidModel {
    fn predict_inplace(&self, x: &ArrayBase<D, Ix2>, y: &mut Array1<usize>) {
        for (row, t) in x.outer_iter().zip(y.iter_mut()) {
            let mut best = (f64::INFINITY, 0usize);
            for (i, c) in self.centroids.outer_iter().enumerate() {
                let d: f64 = row.iter().zip(c.iter()).map(|(a, b)| (a - b) * (a - b)).sum();
                if d < best.0 {
                    best = (d, i);
                }
            }
            *t = self.labels[best.1];
        }
    }
    fn default_target(&self, x: &ArrayBase<D, Ix2>) -> Array1<usize> {
        Array1::zeros(x.nrows())
    }
}

/// one `LinearRegression` per target column, merged with linfa's `MultiTargetModel`
struct PerTarget<'a> {
    intercept: bool,
    ph: std::marker::PhantomData<&'a ()>,
}
impl<'a, 'c> Fit<ArrayView2<'c, f64>, ArrayView2<'c, f64>, LinearError<f64>> for PerTarget<'a> {
    type Object = MultiTargetModel<ArrayView2<'a, f64>, f64>;
    fn fit(&self, ds: &DatasetBase<ArrayView2<'c, f64>, ArrayView2<'c, f64>>) -> Result<Self::Object, LinearError<f64>> {
        let lin = LinearRegression::new().with_intercept(self.intercept);
        let members: Result<Vec<FittedLinearRegression<f64>>, _> = (0..ds.ntargets()).map(|j| lin.fit(&DatasetBase::new(ds.records().view(), ds.targets().column(j)))).collect();
        Ok(members?.into_iter().collect())
    }
}

fn ds_cross_validate(p: &P) -> Fingerprint {
    let (x, y1, y2, cls) = ops_data(p);
    let mut f = Fingerprint::new();
    // single target, real estimator, two parameter sets, three metrics
    let models = vec![LinearRegression::new(), LinearRegression::new().with_intercept(false)];
    let mut a = Dataset::new(x.clone(), y1.clone());
    for k in [2usize, 5] {
        let r2: Result<Array1<f64>, LinearError<f64>> = a.cross_validate_single(k, &models, |pred, truth| pred.r2(truth));
        match r2 {
            Ok(s) => f.arr(&format!("single_k{k}_r2"), &s),
            Err(e) => f.err(&format!("single_k{k}_r2"), &e),
        }
        let mse: Result<Array1<f64>, LinearError<f64>> = a.cross_validate_single(k, &models, |pred, truth| pred.mean_squared_error(truth));
        match mse {
            Ok(s) => f.arr(&format!("single_k{k}_mse"), &s),
            Err(e) => f.err(&format!("single_k{k}_mse"), &e),
        }
        // f32 accumulator
        let mae: Result<Array1<f32>, LinearError<f64>> =
            a.cross_validate_single(k, &models, |pred, truth| pred.mean_absolute_error(truth).map(|v| v as f32));
        match mae {
            Ok(s) => f.arr(&format!("single_k{k}_mae_f32"), &s),
            Err(e) => f.err(&format!("single_k{k}_mae_f32"), &e),
        }
        f.one(&format!("single_k{k}_restored"), a.records() == &x && a.targets() == &y1);
    }
    // shuffled first, as users do
    let mut sh = a.shuffle(&mut SmallRng::seed_from_u64(p.seed));
    let r2: Result<Array1<f64>, LinearError<f64>> = sh.cross_validate_single(4, &models, |pred, truth| pred.r2(truth));
    match r2 {
        Ok(s) => f.arr("shuffled_k4_r2", &s),
        Err(e) => f.err("shuffled_k4_r2", &e),
    }
    // multi target through `cross_validate`
    {
        let mut b = Dataset::new(x.clone(), y2.clone());
        let pt = vec![PerTarget { intercept: true, ph: std::marker::PhantomData }, PerTarget { intercept: false, ph: std::marker::PhantomData }];
        let r: Result<Array2<f64>, LinearError<f64>> = b.cross_validate(3, &pt, |pred, truth| pred.r2(truth));
        match r {
            Ok(s) => f.arr("multi_k3_r2", &s),
            Err(e) => f.err("multi_k3_r2", &e),
        }
    }
    // classification, confusion-matrix metrics
    let mut c = Dataset::new(x.clone(), cls.clone());
    let cm = vec![Centroid { fail_below: 0 }];
    let acc: Result<Array1<f32>, linfa::Error> = c.cross_validate_single(5, &cm, |pred, truth| Ok(pred.confusion_matrix(truth)?.accuracy()));
    match acc {
        Ok(s) => f.arr("class_k5_accuracy", &s),
        Err(e) => f.err("class_k5_accuracy", &e),
    }
    let mcc: Result<Array1<f32>, linfa::Error> = c.cross_validate_single(3, &cm, |pred, truth| Ok(pred.confusion_matrix(truth)?.mcc()));
    match mcc {
        Ok(s) => f.arr("class_k3_mcc", &s),
        Err(e) => f.err("class_k3_mcc", &e),
    }
    // error outcomes: failing fit, failing metric
    let failing = vec![Centroid { fail_below: 0 }, Centroid { fail_below: usize::MAX }];
    let r: Result<Array1<f32>, linfa::Error> = c.cross_validate_single(3, &failing, |pred, truth| Ok(pred.confusion_matrix(truth)?.accuracy()));
    match r {
        Ok(s) => f.arr("fit_error", &s),
        Err(e) => f.err("fit_error", &e),
    }
    let calls = std::cell::Cell::new(0usize);
    let r: Result<Array1<f32>, linfa::Error> = c.cross_validate_single(3, &cm, |pred, truth| {
        calls.set(calls.get() + 1);
        if calls.get() == 2 {
            Err(linfa::Error::Parameters(format!("metric refused fold {}", calls.get())))
        } else {
            Ok(pred.confusion_matrix(truth)?.accuracy())
        }
    });
    match r {
        Ok(s) => f.arr("eval_error", &s),
        Err(e) => f.err("eval_error", &e),
    }
    f.one("eval_calls", calls.get());
    f.one("class_restored", c.records() == &x && c.targets() == &cls);
    f
}

// ------------------------------------------------------------------------------------------
// metrics
// ------------------------------------------------------------------------------------------

fn fp_cm<A: std::fmt::Display>(f: &mut Fingerprint, tag: &str, cm: &ConfusionMatrix<A>) {
    // matrix and members are private: the Debug rendering is the only view of the label order
    f.text(&format!("{tag}_debug"), &format!("{cm:?}"));
    f.one(&format!("{tag}_accuracy"), cm.accuracy());
    f.one(&format!("{tag}_precision"), cm.precision());
    f.one(&format!("{tag}_recall"), cm.recall());
    f.one(&format!("{tag}_f1"), cm.f1_score());
    f.one(&format!("{tag}_f_half"), cm.f_score(0.5));
    f.one(&format!("{tag}_mcc"), cm.mcc());
}

/// prediction/truth pairs whose label sets differ (prediction lacks one class and has an
/// extra one), with several classes of equal support
fn confusion<L: Lab>(p: &P) -> Fingerprint {
    let d = lab_data::<L>(p);
    let mut f = Fingerprint::new();
    let truth = d.y1.clone();
    let pred = d.pred.clone();
    match pred.confusion_matrix(&truth) {
        Ok(cm) => {
            fp_cm(&mut f, "cm", &cm);
            for (i, b) in cm.split_one_vs_all().iter().enumerate() {
                fp_cm(&mut f, &format!("ova{i}"), b);
            }
            for (i, b) in cm.split_one_vs_one().iter().enumerate().take(12) {
                fp_cm(&mut f, &format!("ovo{i}"), b);
            }
        }
        Err(e) => f.err("cm", &e),
    }
    // by value, datasets on either side, counted targets
    match truth.confusion_matrix(pred.clone()) {
        Ok(cm) => fp_cm(&mut f, "swapped", &cm),
        Err(e) => f.err("swapped", &e),
    }
    let ds_pred = DatasetBase::new(d.x.clone(), pred.clone());
    let ds_truth = DatasetBase::new(d.x.clone(), CountedTargets::new(truth.clone()));
    match ds_pred.confusion_matrix(&ds_truth) {
        Ok(cm) => fp_cm(&mut f, "ds_ds", &cm),
        Err(e) => f.err("ds_ds", &e),
    }
    match pred.confusion_matrix(&ds_truth) {
        Ok(cm) => fp_cm(&mut f, "arr_ds", &cm),
        Err(e) => f.err("arr_ds", &e),
    }
    // identical labels: perfect score
    match truth.confusion_matrix(&truth) {
        Ok(cm) => fp_cm(&mut f, "same", &cm),
        Err(e) => f.err("same", &e),
    }
    // exactly two classes (binary layout is reversed by linfa)
    let two_t = truth.mapv(|l| if l == L::conv(0) { L::conv(0) } else { L::conv(1) });
    let two_p = pred.mapv(|l| if l == L::conv(1) || l == L::conv(2) { L::conv(0) } else { L::conv(1) });
    match two_p.confusion_matrix(&two_t) {
        Ok(cm) => fp_cm(&mut f, "binary", &cm),
        Err(e) => f.err("binary", &e),
    }
    // shape mismatch is an error value
    match pred.slice(s![..pred.len() - 1]).confusion_matrix(&truth) {
        Ok(cm) => fp_cm(&mut f, "mismatch", &cm),
        Err(e) => f.err("mismatch", &e),
    }
    f
}

fn pr_data(p: &P) -> (Array1<Pr>, Array1<bool>) {
    let n = p.pick(20, 400, 3000);
    let mut r = p.rng(31);
    // probabilities on a coarse grid (many exact ties), a few zeros and ones
    let pr = Array1::from_shape_fn(n, |i| match i % 11 {
        0 => Pr::new(0.0),
        1 => Pr::new(1.0),
        _ => Pr::new(r.below(9) as f32 / 8.0),
    });
    let y = Array1::from_shape_fn(n, |i| r.unit() < (*pr[i] as f64) * 0.8 + 0.1);
    (pr, y)
}

fn roc(p: &P) -> Fingerprint {
    let (pr, y) = pr_data(p);
    let mut f = Fingerprint::new();
    let ys = y.as_slice().unwrap();
    match pr.roc(ys) {
        Ok(r) => {
            f.raw("curve", r.get_curve().into_iter().flat_map(|(a, b)| [a.bits(), b.bits()]));
            f.seq("thresholds", r.get_thresholds());
            f.one("auc", r.area_under_curve());
        }
        Err(e) => f.err("roc", &e),
    }
    match pr.as_slice().unwrap().roc(ys) {
        Ok(r) => f.one("slice_auc", r.area_under_curve()),
        Err(e) => f.err("slice_roc", &e),
    }
    match pr.log_loss(ys) {
        Ok(v) => f.one("log_loss", v),
        Err(e) => f.err("log_loss", &e),
    }
    match pr.as_slice().unwrap().log_loss(ys) {
        Ok(v) => f.one("slice_log_loss", v),
        Err(e) => f.err("slice_log_loss", &e),
    }
    let x = Array2::<f64>::zeros((pr.len(), 1));
    let dp = DatasetBase::new(x.clone(), pr.clone());
    let dt = DatasetBase::new(x, y.clone());
    match dp.roc(&dt) {
        Ok(r) => {
            f.one("ds_auc", r.area_under_curve());
            f.one("ds_curve_len", r.get_curve().len());
        }
        Err(e) => f.err("ds_roc", &e),
    }
    match dp.log_loss(&dt) {
        Ok(v) => f.one("ds_log_loss", v),
        Err(e) => f.err("ds_log_loss", &e),
    }
    let empty: Array1<Pr> = Array1::from(vec![]);
    match empty.log_loss(&[]) {
        Ok(v) => f.one("empty_log_loss", v),
        Err(e) => f.err("empty_log_loss", &e),
    }
    f
}

fn fp_single_reg<F: linfa::Float + Bits>(f: &mut Fingerprint, tag: &str, a: &Array1<F>, b: &Array1<F>) {
    let mut put = |name: &str, r: linfa::error::Result<F>| match r {
        Ok(v) => f.one(&format!("{tag}_{name}"), v),
        Err(e) => f.err(&format!("{tag}_{name}"), &e),
    };
    put("max_error", a.max_error(b));
    put("mae", a.mean_absolute_error(b));
    put("mse", a.mean_squared_error(b));
    put("msle", a.mean_squared_log_error(b));
    put("medae", a.median_absolute_error(b));
    put("mape", a.mean_absolute_percentage_error(b));
    put("r2", a.r2(b));
    put("explained_variance", a.explained_variance(b));
}

fn regression_metrics(p: &P) -> Fingerprint {
    let (x, _y1, y2, _cls) = ops_data(p);
    let mut r = p.rng(41);
    let mut f = Fingerprint::new();
    // positive targets so that the log error is defined; predictions = truth + noise, with
    // exact hits (zero errors, ties for the median)
    let truth = y2.mapv(|v| v.abs() + 1.0);
    let pred = Array2::from_shape_fn(truth.dim(), |(i, j)| if i % 4 == 0 { truth[[i, j]] } else { truth[[i, j]] + (r.below(5) as f64 - 2.0) * 0.5 });
    let (t0, p0) = (truth.column(0).to_owned(), pred.column(0).to_owned());
    fp_single_reg(&mut f, "f64", &p0, &t0);
    fp_single_reg(&mut f, "f32", &p0.mapv(|v| v as f32), &t0.mapv(|v| v as f32));
    let mut putm = |name: &str, r: linfa::error::Result<Array1<f64>>| match r {
        Ok(v) => f.arr(&format!("multi_{name}"), &v),
        Err(e) => f.err(&format!("multi_{name}"), &e),
    };
    putm("max_error", pred.max_error(&truth));
    putm("mae", pred.mean_absolute_error(&truth));
    putm("mse", pred.mean_squared_error(&truth));
    putm("msle", pred.mean_squared_log_error(&truth));
    putm("medae", pred.median_absolute_error(&truth));
    putm("mape", pred.mean_absolute_percentage_error(&truth));
    putm("r2", pred.r2(&truth));
    putm("explained_variance", pred.explained_variance(&truth));
    // dataset receivers
    let dp = DatasetBase::new(x.clone(), p0.clone());
    match dp.r2(&t0) {
        Ok(v) => f.one("ds_r2", v),
        Err(e) => f.err("ds_r2", &e),
    }
    let dpm = DatasetBase::new(x.clone(), pred.clone());
    match dpm.mean_squared_error(&truth) {
        Ok(v) => f.arr("ds_multi_mse", &v),
        Err(e) => f.err("ds_multi_mse", &e),
    }
    // empty input is an error value, not a panic
    let e0: Array1<f64> = Array1::zeros(0);
    match e0.mean_absolute_error(&e0) {
        Ok(v) => f.one("empty_mae", v),
        Err(e) => f.err("empty_mae", &e),
    }
    match e0.r2(&e0) {
        Ok(v) => f.one("empty_r2", v),
        Err(e) => f.err("empty_r2", &e),
    }
    f
}

fn silhouette<L: Lab>(p: &P) -> Fingerprint {
    let (n, k) = p.pick((18, 3), (120, 4), (420, 6));
    let (x, y) = data::blobs(&mut p.rng(51), n, 2, k, 0.8);
    let labels = y.mapv(L::conv);
    let mut f = Fingerprint::new();
    match DatasetBase::new(x.clone(), labels.clone()).silhouette_score() {
        Ok(v) => f.one("f64", v),
        Err(e) => f.err("f64", &e),
    }
    match DatasetBase::new(data::to_f32(&x), CountedTargets::new(labels.clone())).silhouette_score() {
        Ok(v) => f.one("f32_counted", v),
        Err(e) => f.err("f32_counted", &e),
    }
    // one cluster only
    match DatasetBase::new(x.view(), Array1::from_elem(n, L::conv(0))).silhouette_score() {
        Ok(v) => f.one("single_cluster", v),
        Err(e) => f.err("single_cluster", &e),
    }
    // singletons: every third sample is alone in its cluster (k*? labels)
    let lone = Array1::from_shape_fn(n, |i| L::conv(if i < 2 { 7 + i } else { y[i] }));
    match DatasetBase::new(x.view(), lone).silhouette_score() {
        Ok(v) => f.one("with_singletons", v),
        Err(e) => f.err("with_singletons", &e),
    }
    f
}

/// Mirror-image clusters: clusters 1 and 2 are reflections of each other about cluster 0 with
/// their rows in opposite order, so a sample of cluster 0 is equidistant from both in exact
/// arithmetic while the two mean distances are summed in different orders (near-ties, one ulp
/// apart) - where "the nearest other cluster" must not depend on the order clusters are visited in.
fn silhouette_mirrored<L: Lab>(p: &P) -> Fingerprint {
    let m = p.pick(5, 17, 60);
    let mut r = p.rng(52);
    let c0: Vec<[f64; 2]> = (0..m).map(|_| [0.3 * r.normal(), 0.0]).collect();
    let c1: Vec<[f64; 2]> = (0..m).map(|_| [0.7 * r.normal(), 3.0 + 0.9 * r.normal()]).collect();
    let mut rows: Vec<([f64; 2], usize)> = Vec::new();
    rows.extend(c0.iter().map(|v| (*v, 0)));
    rows.extend(c1.iter().map(|v| (*v, 1)));
    rows.extend(c1.iter().rev().map(|v| ([v[0], -v[1]], 2)));
    // a fourth cluster far away so that more than two candidates exist
    rows.extend((0..m).map(|i| ([40.0 + i as f64, 0.5], 3)));
    let n = rows.len();
    let x = Array2::from_shape_fn((n, 2), |(i, j)| rows[i].0[j]);
    let labels = Array1::from_shape_fn(n, |i| L::conv(rows[i].1));
    let mut f = Fingerprint::new();
    match DatasetBase::new(x.clone(), labels.clone()).silhouette_score() {
        Ok(v) => f.one("f64", v),
        Err(e) => f.err("f64", &e),
    }
    match DatasetBase::new(data::to_f32(&x), labels).silhouette_score() {
        Ok(v) => f.one("f32", v),
        Err(e) => f.err("f32", &e),
    }
    f
}

fn corr_data(p: &P) -> Array2<f64> {
    let (n, d) = p.pick((12, 3), (200, 5), (1000, 6));
    let mut r = p.rng(61);
    let (mut x, _) = data::regression(&mut r, n, d, 1);
    // a column that is an exact copy of another one, and one that is its negation
    for i in 0..n {
        x[[i, d - 1]] = x[[i, 0]];
        x[[i, d - 2]] = -x[[i, 1]];
    }
    x
}

fn pearson(p: &P) -> Fingerprint {
    let x = corr_data(p);
    let d = x.ncols();
    let mut f = Fingerprint::new();
    let ds = DatasetBase::from(x.clone()).with_feature_names(names(d));
    let c = ds.pearson_correlation();
    f.arr("coeffs", c.get_coeffs());
    f.one("p_values_none", c.get_p_values().is_none());
    f.text("display", &format!("{c}"));
    let ds32 = DatasetBase::from(data::to_f32(&x)).with_feature_names(names(d));
    let c32 = ds32.pearson_correlation();
    f.arr("coeffs_f32", c32.get_coeffs());
    f.text("display_f32", &format!("{c32}"));
    // zero permutations requested: p-values are NaN/absent, no entropy is consumed
    let c0 = ds.pearson_correlation_with_p_value(0);
    f.arr("coeffs_zero_iter", c0.get_coeffs());
    f
}

/// `p_values` draws from `SmallRng::from_entropy()`: the documented-unseeded control
fn pvalues_control(p: &P) -> Fingerprint {
    let x = corr_data(p);
    let d = x.ncols();
    let mut f = Fingerprint::new();
    let ds = DatasetBase::from(x).with_feature_names(names(d));
    let c = ds.pearson_correlation_with_p_value(p.pick(40, 60, 10));
    f.arr("coeffs", c.get_coeffs());
    match c.get_p_values() {
        Some(v) => f.arr("p_values", v),
        None => f.one("p_values", false),
    }
    f.text("display", &format!("{c}"));
    f
}

// ------------------------------------------------------------------------------------------
// composing: Platt scaling, MultiTargetModel, MultiClassModel
// ------------------------------------------------------------------------------------------

/// records, decision values on a coarse grid (ties) and noisy boolean labels
fn platt_data(p: &P) -> (Array2<f64>, Array1<f64>, Array1<bool>) {
    let n = p.pick(24, 300, 3000);
    let mut r = p.rng(71);
    let mut x = Array2::from_shape_fn((n, 3), |(_, j)| (r.below(7) as f64 - 3.0) * [1.0, 0.5, 2.0][j]);
    // duplicate rows
    for i in (5..n).step_by(6) {
        for j in 0..3 {
            x[[i, j]] = x[[i - 5, j]];
        }
    }
    let dec = x.dot(&ndarray::arr1(&[1.0, -0.5, 0.25]));
    let y = Array1::from_shape_fn(n, |i| dec[i] + 1.5 * r.normal() > 0.25);
    (x, dec, y)
}

fn fp_platt_result<F: Bits>(f: &mut Fingerprint, tag: &str, r: Result<(F, F), PlattError>) {
    match r {
        Ok((a, b)) => {
            f.one(&format!("{tag}_a"), a);
            f.one(&format!("{tag}_b"), b);
        }
        Err(e) => f.err(tag, &e),
    }
}

fn platt_newton(p: &P) -> Fingerprint {
    let (_x, dec, y) = platt_data(p);
    let mut f = Fingerprint::new();
    let def: PlattValidParams<f64, ()> = Platt::params().check().expect("default platt params");
    fp_platt_result(&mut f, "default", platt_newton_method(dec.view(), y.view(), &def));
    let tight: PlattValidParams<f64, ()> = Platt::params().maxiter(500).minstep(1e-14).sigma(1e-9).check().expect("valid");
    fp_platt_result(&mut f, "tight", platt_newton_method(dec.view(), y.view(), &tight));
    // one iteration allowed: MaxIterReached unless already converged
    let one: PlattValidParams<f64, ()> = Platt::params().maxiter(1).check().expect("valid");
    fp_platt_result(&mut f, "maxiter1", platt_newton_method(dec.view(), y.view(), &one));
    // f32
    let def32: PlattValidParams<f32, ()> = Platt::params().check().expect("default platt params");
    let dec32 = dec.mapv(|v| v as f32);
    fp_platt_result(&mut f, "f32", platt_newton_method(dec32.view(), y.view(), &def32));
    // degenerate inputs: all labels equal; perfectly separable; a NaN decision value
    let all_true = Array1::from_elem(y.len(), true);
    fp_platt_result(&mut f, "all_true", platt_newton_method(dec.view(), all_true.view(), &def));
    let sep = dec.mapv(|v| v > 0.0);
    fp_platt_result(&mut f, "separable", platt_newton_method(dec.view(), sep.view(), &def));
    let mut nan = dec.clone();
    nan[0] = f64::NAN;
    fp_platt_result(&mut f, "nan", platt_newton_method(nan.view(), y.view(), &def));
    // the sigmoid itself
    let grid: Vec<Pr> = (-8..=8).flat_map(|i| [platt_predict(i as f64 * 0.75, 1.5, -0.25), platt_predict(i as f64, -2.0, 0.5)]).collect();
    f.seq("platt_predict_grid", grid);
    f.seq("platt_predict_f32", (-8..=8).map(|i| platt_predict(i as f32 * 10.0, 1.0f32, 0.0)));
    f
}

fn fp_check<F: linfa::Float, O>(f: &mut Fingerprint, tag: &str, pp: &PlattParams<F, O>) -> bool {
    match pp.check_ref() {
        Ok(_) => {
            f.one(&format!("{tag}_check_ok"), true);
            true
        }
        Err(e) => {
            f.err(&format!("{tag}_check"), &e);
            false
        }
    }
}

/// parameter sets: valid, and invalid at each documented bound; valid ones are refitted
fn platt_params(p: &P) -> Fingerprint {
    let (_x, dec, y) = platt_data(p);
    let mut f = Fingerprint::new();
    let sets: Vec<(&str, PlattParams<f64, ()>)> = vec![
        ("default", Platt::params()),
        ("custom", Platt::params().maxiter(30).minstep(1e-6).sigma(1e-3)),
        ("zero_bounds", Platt::params().minstep(0.0).sigma(0.0)),
        ("maxiter0", Platt::params().maxiter(0)),
        ("minstep_neg", Platt::params().minstep(-1e-3)),
        ("sigma_neg", Platt::params().sigma(-2.5)),
        ("minstep_neg_zero", Platt::params().minstep(-0.0)),
    ];
    for (tag, pp) in &sets {
        f.text(&format!("{tag}_debug"), &format!("{pp:?}"));
        f.one(&format!("{tag}_eq_default"), *pp == Platt::params());
        if fp_check(&mut f, tag, pp) {
            let v = pp.clone().check().expect("checked above");
            fp_platt_result(&mut f, &format!("{tag}_refit"), platt_newton_method(dec.view(), y.view(), &v));
        }
    }
    f
}

/// hand-written decision function (fixed weights), so that only Platt's own work is observed
#[derive(Debug, Clone, PartialEq)]
struct Decision {
    w: [f64; 3],
}
impl<D: Data<Elem = f64>> PredictInplace<ArrayBase<D, Ix2>, Array1<f64>> for Decision {
    fn predict_inplace(&self, x: &ArrayBase<D, Ix2>, y: &mut Array1<f64>) {
        for (row, t) in x.outer_iter().zip(y.iter_mut()) {
            *t = row.iter().zip(self.w.iter()).map(|(a, b)| a * b).sum();
        }
    }
    fn default_target(&self, x: &ArrayBase<D, Ix2>) -> Array1<f64> {
        Array1::zeros(x.nrows())
    }
}

fn platt_queries(p: &P, x: &Array2<f64>) -> Array2<f64> {
    data::queries(&mut p.rng(72), x, p.pick(6, 60, 300))
}

fn platt_fit(p: &P) -> Fingerprint {
    let (x, _dec, y) = platt_data(p);
    let q = platt_queries(p, &x);
    let ds = DatasetBase::new(x.clone(), y.clone());
    let mut f = Fingerprint::new();
    // (1) hand-written inner model
    let inner = Decision { w: [1.0, -0.5, 0.25] };
    let r: Result<Platt<f64, Decision>, PlattError> = Platt::params().fit_with(inner.clone(), &ds);
    match r {
        Ok(m) => {
            // `a`/`b` have no accessors: Debug shows them
            f.text("decision_debug", &format!("{m:?}"));
            let pt: Array1<Pr> = m.predict(&x);
            f.arr("decision_predict_train", &pt);
            let pq: Array1<Pr> = m.predict(&q);
            f.arr("decision_predict_query", &pq);
            let single: Vec<Pr> = q.outer_iter().take(5).map(|r| {
                let one: Array1<Pr> = m.predict(&r.insert_axis(Axis(0)).to_owned());
                one[0]
            }).collect();
            f.seq("decision_predict_single", single);
            let pd: Array1<Pr> = m.predict(&ds);
            f.one("decision_predict_ds_same", pd == pt);
            match pt.roc(y.as_slice().unwrap()) {
                Ok(r) => f.one("decision_auc", r.area_under_curve()),
                Err(e) => f.err("decision_auc", &e),
            }
            let same: Result<Platt<f64, Decision>, PlattError> = Platt::params().check().expect("valid").fit_with(inner.clone(), &ds);
            f.one("decision_refit_eq", same.map(|s| s == m).unwrap_or(false));
        }
        Err(e) => f.err("decision_fit", &e),
    }
    // (2) a fitted linear regression on the 0/1 labels as the uncalibrated model
    let yf = y.mapv(|b| if b { 1.0 } else { -1.0 });
    match LinearRegression::new().fit(&DatasetBase::new(x.clone(), yf.clone())) {
        Ok(lin) => {
            let r: Result<Platt<f64, FittedLinearRegression<f64>>, PlattError> = Platt::params().maxiter(200).fit_with(lin, &ds);
            match r {
                Ok(m) => {
                    f.text("linear_debug", &format!("{m:?}"));
                    let pq: Array1<Pr> = m.predict(&q);
                    f.arr("linear_predict_query", &pq);
                    let pt: Array1<Pr> = m.predict(&x);
                    match pt.log_loss(y.as_slice().unwrap()) {
                        Ok(v) => f.one("linear_log_loss", v),
                        Err(e) => f.err("linear_log_loss", &e),
                    }
                }
                Err(e) => f.err("linear_fit_with", &e),
            }
        }
        Err(e) => f.err("linear_fit", &e),
    }
    // (3) invalid parameters are rejected by `fit_with` through the ParamGuard
    let r: Result<Platt<f64, Decision>, PlattError> = Platt::params().sigma(-1.0).fit_with(inner, &ds);
    match r {
        Ok(_) => f.one("invalid_accepted", true),
        Err(e) => f.err("invalid_fit_with", &e),
    }
    f
}

/// Platt around a support-vector regressor (small data: the SMO solver has no iteration cap)
fn platt_svm(p: &P) -> Fingerprint {
    let (x, _dec, y) = platt_data(p);
    let n = p.pick(24, 60, 120).min(x.nrows());
    let x = x.slice(s![..n, ..]).to_owned();
    let y = y.slice(s![..n]).to_owned();
    let q = platt_queries(p, &x);
    let yf = y.mapv(|b| if b { 1.0 } else { -1.0 });
    let mut f = Fingerprint::new();
    let svm = linfa_svm::Svm::<f64, f64>::params().c_svr(1.0, Some(0.1)).eps(1e-3).linear_kernel().fit(&DatasetBase::new(x.clone(), yf));
    match svm {
        Ok(svm) => {
            f.one("svm_nsupport", svm.nsupport());
            let dec: Array1<f64> = svm.predict(&x);
            f.arr("svm_decision", &dec);
            let r: Result<Platt<f64, linfa_svm::Svm<f64, f64>>, PlattError> = Platt::params().fit_with(svm, &DatasetBase::new(x.clone(), y.clone()));
            match r {
                Ok(m) => {
                    let pt: Array1<Pr> = m.predict(&x);
                    f.arr("predict_train", &pt);
                    let pq: Array1<Pr> = m.predict(&q);
                    f.arr("predict_query", &pq);
                }
                Err(e) => f.err("fit_with", &e),
            }
        }
        Err(e) => f.err("svm_fit", &e),
    }
    f
}

fn multi_target(p: &P) -> Fingerprint {
    let (x, _y1, y2, _cls) = ops_data(p);
    let q = data::queries(&mut p.rng(81), &x, p.pick(5, 50, 300));
    let ds = Dataset::new(x.clone(), y2.clone());
    let mut f = Fingerprint::new();
    let lin = LinearRegression::new();
    let members: Result<Vec<FittedLinearRegression<f64>>, LinearError<f64>> =
        (0..ds.ntargets()).map(|j| lin.fit(&DatasetBase::new(x.view(), y2.column(j)))).collect();
    let members = match members {
        Ok(m) => m,
        Err(e) => {
            f.err("member_fit", &e);
            return f;
        }
    };
    for (j, m) in members.iter().enumerate() {
        fp_linreg(&mut f, &format!("member{j}"), m);
    }
    // FromIterator
    let mt: MultiTargetModel<Array2<f64>, f64> = members.iter().cloned().collect();
    let pq: Array2<f64> = mt.predict(&q);
    f.arr("predict_query", &pq);
    let pt: Array2<f64> = mt.predict(&x);
    f.arr("predict_train", &pt);
    match pt.r2(&y2) {
        Ok(v) => f.arr("r2", &v),
        Err(e) => f.err("r2", &e),
    }
    // `new` with mixed boxed members (a linear model and a hand-written one)
    let boxed: Vec<Box<dyn PredictInplace<Array2<f64>, Array1<f64>>>> =
        vec![Box::new(members[1].clone()), Box::new(Decision { w: [0.5, 0.0, -1.0] }), Box::new(members[0].clone())];
    let mixed = MultiTargetModel::new(boxed);
    let pm: Array2<f64> = mixed.predict(&q);
    f.arr("mixed_predict_query", &pm);
    let single: Array2<f64> = mixed.predict(&q.slice(s![0..1, ..]).to_owned());
    f.arr("mixed_predict_single", &single);
    f
}

/// member model with coarsely quantised probabilities: ties between members are frequent, so
/// `MultiClassModel`'s "first member wins a tie" rule decides many rows
#[derive(Clone)]
struct Quantised {
    centre: Array1<f64>,
    levels: f32,
}
impl<D: Data<Elem = f64>> PredictInplace<ArrayBase<D, Ix2>, Array1<Pr>> for Quantised {
    fn predict_inplace(&self, x: &ArrayBase<D, Ix2>, y: &mut Array1<Pr>) {
        for (row, t) in x.outer_iter().zip(y.iter_mut()) {
            let d2: f64 = row.iter().zip(self.centre.iter()).map(|(a, b)| (a - b) * (a - b)).sum();
            let pr = (-(d2 as f32) / 8.0).exp();
            *t = Pr::new((pr * self.levels).round() / self.levels);
        }
    }
    fn default_target(&self, x: &ArrayBase<D, Ix2>) -> Array1<Pr> {
        Array1::from_elem(x.nrows(), Pr::even())
    }
}

/// members are fitted from the binary datasets that `one_vs_all()` yields (class centroid of
/// the positive rows); `sorted` = assemble them in label order instead of the returned order
fn multi_class<L: Lab>(p: &P, sorted_members: bool) -> Fingerprint {
    let d = lab_data::<L>(p);
    let q = data::queries(&mut p.rng(91), &d.x, p.pick(6, 60, 300)).mapv(|v| v.round());
    let ds = DatasetBase::new(d.x.clone(), d.y1.clone());
    let mut f = Fingerprint::new();
    let mut parts = match ds.one_vs_all() {
        Ok(v) => v,
        Err(e) => {
            f.err("one_vs_all", &e);
            return f;
        }
    };
    if sorted_members {
        parts.sort_by(|a, b| a.0.cmp(&b.0));
    }
    let model: MultiClassModel<Array2<f64>, L> = parts
        .into_iter()
        .map(|(label, bin)| {
            let mut centre = Array1::<f64>::zeros(bin.nfeatures());
            let mut n = 0.0;
            for (row, t) in bin.records().outer_iter().zip(bin.targets().as_targets().iter()) {
                if *t {
                    centre += &row;
                    n += 1.0;
                }
            }
            // rounded centroid: classes with the same rounded centre are indistinguishable
            (label, Quantised { centre: (centre / n).mapv(|v: f64| v.round()), levels: 4.0 })
        })
        .collect();
    let sfx = if sorted_members { "sorted_members" } else { "raw_order" };
    let pt: Array1<L> = model.predict(&d.x);
    f.seq(&format!("predict_train_{sfx}"), pt.iter().cloned());
    let pq: Array1<L> = model.predict(&q);
    f.seq(&format!("predict_query_{sfx}"), pq.iter().cloned());
    match pt.confusion_matrix(&d.y1) {
        Ok(cm) => f.one(&format!("accuracy_{sfx}"), cm.accuracy()),
        Err(e) => f.err(&format!("accuracy_{sfx}"), &e),
    }
    f
}

/// `MultiClassModel::new` from an explicit, fixed member list (no hash map anywhere)
fn multi_class_fixed(p: &P) -> Fingerprint {
    let d = lab_data::<String>(p);
    let q = data::queries(&mut p.rng(92), &d.x, p.pick(6, 60, 300)).mapv(|v| v.round());
    let mut f = Fingerprint::new();
    let members: Vec<(String, Box<dyn PredictInplace<Array2<f64>, Array1<Pr>>>)> = (0..4)
        .map(|c| {
            let centre = Array1::from_shape_fn(3, |j| ((c * (j + 1)) % 5) as f64);
            (String::conv(c), Box::new(Quantised { centre, levels: 2.0 }) as Box<dyn PredictInplace<Array2<f64>, Array1<Pr>>>)
        })
        .collect();
    let model = MultiClassModel::new(members);
    let pt: Array1<String> = model.predict(&d.x);
    f.seq("predict_train", pt.iter().cloned());
    let pq: Array1<String> = model.predict(&q);
    f.seq("predict_query", pq.iter().cloned());
    f
}

// ------------------------------------------------------------------------------------------
// C19: the two serde-deriving types of the core crate
// ------------------------------------------------------------------------------------------

fn variant_of_error(e: &linfa::Error) -> u64 {
    match e {
        linfa::Error::Parameters(_) => 0,
        linfa::Error::Priors(_) => 1,
        linfa::Error::NotConverged(_) => 2,
        linfa::Error::NdShape(_) => 3,
        linfa::Error::NotEnoughSamples => 4,
        linfa::Error::MismatchedShapes(_, _) => 5,
    }
}
fn fp_error(e: &linfa::Error, _p: &P, f: &mut Fingerprint) {
    f.one("variant", variant_of_error(e));
    f.text("display", &format!("{e}"));
    f.text("debug", &format!("{e:?}"));
    match e {
        linfa::Error::Parameters(s) | linfa::Error::Priors(s) | linfa::Error::NotConverged(s) => f.text("payload", s),
        linfa::Error::MismatchedShapes(a, b) => f.seq("payload", [*a, *b]),
        _ => {}
    }
    // the conversions every algorithm crate relies on keep the message
    let pe = PlattError::from(e.clone());
    f.text("as_platt_error", &format!("{pe}"));
}

/// message with characters that stress both codecs
fn message(p: &P, what: &str) -> String {
    format!("{what} seed={} \u{3bb}=1e-3 \"quoted\" \\ tab\t newline\n nul-free \u{1F600}", p.seed)
}
fn err_parameters(p: &P) -> linfa::Error {
    linfa::Error::Parameters(message(p, "tolerance must be positive"))
}
fn err_priors(p: &P) -> linfa::Error {
    linfa::Error::Priors(message(p, "priors do not sum to one"))
}
fn err_not_converged(p: &P) -> linfa::Error {
    // empty message for even seeds, a long one otherwise
    linfa::Error::NotConverged(if p.seed % 2 == 0 { String::new() } else { "max iterations reached; ".repeat(300) })
}
/// through the public API: a metric on empty input
fn err_not_enough_samples(_p: &P) -> linfa::Error {
    let e: Array1<f64> = Array1::zeros(0);
    match e.mean_absolute_error(&e) {
        Err(err) => err,
        Ok(_) => linfa::Error::Parameters("expected NotEnoughSamples".into()),
    }
}
/// through the public API: confusion matrix of arrays of different lengths
fn err_mismatched(p: &P) -> linfa::Error {
    let n = 3 + (p.seed % 1000) as usize;
    let a = Array1::from_elem(n, 1usize);
    let b = Array1::from_elem(2 * n + 1, 1usize);
    match a.confusion_matrix(&b) {
        Err(err) => err,
        Ok(_) => linfa::Error::Parameters("expected MismatchedShapes".into()),
    }
}
/// through the public API: `From<ShapeError>`; the variant is `#[serde(skip)]`
fn err_ndshape(_p: &P) -> linfa::Error {
    match Array2::<f64>::from_shape_vec((2, 2), vec![1.0]) {
        Err(se) => linfa::Error::from(se),
        Ok(_) => linfa::Error::Parameters("expected a shape error".into()),
    }
}

fn variant_of_platt_error(e: &PlattError) -> u64 {
    match e {
        PlattError::LineSearchNotConverged => 0,
        PlattError::MaxIterReached => 1,
        PlattError::MaxIterZero => 2,
        PlattError::MinStepNegative(_) => 3,
        PlattError::SigmaNegative(_) => 4,
        PlattError::LinfaError(_) => 5,
    }
}
fn fp_platt_error(e: &PlattError, p: &P, f: &mut Fingerprint) {
    f.one("variant", variant_of_platt_error(e));
    f.text("display", &format!("{e}"));
    f.text("debug", &format!("{e:?}"));
    match e {
        PlattError::MinStepNegative(v) | PlattError::SigmaNegative(v) => f.one("payload", *v),
        PlattError::LinfaError(inner) => {
            let mut g = Fingerprint::new();
            fp_error(inner, p, &mut g);
            f.extend("inner_", g);
        }
        _ => {}
    }
}
/// through the public API: a NaN decision value defeats the line search
fn perr_line_search(p: &P) -> PlattError {
    let (_x, mut dec, y) = platt_data(p);
    dec[0] = f64::NAN;
    let v: PlattValidParams<f64, ()> = Platt::params().check().expect("default platt params");
    match platt_newton_method(dec.view(), y.view(), &v) {
        Err(e) => e,
        Ok(_) => PlattError::LineSearchNotConverged,
    }
}
/// through the public API: a single Newton iteration is not enough
fn perr_max_iter(p: &P) -> PlattError {
    let (_x, dec, y) = platt_data(p);
    let v: PlattValidParams<f64, ()> = Platt::params().maxiter(1).check().expect("valid");
    match platt_newton_method(dec.view(), y.view(), &v) {
        Err(e) => e,
        Ok(_) => PlattError::MaxIterReached,
    }
}
/// never produced by linfa itself (`maxiter == 0` is reported as `MaxIterReached`)
fn perr_max_iter_zero(_p: &P) -> PlattError {
    PlattError::MaxIterZero
}
fn perr_from_check(pp: PlattParams<f64, ()>) -> PlattError {
    match pp.check() {
        Err(e) => e,
        Ok(_) => PlattError::MaxIterZero,
    }
}
fn perr_max_iter_via_check(_p: &P) -> PlattError {
    perr_from_check(Platt::params().maxiter(0))
}
/// payload is an f32 that is not exactly representable in decimal, subnormal for odd seeds
fn perr_minstep(p: &P) -> PlattError {
    let v = if p.seed % 2 == 1 { -1.0e-40 } else { -0.1 - (p.seed % 1000) as f64 * 1e-7 };
    perr_from_check(Platt::params().minstep(v))
}
fn perr_sigma(p: &P) -> PlattError {
    perr_from_check(Platt::params().sigma(-1.0 / 3.0 - (p.seed % 1000) as f64))
}
/// non-finite payload: bincode keeps it; serde_json writes `null` for non-finite floats and
/// cannot read it back (a serde_json property, recorded as a json note only)
fn perr_sigma_nonfinite(_p: &P) -> PlattError {
    perr_from_check(Platt::params().sigma(f64::NEG_INFINITY))
}
fn perr_linfa_not_enough(p: &P) -> PlattError {
    PlattError::from(err_not_enough_samples(p))
}
fn perr_linfa(p: &P) -> PlattError {
    PlattError::from(err_mismatched(p))
}
fn perr_linfa_text(p: &P) -> PlattError {
    PlattError::from(err_parameters(p))
}
/// nested skipped variant: cannot be serialised either
fn perr_linfa_ndshape(p: &P) -> PlattError {
    PlattError::from(err_ndshape(p))
}

fn reg_c19(r: &mut Registry) {
    const E: &[&str] = &["Error"];
    const PE: &[&str] = &["PlattError"];
    const PEE: &[&str] = &["PlattError", "Error"];
    // neither type implements PartialEq: eq = None
    r.model::<linfa::Error>("core_error_parameters", K, E, Some((Kind::Claim, false)), err_parameters, fp_error, None);
    r.model::<linfa::Error>("core_error_priors", K, E, None, err_priors, fp_error, None);
    r.model::<linfa::Error>("core_error_not_converged", K, E, None, err_not_converged, fp_error, None);
    // the next two FAIL under bincode: variant indices shifted by the skipped `NdShape` (see header)
    r.model::<linfa::Error>("core_error_not_enough_samples", K, E, Some((Kind::Claim, false)), err_not_enough_samples, fp_error, None);
    r.model::<linfa::Error>("core_error_mismatched_shapes", K, E, Some((Kind::Claim, false)), err_mismatched, fp_error, None);
    // EXPECTED to report a codec error: `Error::NdShape` is `#[serde(skip)]` (src/error.rs:25-29)
    // `Error::NdShape` is deliberately marked `#[serde(skip)]` (its payload, ndarray's ShapeError,
    // has no serde support): serialising that one variant fails cleanly by construction. It does
    // not offer serialisation, so it is not a C19 subject and is not registered.
    let _ = err_ndshape;
    r.model::<PlattError>("core_platt_error_line_search", K, PE, Some((Kind::Claim, false)), perr_line_search, fp_platt_error, None);
    r.model::<PlattError>("core_platt_error_max_iter", K, PE, Some((Kind::Claim, false)), perr_max_iter, fp_platt_error, None);
    r.model::<PlattError>("core_platt_error_max_iter_via_check", K, PE, None, perr_max_iter_via_check, fp_platt_error, None);
    r.model::<PlattError>("core_platt_error_max_iter_zero", K, PE, None, perr_max_iter_zero, fp_platt_error, None);
    r.model::<PlattError>("core_platt_error_minstep", K, PE, None, perr_minstep, fp_platt_error, None);
    r.model::<PlattError>("core_platt_error_sigma", K, PE, None, perr_sigma, fp_platt_error, None);
    r.model::<PlattError>("core_platt_error_sigma_nonfinite", K, PE, None, perr_sigma_nonfinite, fp_platt_error, None);
    r.model::<PlattError>("core_platt_error_linfa_not_enough", K, PEE, None, perr_linfa_not_enough, fp_platt_error, None);
    r.model::<PlattError>("core_platt_error_linfa", K, PEE, None, perr_linfa, fp_platt_error, None);
    r.model::<PlattError>("core_platt_error_linfa_text", K, PEE, None, perr_linfa_text, fp_platt_error, None);
    // EXPECTED to report a codec error, same reason as `core_error_ndshape_skipped`
    let _ = perr_linfa_ndshape; // see the note on `Error::NdShape` above
}

pub fn register(r: &mut Registry) {
    reg_labels::<usize>(r);
    reg_labels::<bool>(r);
    reg_labels::<String>(r);
    reg_labels::<&'static str>(r);
    reg_with_labels::<usize>(r);
    reg_with_labels::<bool>(r);
    reg_with_labels::<&'static str>(r);
    r.scenario("core_ds_shuffle", K, Kind::Claim, false, ds_shuffle);
    r.scenario("core_ds_bootstrap", K, Kind::Claim, false, ds_bootstrap);
    r.scenario("core_ds_split", K, Kind::Claim, false, ds_split);
    r.scenario("core_ds_fold", K, Kind::Claim, false, ds_fold);
    r.scenario("core_ds_iter_fold", K, Kind::Claim, false, ds_iter_fold);
    r.scenario("core_ds_cross_validate", K, Kind::Claim, false, ds_cross_validate);
    r.scenario("core_metrics_confusion_usize", K, Kind::Claim, false, confusion::<usize>);
    r.scenario("core_metrics_confusion_bool", K, Kind::Claim, false, confusion::<bool>);
    r.scenario("core_metrics_confusion_string", K, Kind::Claim, false, confusion::<String>);
    r.scenario("core_metrics_roc", K, Kind::Claim, false, roc);
    r.scenario("core_metrics_regression", K, Kind::Claim, false, regression_metrics);
    r.scenario("core_metrics_silhouette_usize", K, Kind::Claim, false, silhouette::<usize>);
    r.scenario("core_metrics_silhouette_string", K, Kind::Claim, false, silhouette::<String>);
    r.scenario("core_metrics_silhouette_mirrored_usize", K, Kind::Claim, false, silhouette_mirrored::<usize>);
    r.scenario("core_metrics_silhouette_mirrored_string", K, Kind::Claim, false, silhouette_mirrored::<String>);
    r.scenario("core_metrics_pearson", K, Kind::Claim, false, pearson);
    r.scenario("core_pvalues_control", K, Kind::ControlEntropy, false, pvalues_control);
    r.scenario("core_platt_newton", K, Kind::Claim, false, platt_newton);
    r.scenario("core_platt_params", K, Kind::Claim, false, platt_params);
    r.scenario("core_platt_fit", K, Kind::Claim, false, platt_fit);
    r.scenario("core_platt_svm", K, Kind::Claim, false, platt_svm);
    r.scenario("core_multi_target", K, Kind::Claim, false, multi_target);
    r.scenario("core_multi_class_fixed", K, Kind::Claim, false, multi_class_fixed);
    // members assembled in label order: independent of the order `one_vs_all()` returns
    r.scenario("core_multi_class_usize", K, Kind::Claim, false, |p| multi_class::<usize>(p, true));
    r.scenario("core_multi_class_string", K, Kind::Claim, false, |p| multi_class::<String>(p, true));
    // members in the order `one_vs_all()` returns them (the usage shown in linfa's own
    // examples: `one_vs_all()?.into_iter().map(..).collect::<MultiClassModel<_, _>>()`); the
    // first member wins ties, so the undocumented order reaches the predictions: Claim
    r.scenario("core_raworder_multi_class_usize", K, Kind::Claim, false, |p| multi_class::<usize>(p, false));
    r.scenario("core_raworder_multi_class_string", K, Kind::Claim, false, |p| multi_class::<String>(p, false));
    reg_c19(r);
}
