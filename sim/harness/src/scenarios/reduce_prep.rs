//! Dimensionality reduction and preprocessing: linfa-reduction (PCA, diffusion
//! maps, random projections), linfa-ica (FastICA), linfa-preprocessing (linear /
//! norm scalers, whitening, count and tf-idf vectorisers), linfa-tsne.
//!
//! Nothing here reaches rayon (`uses_pool = false` everywhere).
//!
//! UNREACHABLE (serde-deriving types that cannot be named through the public API;
//! they are round-tripped as fields of reachable types):
//!   - `linfa_preprocessing::norm_scaling::Norms`   (private enum; inside `NormScaler`)
//!   - `linfa_preprocessing::countgrams::hyperparams::SerdeRegex` (private; inside
//!     `CountVectorizerValidParams` once `check_ref()` has compiled the regex)
//! NOT SERDE although one might expect it: `FastIcaParams` (only the checked
//! `FastIcaValidParams` derives serde), `DiffusionMap*`, `RandomProjection*`,
//! `TSne*`.
//! NO PUBLIC SETTER: `TfIdfVectorizer::method` — the builder can only produce
//! `TfIdfMethod::Smooth`; `NonSmooth`/`Textbook` vectorisers are obtained here by
//! editing the serde (JSON) form of the parameter set, which is the only way a user
//! could get one.  `Pca<f32>` cannot be fitted (`Fit` is implemented for `f64` only).
//! NO ACCESSORS: `FastIca` exposes neither `components` nor `mean`; they are observed
//! through `predict` on the zero row and the unit rows.  `RandomProjection` exposes no
//! projection matrix; it is observed through `transform` of the identity.

//!
//! FINDINGS recorded while writing this module (none is an environment dependence):
//!   1. C19: a restored `CountVectorizerParams` / `CountVectorizerValidParams` /
//!      `TfIdfVectorizer` that had a tokenizer *function* is accepted by `fit`, which
//!      silently tokenises with the default regex (`read_document_into_vocabulary`,
//!      countgrams/mod.rs:189 never consults `tokenizer_deserialization_guard`; only
//!      `transform` does, mod.rs:286).  Entries `cv_params_fn_tokenizer_fit_unguarded`
//!      and `cv_valid_params_fn_tokenizer_fit_unguarded` show it (expected FAIL); for the
//!      checked parameter set there is no public way to give the function back.
//!   2. `DiffusionMap` over an f32 kernel panics ("NaN values in array",
//!      linfa-linalg eigh.rs:327) on the LOBPCG branch for many inputs, identically in
//!      every environment (tolerance 1e-7 < f32 epsilon, diffusion_map/algorithms.rs:176).
//!   3. error.rs:16-19 of linfa-preprocessing: the `#[error]` texts of `TokenizerNotSet`
//!      and `FlippedMinMaxRange` are swapped (visible in `scaler_minmax_flipped`).

use crate::data;
use crate::fp::{Bits, Fingerprint};
use crate::scen::{Kind, Registry, P};
use linfa::prelude::*;
use linfa::DatasetBase;
use linfa_ica::fast_ica::{FastIca, GFunc};
use linfa_ica::hyperparams::FastIcaValidParams;
use linfa_kernel::{Kernel, KernelMethod, KernelType};
use linfa_preprocessing::linear_scaling::{LinearScaler, LinearScalerParams, ScalingMethod};
use linfa_preprocessing::norm_scaling::NormScaler;
use linfa_preprocessing::tf_idf_vectorization::{FittedTfIdfVectorizer, TfIdfMethod, TfIdfVectorizer};
use linfa_preprocessing::whitening::{FittedWhitener, Whitener, WhiteningMethod};
use linfa_preprocessing::{CountVectorizer, CountVectorizerParams, CountVectorizerValidParams, PreprocessingError, Tokenizer};
use linfa_reduction::random_projection::{
    GaussianRandomProjection, GaussianRandomProjectionParams, SparseRandomProjection, SparseRandomProjectionParams,
};
use linfa_reduction::{DiffusionMap, Pca, PcaParams};
use linfa_tsne::TSneParams;
use ndarray::{s, Array1, Array2};
use rand::rngs::SmallRng;
use rand::SeedableRng;
use rand_xoshiro::Xoshiro256Plus;
use serde::de::DeserializeOwned;
use serde::Serialize;
use sprs::CsMat;

const RED: &str = "linfa-reduction";
const ICA: &str = "linfa-ica";
const PRE: &str = "linfa-preprocessing";
const TSNE: &str = "linfa-tsne";

/// the two float types of linfa, with everything the registry needs
pub trait Fl: linfa::Float + Bits + Serialize + DeserializeOwned + Send + Sync + 'static {
    const NAME: &'static str;
}
impl Fl for f64 {
    const NAME: &'static str = "f64";
}
impl Fl for f32 {
    const NAME: &'static str = "f32";
}

fn cast<F: Fl>(a: &Array2<f64>) -> Array2<F> {
    a.mapv(F::cast)
}

fn row<F: Fl>(a: &Array2<F>, i: usize) -> Array2<F> {
    a.slice(s![i..i + 1, ..]).to_owned()
}

// ---------------------------------------------------------------------------------------------
// data
// ---------------------------------------------------------------------------------------------

fn nrows(p: &P) -> usize {
    p.pick(30, 300, 2500)
}

/// full-rank, correlated, duplicate-rich data (`d` columns)
fn dense_train(p: &P, tag: u64, d: usize) -> Array2<f64> {
    let mut x = data::blobs(&mut p.rng(tag), nrows(p), d, 3, 0.9).0;
    // correlate the last column with the first two so that the spectrum is uneven
    let mut r = p.rng(tag ^ 0x55);
    let n = x.nrows();
    for i in 0..n {
        x[[i, d - 1]] = 0.5 * x[[i, 0]] - 0.25 * x[[i, 1 % d]] + 0.3 * r.normal();
    }
    // keep the exact duplicates exact
    for i in (3..n).step_by(7) {
        let v = x[[i - 3, d - 1]];
        x[[i, d - 1]] = v;
    }
    x
}
fn dense_query(p: &P, tag: u64, train: &Array2<f64>) -> Array2<f64> {
    data::queries(&mut p.rng(tag ^ 0xABCD), train, p.pick(9, 60, 400))
}

/// scaler data: column 2 constant, column 4 all zero, column 5 small integers with
/// tied minima / maxima of both signs, column 0 badly scaled
fn scaler_train(p: &P) -> Array2<f64> {
    let mut x = data::blobs(&mut p.rng(11), nrows(p), 6, 3, 0.7).0;
    let mut r = p.rng(12);
    for i in 0..x.nrows() {
        x[[i, 0]] *= 1000.0;
        x[[i, 2]] = 3.5;
        x[[i, 4]] = 0.0;
        x[[i, 5]] = r.below(7) as f64 - 3.0;
    }
    x
}
fn scaler_query(p: &P, train: &Array2<f64>) -> Array2<f64> {
    data::queries(&mut p.rng(13), train, p.pick(9, 60, 400))
}

/// norm-scaler data: zero rows, rows with tied absolute maxima, signed zeros
fn norm_data(p: &P) -> Array2<f64> {
    let mut x = data::blobs(&mut p.rng(21), nrows(p), 5, 3, 1.5).0;
    for i in 0..x.nrows() {
        match i % 6 {
            0 => x.row_mut(i).fill(0.0),
            1 => {
                x[[i, 0]] = 2.0;
                x[[i, 1]] = -2.0;
                x[[i, 2]] = 2.0;
                x[[i, 3]] = -0.0;
                x[[i, 4]] = 1.0;
            }
            _ => {}
        }
    }
    x
}

/// independent non-Gaussian sources mixed linearly (`d` sources / features)
fn ica_train(p: &P, d: usize) -> Array2<f64> {
    let n = p.pick(40, 400, 2000);
    let mut r = p.rng(31);
    let mut s = Array2::<f64>::zeros((n, d));
    for i in 0..n {
        for j in 0..d {
            s[[i, j]] = match j % 4 {
                0 => r.range(-1.0, 1.0),
                1 => ((i * 7) % 17) as f64 / 17.0 - 0.5,
                2 => {
                    let e = -(1.0 - r.unit()).ln();
                    if r.chance(0.5) {
                        e
                    } else {
                        -e
                    }
                }
                _ => (r.below(3) as f64) - 1.0 + 0.05 * r.normal(),
            };
        }
    }
    let a = Array2::from_shape_fn((d, d), |(i, j)| if i == j { 1.0 } else { 0.3 + 0.1 * ((i + 2 * j) % 3) as f64 });
    let mut x = s.dot(&a);
    for v in x.iter_mut() {
        *v += 0.01 * r.normal();
    }
    // exact duplicate rows
    for i in (5..n).step_by(9) {
        for j in 0..d {
            x[[i, j]] = x[[i - 5, j]];
        }
    }
    x
}

/// wide data for the eps form of the random projections (JL bound needs many columns)
fn wide_data(p: &P) -> Array2<f64> {
    let n = p.pick(20, 60, 200);
    let mut r = p.rng(41);
    Array2::from_shape_fn((n, 160), |(i, j)| if (i + j) % 11 == 0 { 0.0 } else { (r.below(9) as f64 - 4.0) * 0.5 })
}

fn docs(p: &P, tag: u64) -> Array1<String> {
    Array1::from(data::corpus(&mut p.rng(tag), p.pick(8, 60, 400)))
}
fn train_docs(p: &P) -> Array1<String> {
    docs(p, 51)
}
/// unseen documents: another corpus plus out-of-vocabulary words and odd spacing
fn unseen_docs(p: &P) -> Array1<String> {
    let mut v = data::corpus(&mut p.rng(52), p.pick(5, 20, 100));
    v.push("alpha alpha ALPHA  beta,beta unknownword zz".to_string());
    v.push("two Two TWO caf\u{e9} cafe\u{301} the and of one".to_string());
    Array1::from(v)
}

// ---------------------------------------------------------------------------------------------
// PCA
// ---------------------------------------------------------------------------------------------

const PCA_D: usize = 5;

fn pca_train(p: &P) -> Array2<f64> {
    dense_train(p, 101, PCA_D)
}

fn fp_pca(m: &Pca<f64>, p: &P, f: &mut Fingerprint) {
    let x = pca_train(p);
    let q = dense_query(p, 101, &x);
    f.arr("components", m.components());
    f.arr("explained_variance", &m.explained_variance());
    f.arr("explained_variance_ratio", &m.explained_variance_ratio());
    f.arr("singular_values", m.singular_values());
    f.arr("mean", m.mean());
    let pt: Array2<f64> = m.predict(&x);
    f.arr("predict_train", &pt);
    let pq: Array2<f64> = m.predict(&q);
    f.arr("predict_query", &pq);
    let ds = m.transform(DatasetBase::from(q.clone()));
    f.arr("transform_query", ds.records());
    f.arr("inverse_query", &m.inverse_transform(pq));
    for i in 0..q.nrows().min(4) {
        let one: Array2<f64> = m.predict(&row(&q, i));
        f.arr(&format!("predict_single{i}"), &one);
    }
}

fn pca_fit(p: &P, k: usize, whiten: bool) -> Fingerprint {
    let mut f = Fingerprint::new();
    match Pca::params(k).whiten(whiten).fit(&DatasetBase::from(pca_train(p))) {
        Ok(m) => fp_pca(&m, p, &mut f),
        Err(e) => f.err("fit", &e),
    }
    f
}

fn build_pca<const K: usize, const W: bool>(p: &P) -> Pca<f64> {
    Pca::params(K).whiten(W).fit(&DatasetBase::from(pca_train(p))).expect("pca fit")
}
fn build_pca_params<const K: usize, const W: bool>(_p: &P) -> PcaParams {
    Pca::params(K).whiten(W)
}
fn fp_pca_params(v: &PcaParams, p: &P, f: &mut Fingerprint) {
    // PcaParams has no accessors and no ParamGuard; the refit shows every field
    match v.fit(&DatasetBase::from(pca_train(p))) {
        Ok(m) => fp_pca(&m, p, f),
        Err(e) => f.err("fit", &e),
    }
    // rows only: the mean of a single sample, and the empty data set
    match v.fit(&DatasetBase::from(Array2::<f64>::zeros((0, PCA_D)))) {
        Ok(_) => f.one("empty_fit_ok", true),
        Err(e) => f.err("empty_fit", &e),
    }
}

// ---------------------------------------------------------------------------------------------
// diffusion map
// ---------------------------------------------------------------------------------------------

/// `small = true` keeps `n < 5·emb + 1`, i.e. the full eigendecomposition branch of
/// `compute_diffusion_map` at every size.  The f32 variants need it: the LOBPCG branch
/// runs with tolerance 1e-7 (below f32 epsilon) and panics deterministically, in every
/// environment, with "NaN values in array" (linfa-linalg eigh.rs:327) for many inputs
/// (also for plain Gaussian data without duplicates) — a robustness defect, not an
/// environment dependence, so it is reported and kept out of the catalogue.
fn dmap<F: Fl>(p: &P, sparse: Option<usize>, steps: usize, emb: usize, small: bool) -> Fingerprint {
    let (n, emb) = if small { (p.pick(10, 40, 100), p.pick(emb, 8, 20)) } else { (p.pick(10, 150, 500), emb) };
    let x64 = data::blobs(&mut p.rng(201), n, 3, 3, 0.8).0;
    let x: Array2<F> = cast(&x64);
    let kind = match sparse {
        Some(k) => KernelType::Sparse(k.min(n - 1)),
        None => KernelType::Dense,
    };
    let kernel = Kernel::params().kind(kind).method(KernelMethod::Gaussian(F::cast(2.0))).transform(&x);
    let mut f = Fingerprint::new();
    f.one("kernel_size", kernel.size());
    match DiffusionMap::<F>::params(emb).steps(steps).transform(&kernel) {
        Ok(m) => {
            f.arr("embedding", m.embedding());
            f.arr("eigvals", m.eigvals());
            f.one("estimate_clusters", m.estimate_clusters());
        }
        Err(e) => f.err("transform", &e),
    }
    f
}

// ---------------------------------------------------------------------------------------------
// random projections (the method marker types live in a private module, so the two
// methods and the two float types are instantiated by macro from the public aliases)
// ---------------------------------------------------------------------------------------------

#[derive(Clone, Copy, PartialEq)]
enum RpForm {
    /// `target_dim(k)` on ordinary (narrow) data
    Dim(usize),
    /// `eps(e)` on wide data
    Eps(f64),
    /// builder default (`eps = 0.1`) on narrow data: documented `DimensionIncrease` error
    DefaultEps,
}
#[derive(Clone, Copy, PartialEq)]
enum RpRng {
    /// no rng passed: default seed must be fixed
    Default,
    Xoshiro,
    Small,
}

macro_rules! rproj_impl {
    ($fname:ident, $finish:ident, $RP:ident, $Params:ident, $F:ty) => {
        fn $finish<R: rand::Rng + Clone>(params: $Params<R>, form: RpForm, p: &P) -> Fingerprint {
            let mut f = Fingerprint::new();
            let x64 = if matches!(form, RpForm::Eps(_)) { wide_data(p) } else { dense_train(p, 301, 6) };
            let x: Array2<$F> = x64.mapv(|v| v as $F);
            let params = match form {
                RpForm::Dim(k) => params.target_dim(k),
                RpForm::Eps(e) => params.eps(e),
                RpForm::DefaultEps => params,
            };
            match params.check_ref() {
                Ok(v) => {
                    f.one("target_dim", v.target_dim().map(|d| d as u64));
                    f.one("eps", v.eps());
                }
                Err(e) => {
                    f.err("check", &e);
                    return f;
                }
            }
            let ds = DatasetBase::from(x.clone());
            let m = match params.fit(&ds) {
                Ok(m) => m,
                Err(e) => {
                    f.err("fit", &e);
                    return f;
                }
            };
            // fitting twice from the same parameter set must give the same projection
            let m2 = params.fit(&ds).expect("second fit");
            let d = x.ncols();
            let eye = Array2::<$F>::eye(d);
            let proj: Array2<$F> = m.transform(&eye);
            f.arr("projection_via_identity", &proj);
            let proj2: Array2<$F> = m2.transform(&eye);
            f.arr("projection_refit", &proj2);
            let t: Array2<$F> = m.transform(&x);
            f.arr("transform_train", &t);
            let q: Array2<$F> = data::queries(&mut p.rng(302), &x64, p.pick(5, 30, 100)).mapv(|v| v as $F);
            let tq: Array2<$F> = m.transform(q.clone());
            f.arr("transform_query_owned", &tq);
            let tds = m.transform(DatasetBase::from(q.clone()));
            f.arr("transform_query_dataset", tds.records());
            let labelled = DatasetBase::new(q.clone(), Array1::from_shape_fn(q.nrows(), |i| i % 2));
            let tref = m.transform(&labelled);
            f.arr("transform_query_dataset_ref", tref.records());
            f.arr("transform_query_dataset_ref_targets", tref.targets());
            for i in 0..q.nrows().min(3) {
                let one: Array2<$F> = m.transform(&row(&q, i));
                f.arr(&format!("transform_single{i}"), &one);
            }
            f
        }
        fn $fname(p: &P, form: RpForm, rng: RpRng) -> Fingerprint {
            match rng {
                RpRng::Default => $finish($RP::<$F>::params(), form, p),
                RpRng::Xoshiro => $finish($RP::<$F>::params_with_rng(Xoshiro256Plus::seed_from_u64(p.seed)), form, p),
                RpRng::Small => $finish($RP::<$F>::params().with_rng(SmallRng::seed_from_u64(p.seed ^ 7)), form, p),
            }
        }
    };
}
rproj_impl!(rp_gauss_f64, rp_gauss_f64_finish, GaussianRandomProjection, GaussianRandomProjectionParams, f64);
rproj_impl!(rp_gauss_f32, rp_gauss_f32_finish, GaussianRandomProjection, GaussianRandomProjectionParams, f32);
rproj_impl!(rp_sparse_f64, rp_sparse_f64_finish, SparseRandomProjection, SparseRandomProjectionParams, f64);
rproj_impl!(rp_sparse_f32, rp_sparse_f32_finish, SparseRandomProjection, SparseRandomProjectionParams, f32);

// ---------------------------------------------------------------------------------------------
// FastICA
// ---------------------------------------------------------------------------------------------

const ICA_D: usize = 3;

fn fp_ica<F: Fl>(m: &FastIca<F>, p: &P, f: &mut Fingerprint) {
    let x64 = ica_train(p, ICA_D);
    let x: Array2<F> = cast(&x64);
    let q: Array2<F> = cast(&data::queries(&mut p.rng(32), &x64, p.pick(6, 40, 200)));
    // no accessors: zero row gives -mean·Cᵀ, unit rows give the columns of C (shifted)
    let mut probe = Array2::<F>::zeros((ICA_D + 1, ICA_D));
    for j in 0..ICA_D {
        probe[[j + 1, j]] = F::one();
    }
    let pr: Array2<F> = m.predict(&probe);
    f.arr("predict_probe(mean,components)", &pr);
    let pt: Array2<F> = m.predict(&x);
    f.arr("predict_train", &pt);
    let pq: Array2<F> = m.predict(&q);
    f.arr("predict_query", &pq);
    let pd: Array2<F> = m.predict(&DatasetBase::from(q.clone()));
    f.arr("predict_query_dataset", &pd);
    for i in 0..q.nrows().min(3) {
        let one: Array2<F> = m.predict(&row(&q, i));
        f.arr(&format!("predict_single{i}"), &one);
    }
}

fn gfunc_of(g: u8) -> GFunc {
    match g {
        0 => GFunc::Logcosh(1.0),
        1 => GFunc::Logcosh(2.0), // documented upper bound of alpha
        2 => GFunc::Exp,
        3 => GFunc::Cube,
        _ => GFunc::Logcosh(2.5), // outside [1, 2]: fit must return InvalidValue
    }
}

fn ica_valid<F: Fl>(g: u8, seed: Option<usize>, ncomp: Option<usize>) -> FastIcaValidParams<F> {
    let mut b = FastIca::<F>::params().gfunc(gfunc_of(g)).max_iter(60).tol(F::cast(1e-5));
    if let Some(s) = seed {
        b = b.random_state(s);
    }
    if let Some(c) = ncomp {
        b = b.ncomponents(c);
    }
    b.check().expect("ica params")
}

fn ica_fit<F: Fl>(p: &P, g: u8, seed: Option<usize>, ncomp: Option<usize>) -> Fingerprint {
    let mut f = Fingerprint::new();
    let x: Array2<F> = cast(&ica_train(p, ICA_D));
    match ica_valid::<F>(g, seed, ncomp).fit(&DatasetBase::from(x)) {
        Ok(m) => fp_ica(&m, p, &mut f),
        Err(e) => f.err("fit", &e),
    }
    f
}

fn build_ica<F: Fl, const G: u8>(p: &P) -> FastIca<F> {
    let x: Array2<F> = cast(&ica_train(p, ICA_D));
    ica_valid::<F>(G, Some((p.seed % 1000) as usize + 3), None).fit(&DatasetBase::from(x)).expect("ica fit")
}
fn build_ica_params<F: Fl, const G: u8>(p: &P) -> FastIcaValidParams<F> {
    ica_valid::<F>(G, Some((p.seed % 1000) as usize + 5), if G == 3 { Some(2) } else { None })
}
/// boundary values of the optional fields: seed 0 and one component are legal values that a
/// "0 means unset" style encoding would lose
fn build_ica_params_seed0<F: Fl>(_p: &P) -> FastIcaValidParams<F> {
    ica_valid::<F>(0, Some(0), Some(1))
}
fn build_ica_params_seed_max<F: Fl>(_p: &P) -> FastIcaValidParams<F> {
    ica_valid::<F>(2, Some(usize::MAX), None)
}
fn fp_gfunc_bits(g: &GFunc, f: &mut Fingerprint) {
    match g {
        GFunc::Logcosh(a) => {
            f.text("gfunc", "logcosh");
            f.one("gfunc_alpha", *a);
        }
        GFunc::Exp => f.text("gfunc", "exp"),
        GFunc::Cube => f.text("gfunc", "cube"),
    }
}
fn fp_ica_params<F: Fl>(v: &FastIcaValidParams<F>, p: &P, f: &mut Fingerprint) {
    f.one("ncomponents", v.ncomponents().map(|c| c as u64));
    fp_gfunc_bits(v.gfunc(), f);
    f.one("max_iter", v.max_iter());
    f.one("tol", v.tol());
    f.one("random_state", v.random_state().map(|c| c as u64));
    let x: Array2<F> = cast(&ica_train(p, ICA_D));
    match v.fit(&DatasetBase::from(x)) {
        Ok(m) => fp_ica(&m, p, f),
        Err(e) => f.err("refit", &e),
    }
}
fn build_gfunc<const G: u8>(_p: &P) -> GFunc {
    gfunc_of(G)
}
fn fp_gfunc(g: &GFunc, p: &P, f: &mut Fingerprint) {
    fp_gfunc_bits(g, f);
    let x = ica_train(p, ICA_D);
    let params = FastIca::<f64>::params().gfunc(*g).max_iter(60).random_state(17);
    match params.fit(&DatasetBase::from(x)) {
        Ok(m) => fp_ica(&m, p, f),
        Err(e) => f.err("fit", &e),
    }
}

// ---------------------------------------------------------------------------------------------
// linear scalers
// ---------------------------------------------------------------------------------------------

/// 0 std(T,T) 1 std(F,T) 2 std(T,F) 3 std(F,F) 4 minmax(0,1) 5 minmax(-2,3) 6 maxabs
/// 7 minmax(3,-2) (flipped: documented fit error) 8 minmax(1,1) (degenerate range)
fn scaling_params<F: Fl>(m: u8) -> LinearScalerParams<F> {
    match m {
        0 => LinearScaler::standard(),
        1 => LinearScaler::standard_no_mean(),
        2 => LinearScaler::standard_no_std(),
        3 => LinearScalerParams::new(ScalingMethod::Standard(false, false)),
        4 => LinearScaler::min_max(),
        5 => LinearScaler::min_max_range(F::cast(-2.0), F::cast(3.0)),
        6 => LinearScaler::max_abs(),
        7 => LinearScaler::min_max_range(F::cast(3.0), F::cast(-2.0)),
        _ => LinearScaler::min_max().method(ScalingMethod::MinMax(F::one(), F::one())),
    }
}
fn scaling_method<F: Fl>(m: u8) -> ScalingMethod<F> {
    match m {
        0 => ScalingMethod::Standard(true, true),
        1 => ScalingMethod::Standard(false, true),
        2 => ScalingMethod::Standard(true, false),
        3 => ScalingMethod::Standard(false, false),
        4 => ScalingMethod::MinMax(F::zero(), F::one()),
        5 => ScalingMethod::MinMax(F::cast(-2.0), F::cast(3.0)),
        6 => ScalingMethod::MaxAbs,
        7 => ScalingMethod::MinMax(F::cast(3.0), F::cast(-2.0)),
        _ => ScalingMethod::MinMax(F::one(), F::one()),
    }
}
const SCALER_NAMES: [&str; 9] = ["std", "std_nomean", "std_nostd", "std_none", "minmax01", "minmax_range", "maxabs", "minmax_flipped", "minmax_degenerate"];

fn fp_scaler<F: Fl>(m: &LinearScaler<F>, p: &P, f: &mut Fingerprint) {
    let x64 = scaler_train(p);
    let x: Array2<F> = cast(&x64);
    let q: Array2<F> = cast(&scaler_query(p, &x64));
    f.arr("offsets", m.offsets());
    f.arr("scales", m.scales());
    f.text("method", &m.method().to_string());
    f.arr("transform_train", &m.transform(x.clone()));
    f.arr("transform_query", &m.transform(q.clone()));
    let y = Array1::from_shape_fn(q.nrows(), |i| i % 3);
    let ds = m.transform(DatasetBase::new(q.clone(), y));
    f.arr("transform_query_dataset", ds.records());
    f.arr("transform_query_dataset_targets", ds.targets());
    for i in 0..q.nrows().min(3) {
        f.arr(&format!("transform_single{i}"), &m.transform(row(&q, i)));
    }
    f.arr("transform_empty", &m.transform(Array2::<F>::zeros((0, x.ncols()))));
}
fn scaler_fit<F: Fl>(p: &P, m: u8) -> Fingerprint {
    let mut f = Fingerprint::new();
    let x: Array2<F> = cast(&scaler_train(p));
    match scaling_params::<F>(m).fit(&DatasetBase::from(x)) {
        Ok(s) => fp_scaler(&s, p, &mut f),
        Err(e) => f.err("fit", &e),
    }
    f
}
fn build_scaler<F: Fl, const M: u8>(p: &P) -> LinearScaler<F> {
    let x: Array2<F> = cast(&scaler_train(p));
    scaling_params::<F>(M).fit(&DatasetBase::from(x)).expect("scaler fit")
}
fn build_scaler_params<F: Fl, const M: u8>(_p: &P) -> LinearScalerParams<F> {
    scaling_params::<F>(M)
}
fn fp_scaler_params<F: Fl>(v: &LinearScalerParams<F>, p: &P, f: &mut Fingerprint) {
    let x: Array2<F> = cast(&scaler_train(p));
    match v.fit(&DatasetBase::from(x)) {
        Ok(s) => fp_scaler(&s, p, f),
        Err(e) => f.err("fit", &e),
    }
    match v.fit(&DatasetBase::from(Array2::<F>::zeros((0, 6)))) {
        Ok(_) => f.one("empty_fit_ok", true),
        Err(e) => f.err("empty_fit", &e),
    }
}
fn build_scaling_method<F: Fl, const M: u8>(_p: &P) -> ScalingMethod<F> {
    scaling_method::<F>(M)
}
fn fp_scaling_method<F: Fl>(v: &ScalingMethod<F>, p: &P, f: &mut Fingerprint) {
    f.text("display", &v.to_string());
    fp_scaler_params(&LinearScalerParams::new(v.clone()), p, f);
}

// ---------------------------------------------------------------------------------------------
// norm scaler
// ---------------------------------------------------------------------------------------------

fn norm_of(k: u8) -> NormScaler {
    match k {
        0 => NormScaler::l1(),
        1 => NormScaler::l2(),
        _ => NormScaler::max(),
    }
}
fn fp_norm_t<F: Fl>(m: &NormScaler, p: &P, f: &mut Fingerprint) {
    let x: Array2<F> = cast(&norm_data(p));
    let t: Array2<F> = m.transform(x.clone());
    f.arr(&format!("transform_{}", F::NAME), &t);
    let y = Array1::from_shape_fn(x.nrows(), |i| i % 2 == 0);
    let ds = m.transform(DatasetBase::new(x.clone(), y));
    f.arr(&format!("transform_dataset_{}", F::NAME), ds.records());
    for i in 0..4 {
        let one: Array2<F> = m.transform(row(&x, i));
        f.arr(&format!("transform_single{i}_{}", F::NAME), &one);
    }
    let e: Array2<F> = m.transform(Array2::<F>::zeros((0, 5)));
    f.arr(&format!("transform_empty_{}", F::NAME), &e);
}
fn fp_norm(m: &NormScaler, p: &P, f: &mut Fingerprint) {
    fp_norm_t::<f64>(m, p, f);
    fp_norm_t::<f32>(m, p, f);
}
fn build_norm<const K: u8>(_p: &P) -> NormScaler {
    norm_of(K)
}

// ---------------------------------------------------------------------------------------------
// whitening
// ---------------------------------------------------------------------------------------------

const WH_D: usize = 4;

fn whitener_of(k: u8) -> Whitener {
    match k {
        0 => Whitener::pca(),
        1 => Whitener::zca(),
        _ => Whitener::cholesky(),
    }
}
fn whitening_method_of(k: u8) -> WhiteningMethod {
    match k {
        0 => WhiteningMethod::Pca,
        1 => WhiteningMethod::Zca,
        _ => WhiteningMethod::Cholesky,
    }
}
const WH_NAMES: [&str; 3] = ["pca", "zca", "cholesky"];

fn whiten_train(p: &P) -> Array2<f64> {
    dense_train(p, 401, WH_D)
}
fn fp_whitener<F: Fl>(m: &FittedWhitener<F>, p: &P, f: &mut Fingerprint) {
    let x64 = whiten_train(p);
    let x: Array2<F> = cast(&x64);
    let q: Array2<F> = cast(&dense_query(p, 401, &x64));
    f.arr("transformation_matrix", &m.transformation_matrix());
    f.arr("mean", &m.mean());
    f.arr("transform_train", &m.transform(x.clone()));
    f.arr("transform_query", &m.transform(q.clone()));
    let ds = m.transform(DatasetBase::from(q.clone()));
    f.arr("transform_query_dataset", ds.records());
    for i in 0..q.nrows().min(3) {
        f.arr(&format!("transform_single{i}"), &m.transform(row(&q, i)));
    }
}
fn whiten_fit<F: Fl>(p: &P, k: u8, singular: bool) -> Fingerprint {
    let mut f = Fingerprint::new();
    let mut x64 = whiten_train(p);
    if singular {
        // exactly collinear column and a constant column: singular covariance
        for i in 0..x64.nrows() {
            x64[[i, 2]] = 2.0 * x64[[i, 0]];
            x64[[i, 3]] = 1.0;
        }
    }
    let x: Array2<F> = cast(&x64);
    let fit: Result<FittedWhitener<F>, _> = whitener_of(k).fit(&DatasetBase::from(x.clone()));
    match fit {
        Ok(m) => {
            if singular {
                f.arr("transformation_matrix", &m.transformation_matrix());
                f.arr("mean", &m.mean());
                f.arr("transform_train", &m.transform(x));
            } else {
                fp_whitener(&m, p, &mut f)
            }
        }
        Err(e) => f.err("fit", &e),
    }
    f
}
fn build_whitener_params<const K: u8>(_p: &P) -> Whitener {
    whitener_of(K)
}
fn fp_whitener_params(v: &Whitener, p: &P, f: &mut Fingerprint) {
    let fit: Result<FittedWhitener<f64>, _> = v.fit(&DatasetBase::from(whiten_train(p)));
    match fit {
        Ok(m) => fp_whitener(&m, p, f),
        Err(e) => f.err("fit", &e),
    }
    let empty: Result<FittedWhitener<f64>, _> = v.fit(&DatasetBase::from(Array2::<f64>::zeros((0, WH_D))));
    match empty {
        Ok(_) => f.one("empty_fit_ok", true),
        Err(e) => f.err("empty_fit", &e),
    }
}
fn build_whitening_method<const K: u8>(_p: &P) -> WhiteningMethod {
    whitening_method_of(K)
}
fn fp_whitening_method(v: &WhiteningMethod, p: &P, f: &mut Fingerprint) {
    f.text("debug", &format!("{v:?}"));
    fp_whitener_params(&Whitener::pca().method(v.clone()), p, f);
}
/// ten features: rows long enough for unrolled / blocked inner products, whose summation order
/// depends on the memory layout of the stored matrices
fn whiten_train_wide(p: &P) -> Array2<f64> {
    dense_train(p, 403, 10)
}
fn build_whitener_wide<const K: u8>(p: &P) -> FittedWhitener<f64> {
    whitener_of(K).fit(&DatasetBase::from(whiten_train_wide(p))).expect("whitener fit")
}
fn fp_whitener_wide(m: &FittedWhitener<f64>, p: &P, f: &mut Fingerprint) {
    let x = whiten_train_wide(p);
    let q = dense_query(p, 403, &x);
    f.arr("transformation_matrix", &m.transformation_matrix());
    f.arr("mean", &m.mean());
    f.arr("transform_train", &m.transform(x.clone()));
    f.arr("transform_query", &m.transform(q.clone()));
    for i in 0..q.nrows().min(3) {
        f.arr(&format!("transform_single{i}"), &m.transform(row(&q, i)));
    }
}
fn build_whitener<F: Fl, const K: u8>(p: &P) -> FittedWhitener<F> {
    let x: Array2<F> = cast(&whiten_train(p));
    whitener_of(K).fit(&DatasetBase::from(x)).expect("whitener fit")
}

// ---------------------------------------------------------------------------------------------
// count vectoriser / tf-idf
// ---------------------------------------------------------------------------------------------

/// the custom tokenizer function of the `*_fn_tokenizer` scenarios: split on single
/// blanks (keeps one-letter words and trailing commas, unlike the default regex)
fn blank_tokenizer(s: &str) -> Vec<&str> {
    // a caller-supplied callback: instrumented for fault injection (see `fault.rs`)
    crate::fault::tick();
    s.split(' ').filter(|t| !t.is_empty()).collect()
}

/// Canonical form of a vectoriser output.  The assignment of vocabulary words to
/// columns is not specified by linfa (`vocabulary()` is only promised to be "in the
/// same order used by the transform methods"), so columns are looked up through
/// `vocabulary()[j]` and reported in the order of the sorted words.
fn fp_sparse<N: Bits + Copy>(voc: &[String], m: &CsMat<N>, tag: &str, f: &mut Fingerprint) {
    let (nr, nc) = (m.rows(), m.cols());
    // dense copy of the bit patterns, column-major (an absent entry is 0 / 0.0, whose bits are 0)
    let mut dense = vec![0u64; nr * nc];
    let mut explicit = 0usize;
    for (v, (i, j)) in m.iter() {
        dense[j * nr + i] = v.bits();
        explicit += 1;
    }
    f.one(&format!("{tag}_rows"), nr);
    f.one(&format!("{tag}_cols"), nc);
    f.one(&format!("{tag}_nnz"), m.nnz());
    f.one(&format!("{tag}_explicit_entries"), explicit);
    let mut idx: Vec<usize> = (0..voc.len()).collect();
    idx.sort_by(|&a, &b| voc[a].cmp(&voc[b]));
    let mut vals: Vec<u64> = Vec::with_capacity(voc.len() * (nr + 1));
    for &j in &idx {
        vals.push(voc[j].bits());
        if j < nc {
            vals.extend_from_slice(&dense[j * nr..(j + 1) * nr]);
        } else {
            vals.push(0xDEAD_0000_0000_0000); // vocabulary longer than the matrix is wide
        }
    }
    f.raw(&format!("{tag}_by_word"), vals);
}

fn fp_vocabulary(voc: &[String], nentries: usize, f: &mut Fingerprint) {
    let mut sorted: Vec<&str> = voc.iter().map(|s| s.as_str()).collect();
    sorted.sort();
    let distinct = {
        let mut d = sorted.clone();
        d.dedup();
        d.len()
    };
    f.text("vocabulary_sorted", &sorted.join("\u{1f}"));
    f.one("vocabulary_len", voc.len());
    f.one("vocabulary_distinct", distinct);
    f.one("nentries", nentries);
}

fn fp_cv(m: &CountVectorizer, p: &P, f: &mut Fingerprint) {
    fp_vocabulary(m.vocabulary(), m.nentries(), f);
    for (tag, d) in [("train", train_docs(p)), ("unseen", unseen_docs(p))] {
        match m.transform(&d) {
            Ok(c) => fp_sparse(m.vocabulary(), &c, tag, f),
            Err(e) => f.err(&format!("transform_{tag}"), &e),
        }
    }
    // single documents
    let d = unseen_docs(p);
    for i in 0..3.min(d.len()) {
        match m.transform(&d.slice(s![i..i + 1])) {
            Ok(c) => fp_sparse(m.vocabulary(), &c, &format!("single{i}"), f),
            Err(e) => f.err(&format!("transform_single{i}"), &e),
        }
    }
}

/// Documents written to real files (the file entry points read by path through `std::fs`;
/// there is no seam, so a private directory under the system temp dir is used and removed).
struct DocFiles {
    dir: std::path::PathBuf,
    paths: Vec<std::path::PathBuf>,
}
impl DocFiles {
    fn new(docs: &Array1<String>) -> DocFiles {
        static CTR: std::sync::atomic::AtomicU64 = std::sync::atomic::AtomicU64::new(0);
        let n = CTR.fetch_add(1, std::sync::atomic::Ordering::SeqCst);
        let dir = std::env::temp_dir().join(format!("linfa-sim-docs-{}-{}", std::process::id(), n));
        std::fs::create_dir_all(&dir).expect("temp dir for document files");
        let mut paths = Vec::new();
        for (i, d) in docs.iter().enumerate() {
            let path = dir.join(format!("doc{i:04}.txt"));
            std::fs::write(&path, d.as_bytes()).expect("write document file");
            paths.push(path);
        }
        DocFiles { dir, paths }
    }
}
impl Drop for DocFiles {
    fn drop(&mut self) {
        let _ = std::fs::remove_dir_all(&self.dir);
    }
}

fn fp_cv_files(m: &CountVectorizer, p: &P, f: &mut Fingerprint) {
    let docs = unseen_docs(p);
    let files = DocFiles::new(&docs);
    match m.transform_files(&files.paths, encoding::all::UTF_8, encoding::DecoderTrap::Strict) {
        Ok(c) => fp_sparse(m.vocabulary(), &c, "files", f),
        Err(e) => f.err("transform_files", &e),
    }
}

/// Documented behaviour of a vectoriser with a tokenizer *function*: the function
/// pointer is not serialised; after restore every use returns `TokenizerNotSet` until
/// `force_tokenizer_function_redefinition` is called, after which the output must be
/// identical.  So *before* the redefinition a use is legitimate iff it either fails with
/// `TokenizerNotSet` or gives exactly what it gives after the redefinition (the original
/// value, which still has its function).  That contract is encoded here: a
/// `TokenizerNotSet` outcome is replaced by the post-redefinition result, anything else
/// (e.g. `Ok` with documents tokenised some other way) is recorded as it is.
fn fp_cv_fn_tokenizer(m: &CountVectorizer, p: &P, f: &mut Fingerprint) {
    let mut c = m.clone();
    c.force_tokenizer_function_redefinition(blank_tokenizer);
    let mut before = Fingerprint::new();
    match m.transform(&train_docs(p)) {
        Ok(x) => fp_sparse(m.vocabulary(), &x, "train", &mut before),
        Err(PreprocessingError::TokenizerNotSet) => match c.transform(&train_docs(p)) {
            Ok(x) => fp_sparse(c.vocabulary(), &x, "train", &mut before),
            Err(e) => before.err("transform_train", &e),
        },
        Err(e) => before.err("transform_train", &e),
    }
    {
        let docs = unseen_docs(p);
        let files = DocFiles::new(&docs);
        match m.transform_files(&files.paths, encoding::all::UTF_8, encoding::DecoderTrap::Strict) {
            Ok(x) => fp_sparse(m.vocabulary(), &x, "files", &mut before),
            Err(PreprocessingError::TokenizerNotSet) => match c.transform_files(&files.paths, encoding::all::UTF_8, encoding::DecoderTrap::Strict) {
                Ok(x) => fp_sparse(c.vocabulary(), &x, "files", &mut before),
                Err(e) => before.err("transform_files", &e),
            },
            Err(e) => before.err("transform_files", &e),
        }
    }
    f.extend("before_redefinition/", before);
    fp_cv(&c, p, f);
    fp_cv_files(&c, p, f);
    // a vectoriser whose tokenizer was given back is persisted again: the function still cannot
    // be written, so the copy restored from THAT file is again bound by the same contract
    let mut gen3 = Fingerprint::new();
    match bincode::serialize(&c).map_err(|e| e.to_string()).and_then(|b| bincode::deserialize::<CountVectorizer>(&b).map_err(|e| e.to_string())) {
        Ok(c2) => match c2.transform(&train_docs(p)) {
            Ok(x) => fp_sparse(c2.vocabulary(), &x, "train", &mut gen3),
            Err(PreprocessingError::TokenizerNotSet) => match c.transform(&train_docs(p)) {
                Ok(x) => fp_sparse(c.vocabulary(), &x, "train", &mut gen3),
                Err(e) => gen3.err("transform_train", &e),
            },
            Err(e) => gen3.err("transform_train", &e),
        },
        Err(e) => gen3.text("codec", &e),
    }
    f.extend("re_persisted_after_redefinition/", gen3);
}

fn fp_tfidf(m: &FittedTfIdfVectorizer, p: &P, f: &mut Fingerprint) {
    fp_vocabulary(m.vocabulary(), m.nentries(), f);
    f.text("method", &format!("{:?}", m.method()));
    for (tag, d) in [("train", train_docs(p)), ("unseen", unseen_docs(p))] {
        match m.transform(&d) {
            Ok(c) => fp_sparse(m.vocabulary(), &c, tag, f),
            Err(e) => f.err(&format!("transform_{tag}"), &e),
        }
    }
    let d = unseen_docs(p);
    for i in 0..3.min(d.len()) {
        match m.transform(&d.slice(s![i..i + 1])) {
            Ok(c) => fp_sparse(m.vocabulary(), &c, &format!("single{i}"), f),
            Err(e) => f.err(&format!("transform_single{i}"), &e),
        }
    }
}
fn fp_tfidf_files(m: &FittedTfIdfVectorizer, p: &P, f: &mut Fingerprint) {
    let docs = unseen_docs(p);
    let files = DocFiles::new(&docs);
    match m.transform_files(&files.paths, encoding::all::UTF_8, encoding::DecoderTrap::Strict) {
        Ok(c) => fp_sparse(m.vocabulary(), &c, "files", f),
        Err(e) => f.err("transform_files", &e),
    }
}
/// same contract as [`fp_cv_fn_tokenizer`]
fn fp_tfidf_fn_tokenizer(m: &FittedTfIdfVectorizer, p: &P, f: &mut Fingerprint) {
    let mut c = m.clone();
    c.force_tokenizer_redefinition(blank_tokenizer);
    let mut before = Fingerprint::new();
    match m.transform(&train_docs(p)) {
        Ok(x) => fp_sparse(m.vocabulary(), &x, "train", &mut before),
        Err(PreprocessingError::TokenizerNotSet) => match c.transform(&train_docs(p)) {
            Ok(x) => fp_sparse(c.vocabulary(), &x, "train", &mut before),
            Err(e) => before.err("transform_train", &e),
        },
        Err(e) => before.err("transform_train", &e),
    }
    {
        let docs = unseen_docs(p);
        let files = DocFiles::new(&docs);
        match m.transform_files(&files.paths, encoding::all::UTF_8, encoding::DecoderTrap::Strict) {
            Ok(x) => fp_sparse(m.vocabulary(), &x, "files", &mut before),
            Err(PreprocessingError::TokenizerNotSet) => match c.transform_files(&files.paths, encoding::all::UTF_8, encoding::DecoderTrap::Strict) {
                Ok(x) => fp_sparse(c.vocabulary(), &x, "files", &mut before),
                Err(e) => before.err("transform_files", &e),
            },
            Err(e) => before.err("transform_files", &e),
        }
    }
    f.extend("before_redefinition/", before);
    fp_tfidf(&c, p, f);
    fp_tfidf_files(&c, p, f);
    // see fp_cv_fn_tokenizer: same contract after persisting the repaired value again
    let mut gen3 = Fingerprint::new();
    match bincode::serialize(&c).map_err(|e| e.to_string()).and_then(|b| bincode::deserialize::<FittedTfIdfVectorizer>(&b).map_err(|e| e.to_string())) {
        Ok(c2) => match c2.transform(&train_docs(p)) {
            Ok(x) => fp_sparse(c2.vocabulary(), &x, "train", &mut gen3),
            Err(PreprocessingError::TokenizerNotSet) => match c.transform(&train_docs(p)) {
                Ok(x) => fp_sparse(c.vocabulary(), &x, "train", &mut gen3),
                Err(e) => gen3.err("transform_train", &e),
            },
            Err(e) => gen3.err("transform_train", &e),
        },
        Err(e) => gen3.text("codec", &e),
    }
    f.extend("re_persisted_after_redefinition/", gen3);
}

const STOP: [&str; 5] = ["the", "and", "of", "alpha", "two two"];
const GIVEN_VOCABULARY: [&str; 9] = ["alpha", "beta", "two", "Two", "cafe\u{301}", "caf\u{e9}", "nosuchword", "alpha", "the and"];

/// count-vectoriser parameter sets by number
///  0 default                      1 no lowercase, no NFKD       2 n-grams (1,2)
///  3 n-grams (2,2)                4 n-grams (2,3)               5 stopwords
///  6 document frequency window    7 max_features (ties at cap)  8 max_features + n-grams + df + stopwords
///  9 regex tokenizer             10 function tokenizer         11 function tokenizer + n-grams + cap
/// 12 n-gram bound 0 (invalid)    13 flipped n-grams (invalid)  14 negative df (invalid)
/// 15 flipped df (invalid)        16 invalid regex              17 max_features(Some(0))
/// 18 df window (0, 0.999): max document frequency just below 1
fn cv_params(k: u8, p: &P) -> CountVectorizerParams {
    let cap = p.pick(5, 9, 14);
    let b = CountVectorizer::params();
    match k {
        0 => b,
        1 => b.convert_to_lowercase(false).normalize(false),
        2 => b.n_gram_range(1, 2),
        3 => b.n_gram_range(2, 2),
        4 => b.n_gram_range(2, 3),
        5 => b.stopwords(&STOP),
        6 => b.document_frequency(0.25, 0.45),
        7 => b.max_features(Some(cap)),
        8 => b.n_gram_range(1, 2).document_frequency(0.05, 0.9).stopwords(&STOP).max_features(Some(2 * cap)),
        9 => b.tokenizer(Tokenizer::Regex(r"\b[^ ][^ ]+\b".to_string())),
        10 => b.tokenizer(Tokenizer::Function(blank_tokenizer)),
        11 => b.tokenizer(Tokenizer::Function(blank_tokenizer)).n_gram_range(1, 2).max_features(Some(cap)).convert_to_lowercase(false),
        12 => b.n_gram_range(0, 2),
        13 => b.n_gram_range(3, 2),
        14 => b.document_frequency(-0.1, 0.5),
        15 => b.document_frequency(0.8, 0.2),
        16 => b.tokenizer(Tokenizer::Regex(r"[".to_string())),
        17 => b.max_features(Some(0)),
        _ => b.document_frequency(0.0, 0.999),
    }
}
const CV_NAMES: [&str; 19] = [
    "default",
    "raw_case",
    "ngram12",
    "ngram22",
    "ngram23",
    "stopwords",
    "docfreq",
    "maxfeat",
    "combined",
    "regex_tokenizer",
    "fn_tokenizer",
    "fn_tokenizer_ngram_cap",
    "invalid_ngram_zero",
    "invalid_ngram_flipped",
    "invalid_df_negative",
    "invalid_df_flipped",
    "invalid_regex",
    "maxfeat_zero",
    "docfreq_below_one",
];
fn cv_fit(p: &P, k: u8) -> Fingerprint {
    let mut f = Fingerprint::new();
    match cv_params(k, p).fit(&train_docs(p)) {
        Ok(m) => fp_cv(&m, p, &mut f),
        Err(e) => f.err("fit", &e),
    }
    f
}
fn cv_fit_vocabulary(p: &P, k: u8) -> Fingerprint {
    let mut f = Fingerprint::new();
    match cv_params(k, p).fit_vocabulary(&GIVEN_VOCABULARY) {
        Ok(m) => fp_cv(&m, p, &mut f),
        Err(e) => f.err("fit_vocabulary", &e),
    }
    f
}

fn fp_cv_valid_accessors(v: &CountVectorizerValidParams, with_tokenizer_flag: bool, f: &mut Fingerprint) {
    f.one("max_features", v.max_features().map(|c| c as u64));
    f.one("convert_to_lowercase", v.convert_to_lowercase());
    f.text("split_regex", v.split_regex().as_str());
    f.seq("n_gram_range", [v.n_gram_range().0, v.n_gram_range().1]);
    f.one("normalize", v.normalize());
    f.seq("document_frequency", [v.document_frequency().0, v.document_frequency().1]);
    match v.stopwords() {
        None => f.text("stopwords", "none"),
        Some(s) => {
            // a HashSet: unordered by definition
            let mut w: Vec<&str> = s.iter().map(|x| x.as_str()).collect();
            w.sort();
            f.text("stopwords", &w.join("\u{1f}"));
        }
    }
    if with_tokenizer_flag {
        f.one("tokenizer_function_set", v.tokenizer_function().is_some());
    }
}

fn build_cv_params<const K: u8>(p: &P) -> CountVectorizerParams {
    cv_params(K, p)
}
/// regex / default tokenizer: the restored value is used as is
fn fp_cv_params(v: &CountVectorizerParams, p: &P, f: &mut Fingerprint) {
    match v.check_ref() {
        Ok(valid) => {
            f.one("check_ok", true);
            fp_cv_valid_accessors(valid, true, f);
        }
        Err(e) => {
            f.err("check", &e);
            return;
        }
    }
    match v.fit(&train_docs(p)) {
        Ok(m) => fp_cv(&m, p, f),
        Err(e) => f.err("fit", &e),
    }
    match v.fit_vocabulary(&GIVEN_VOCABULARY) {
        Ok(m) => {
            let mut g = Fingerprint::new();
            fp_cv(&m, p, &mut g);
            f.extend("given_vocabulary/", g);
        }
        Err(e) => f.err("fit_vocabulary", &e),
    }
}
/// function tokenizer: the pointer is not serialised; the analogue of the documented
/// remedy for a parameter set is to call `.tokenizer(Tokenizer::Function(..))` again
fn fp_cv_params_fn_redefined(v: &CountVectorizerParams, p: &P, f: &mut Fingerprint) {
    let v = v.clone().tokenizer(Tokenizer::Function(blank_tokenizer));
    match v.check_ref() {
        Ok(valid) => fp_cv_valid_accessors(valid, true, f),
        Err(e) => {
            f.err("check", &e);
            return;
        }
    }
    match v.fit(&train_docs(p)) {
        Ok(m) => fp_cv(&m, p, f),
        Err(e) => f.err("fit", &e),
    }
}
/// function tokenizer, restored parameter set used *without* redefinition: `fit` has
/// no guard.  Only the vocabulary is observed (after giving the fitted vectoriser its
/// tokenizer back, which is the documented remedy for the fitted type).
fn fp_cv_params_fn_unguarded(v: &CountVectorizerParams, p: &P, f: &mut Fingerprint) {
    // contract as in `fp_cv_fn_tokenizer`: before the tokenizer is given back, fitting either
    // reports TokenizerNotSet or gives what it gives afterwards
    let fitted = match v.fit(&train_docs(p)) {
        Err(PreprocessingError::TokenizerNotSet) => v.clone().tokenizer(Tokenizer::Function(blank_tokenizer)).fit(&train_docs(p)),
        other => other,
    };
    match fitted {
        Ok(m) => {
            let mut c = m.clone();
            c.force_tokenizer_function_redefinition(blank_tokenizer);
            fp_cv(&c, p, f)
        }
        Err(e) => f.err("fit", &e),
    }
    // the file entry point follows the same rule
    let docs = train_docs(p);
    let files = DocFiles::new(&docs);
    let fitted = match v.fit_files(&files.paths, encoding::all::UTF_8, encoding::DecoderTrap::Strict) {
        Err(PreprocessingError::TokenizerNotSet) => {
            v.clone().tokenizer(Tokenizer::Function(blank_tokenizer)).fit_files(&files.paths, encoding::all::UTF_8, encoding::DecoderTrap::Strict)
        }
        other => other,
    };
    match fitted {
        Ok(m) => {
            let mut g = Fingerprint::new();
            fp_vocabulary(m.vocabulary(), m.nentries(), &mut g);
            f.extend("fit_files/", g);
        }
        Err(e) => f.err("fit_files", &e),
    }
}

fn build_cv_valid<const K: u8>(p: &P) -> CountVectorizerValidParams {
    cv_params(K, p).check().expect("valid count-vectoriser parameters")
}
fn fp_cv_valid(v: &CountVectorizerValidParams, p: &P, f: &mut Fingerprint) {
    fp_cv_valid_accessors(v, true, f);
    match v.fit(&train_docs(p)) {
        Ok(m) => fp_cv(&m, p, f),
        Err(e) => f.err("fit", &e),
    }
    match v.fit_vocabulary(&GIVEN_VOCABULARY) {
        Ok(m) => {
            let mut g = Fingerprint::new();
            fp_cv(&m, p, &mut g);
            f.extend("given_vocabulary/", g);
        }
        Err(e) => f.err("fit_vocabulary", &e),
    }
}
/// checked parameter set with a function tokenizer: no public way to give the
/// function back to a `CountVectorizerValidParams`; only the fitted result can be
/// repaired, and by then `fit` has already tokenised with the regex
fn fp_cv_valid_fn_unguarded(v: &CountVectorizerValidParams, p: &P, f: &mut Fingerprint) {
    fp_cv_valid_accessors(v, false, f);
    // a checked parameter set has no setter for the function: the legitimate outcomes are
    // TokenizerNotSet or what a freshly built set (which has its function) learns
    let fitted = match v.fit(&train_docs(p)) {
        Err(PreprocessingError::TokenizerNotSet) => build_cv_valid::<10>(p).fit(&train_docs(p)),
        other => other,
    };
    match fitted {
        Ok(m) => {
            let mut c = m.clone();
            c.force_tokenizer_function_redefinition(blank_tokenizer);
            fp_cv(&c, p, f)
        }
        Err(e) => f.err("fit", &e),
    }
}

/// a token pattern with anchors, and documents of several lines: what `^` and `$` match depends
/// on flags that are not part of the pattern text
fn multiline_docs(p: &P, tag: u64) -> Array1<String> {
    let d = docs(p, tag);
    Array1::from(d.iter().enumerate().map(|(i, s)| if i % 2 == 0 { s.replacen(' ', "\n", 2) } else { format!("{s}\nlast line") }).collect::<Vec<_>>())
}
/// a token pattern whose compiled program is large (bounded repetition of a Unicode class):
/// accepted when the vectoriser is built, it must be accepted when the vectoriser is restored
fn build_cv_large_regex(p: &P) -> CountVectorizer {
    CountVectorizer::params().tokenizer(Tokenizer::Regex(r"\b\w{2,60}\b".to_string())).fit(&train_docs(p)).expect("count-vectoriser fit")
}
fn build_cv_anchored(p: &P) -> CountVectorizer {
    CountVectorizer::params().tokenizer(Tokenizer::Regex(r"^\w+|\w\w+$".to_string())).fit(&multiline_docs(p, 51)).expect("count-vectoriser fit")
}
fn fp_cv_anchored(m: &CountVectorizer, p: &P, f: &mut Fingerprint) {
    fp_vocabulary(m.vocabulary(), m.nentries(), f);
    for (tag, d) in [("train", multiline_docs(p, 51)), ("unseen", multiline_docs(p, 52))] {
        match m.transform(&d) {
            Ok(c) => fp_sparse(m.vocabulary(), &c, tag, f),
            Err(e) => f.err(&format!("transform_{tag}"), &e),
        }
    }
}
/// a parameter object that was used for a fit, then given another token pattern and used again,
/// against a parameter object built from scratch with the same final settings
fn cv_params_reused(p: &P) -> Fingerprint {
    let mut f = Fingerprint::new();
    let docs = train_docs(p);
    let first = CountVectorizer::params().n_gram_range(1, 2);
    let run = |params: &CountVectorizerParams| -> u64 {
        let mut g = Fingerprint::new();
        match params.fit(&docs) {
            Ok(m) => fp_cv(&m, p, &mut g),
            Err(e) => g.err("fit", &e),
        }
        g.digest()
    };
    // `fit` takes the parameter object by reference: whatever it memoises stays inside it
    let a = run(&first);
    f.one("first_fit", a);
    // the same object, fitted once already, gets another tokenizer
    let pattern = r"\b[a-z][a-z][a-z]+\b";
    let reused = run(&first.clone().tokenizer(Tokenizer::Regex(pattern.to_string())));
    let again = run(&first);
    let reused_moved = run(&first.tokenizer(Tokenizer::Regex(pattern.to_string())));
    let fresh = run(&CountVectorizer::params().n_gram_range(1, 2).tokenizer(Tokenizer::Regex(pattern.to_string())));
    f.must_agree("vectoriser_fitted_through_a_reused_parameter_object_(clone)_vs_a_fresh_one", reused, fresh);
    f.must_agree("vectoriser_fitted_through_a_reused_parameter_object_vs_a_fresh_one", reused_moved, fresh);
    // and the very same call twice on the same object
    f.must_agree("same_fit_twice_through_one_parameter_object", a, again);
    f
}
fn build_cv<const K: u8>(p: &P) -> CountVectorizer {
    cv_params(K, p).fit(&train_docs(p)).expect("count-vectoriser fit")
}
/// a vectoriser that has already been through one restore and had its tokenizer function
/// given back — the value a long-lived service would checkpoint next
fn build_cv_regenerated(p: &P) -> CountVectorizer {
    let m = build_cv::<10>(p);
    let bytes = bincode::serialize(&m).expect("serialize vectoriser");
    let mut r: CountVectorizer = bincode::deserialize(&bytes).expect("restore vectoriser");
    r.force_tokenizer_function_redefinition(blank_tokenizer);
    r
}
fn build_tfidf_regenerated(p: &P) -> FittedTfIdfVectorizer {
    let m = build_tfidf::<10, 0>(p);
    let bytes = bincode::serialize(&m).expect("serialize tf-idf vectoriser");
    let mut r: FittedTfIdfVectorizer = bincode::deserialize(&bytes).expect("restore tf-idf vectoriser");
    r.force_tokenizer_redefinition(blank_tokenizer);
    r
}
fn build_cv_given<const K: u8>(p: &P) -> CountVectorizer {
    cv_params(K, p).fit_vocabulary(&GIVEN_VOCABULARY).expect("count-vectoriser fit_vocabulary")
}

// ---- tf-idf

fn tfidf_method_of(k: u8) -> TfIdfMethod {
    match k {
        0 => TfIdfMethod::Smooth,
        1 => TfIdfMethod::NonSmooth,
        _ => TfIdfMethod::Textbook,
    }
}
const TFIDF_METHOD_NAMES: [&str; 3] = ["smooth", "nonsmooth", "textbook"];

/// `TfIdfVectorizer` has no setter for its method; the serde form is the only door
fn tfidf_with_method(base: TfIdfVectorizer, method: &TfIdfMethod) -> TfIdfVectorizer {
    if *method == TfIdfMethod::Smooth {
        return base;
    }
    let mut v = serde_json::to_value(&base).expect("tf-idf parameters to json");
    v["method"] = serde_json::to_value(method).expect("method to json");
    let fn_tokenizer = v["count_vectorizer"]["tokenizer_deserialization_guard"].as_bool() == Some(true);
    let out: TfIdfVectorizer = serde_json::from_value(v).expect("tf-idf parameters from json");
    if fn_tokenizer {
        out.tokenizer(Tokenizer::Function(blank_tokenizer))
    } else {
        out
    }
}

/// tf-idf parameter sets by number (same numbering idea as `cv_params`)
fn tfidf_params(k: u8, p: &P) -> TfIdfVectorizer {
    let cap = p.pick(5, 9, 14);
    let b = TfIdfVectorizer::default();
    match k {
        0 => b,
        1 => b.convert_to_lowercase(false).normalize(false),
        2 => b.n_gram_range(1, 2),
        5 => b.stopwords(&STOP),
        6 => b.document_frequency(0.25, 0.45),
        7 => b.max_features(Some(cap)),
        8 => b.n_gram_range(1, 2).document_frequency(0.05, 0.9).stopwords(&STOP).max_features(Some(2 * cap)),
        9 => b.tokenizer(Tokenizer::Regex(r"\b[^ ][^ ]+\b".to_string())),
        10 => b.tokenizer(Tokenizer::Function(blank_tokenizer)),
        13 => b.n_gram_range(3, 2),
        _ => b,
    }
}
fn tfidf_fit(p: &P, k: u8, method: u8) -> Fingerprint {
    let mut f = Fingerprint::new();
    let v = tfidf_with_method(tfidf_params(k, p), &tfidf_method_of(method));
    match v.fit(&train_docs(p)) {
        Ok(m) => fp_tfidf(&m, p, &mut f),
        Err(e) => f.err("fit", &e),
    }
    f
}
fn build_tfidf_params<const K: u8, const M: u8>(p: &P) -> TfIdfVectorizer {
    tfidf_with_method(tfidf_params(K, p), &tfidf_method_of(M))
}
fn fp_tfidf_params(v: &TfIdfVectorizer, p: &P, f: &mut Fingerprint) {
    match v.fit(&train_docs(p)) {
        Ok(m) => fp_tfidf(&m, p, f),
        Err(e) => f.err("fit", &e),
    }
    match v.fit_vocabulary(&GIVEN_VOCABULARY) {
        Ok(m) => {
            let mut g = Fingerprint::new();
            fp_tfidf(&m, p, &mut g);
            f.extend("given_vocabulary/", g);
        }
        Err(e) => f.err("fit_vocabulary", &e),
    }
}
fn fp_tfidf_params_fn_redefined(v: &TfIdfVectorizer, p: &P, f: &mut Fingerprint) {
    let v = v.clone().tokenizer(Tokenizer::Function(blank_tokenizer));
    match v.fit(&train_docs(p)) {
        Ok(m) => fp_tfidf(&m, p, f),
        Err(e) => f.err("fit", &e),
    }
}
fn build_tfidf<const K: u8, const M: u8>(p: &P) -> FittedTfIdfVectorizer {
    build_tfidf_params::<K, M>(p).fit(&train_docs(p)).expect("tf-idf fit")
}
fn build_tfidf_method<const M: u8>(_p: &P) -> TfIdfMethod {
    tfidf_method_of(M)
}
fn fp_tfidf_method(v: &TfIdfMethod, p: &P, f: &mut Fingerprint) {
    f.text("debug", &format!("{v:?}"));
    let mut grid = Vec::new();
    for n in [1usize, 2, 3, 10, 1000] {
        for df in [0usize, 1, 2, 3, 10, 1000] {
            grid.push(v.compute_idf(n, df));
        }
    }
    f.seq("compute_idf_grid", grid);
    let vec = tfidf_with_method(TfIdfVectorizer::default(), v);
    match vec.fit(&train_docs(p)) {
        Ok(m) => fp_tfidf(&m, p, f),
        Err(e) => f.err("fit", &e),
    }
}

// ---------------------------------------------------------------------------------------------
// t-SNE (never compared: shape only)
// ---------------------------------------------------------------------------------------------

fn tsne(p: &P) -> Fingerprint {
    let mut f = Fingerprint::new();
    let n = p.pick(30, 60, 120);
    let x = data::blobs(&mut p.rng(601), n, 4, 3, 0.8).0;
    let out = TSneParams::embedding_size(2).perplexity(5.0).approx_threshold(0.5).max_iter(40).preliminary_iter(10).transform(x);
    match out {
        Ok(e) => f.seq("shape", e.shape().iter().map(|&v| v as u64)),
        Err(e) => f.err("transform", &e),
    }
    f
}

// ---------------------------------------------------------------------------------------------
// registration
// ---------------------------------------------------------------------------------------------

pub fn register(r: &mut Registry) {
    let claim = Some((Kind::Claim, false));

    // ---------------- PCA: embedding sizes 0 (error) .. p .. p+1 (error), whitening on/off
    for k in 0..=PCA_D + 1 {
        for w in [false, true] {
            r.scenario(&format!("pca_k{k}_{}", if w { "whiten" } else { "plain" }), RED, Kind::Claim, false, move |p| pca_fit(p, k, w));
        }
    }
    // rank-deficient data (a constant and a duplicated column): fewer components than asked for
    r.scenario("pca_rank_deficient", RED, Kind::Claim, false, |p| {
        let mut x = pca_train(p);
        for i in 0..x.nrows() {
            x[[i, 3]] = 1.25;
            x[[i, 4]] = x[[i, 0]];
        }
        let mut f = Fingerprint::new();
        match Pca::params(4).fit(&DatasetBase::from(x.clone())) {
            Ok(m) => {
                f.arr("components", m.components());
                f.arr("singular_values", m.singular_values());
                f.arr("explained_variance_ratio", &m.explained_variance_ratio());
                f.arr("mean", m.mean());
                if m.components().ncols() == x.ncols() {
                    let t: Array2<f64> = m.predict(&x);
                    f.arr("predict_train", &t);
                }
            }
            Err(e) => f.err("fit", &e),
        }
        f
    });
    // views and datasets with targets go through the same code
    r.scenario("pca_view_with_targets", RED, Kind::Claim, false, |p| {
        let x = pca_train(p);
        let y = Array1::from_shape_fn(x.nrows(), |i| i % 3);
        let ds = DatasetBase::new(x.view(), y);
        let mut f = Fingerprint::new();
        match Pca::params(2).whiten(true).fit(&ds) {
            Ok(m) => fp_pca(&m, p, &mut f),
            Err(e) => f.err("fit", &e),
        }
        f
    });
    r.model::<Pca<f64>>("pca_model_k3", RED, &["Pca"], claim, build_pca::<3, false>, fp_pca, Some(|a, b| a == b));
    r.model::<Pca<f64>>("pca_model_k5_whiten", RED, &["Pca"], claim, build_pca::<5, true>, fp_pca, Some(|a, b| a == b));
    r.model::<PcaParams>("pca_params_k2_whiten", RED, &["PcaParams"], claim, build_pca_params::<2, true>, fp_pca_params, Some(|a, b| a == b));
    r.model::<PcaParams>("pca_params_k5", RED, &["PcaParams"], None, build_pca_params::<5, false>, fp_pca_params, Some(|a, b| a == b));
    r.model::<PcaParams>("pca_params_invalid_k0", RED, &["PcaParams"], None, build_pca_params::<0, false>, fp_pca_params, Some(|a, b| a == b));
    r.model::<PcaParams>("pca_params_invalid_k6", RED, &["PcaParams"], None, build_pca_params::<6, true>, fp_pca_params, Some(|a, b| a == b));

    // ---------------- diffusion map
    r.scenario("dmap_dense_e2_s1", RED, Kind::Claim, false, |p| dmap::<f64>(p, None, 1, 2, false));
    r.scenario("dmap_dense_e3_s4", RED, Kind::Claim, false, |p| dmap::<f64>(p, None, 4, 3, false));
    r.scenario("dmap_dense_e1_s2", RED, Kind::Claim, false, |p| dmap::<f64>(p, None, 2, 1, false));
    r.scenario("dmap_sparse_e2_s1", RED, Kind::Claim, false, |p| dmap::<f64>(p, Some(8), 1, 2, false));
    r.scenario("dmap_sparse_e2_s3", RED, Kind::Claim, false, |p| dmap::<f64>(p, Some(15), 3, 2, false));
    r.scenario("dmap_dense_fulleig_e2_s2", RED, Kind::Claim, false, |p| dmap::<f64>(p, None, 2, 2, true));
    r.scenario("dmap_dense_e2_s1_f32", RED, Kind::Claim, false, |p| dmap::<f32>(p, None, 1, 2, true));
    r.scenario("dmap_sparse_e2_s1_f32", RED, Kind::Claim, false, |p| dmap::<f32>(p, Some(8), 1, 2, true));
    r.scenario("dmap_invalid_steps0", RED, Kind::Claim, false, |p| dmap::<f64>(p, None, 0, 2, false));
    r.scenario("dmap_invalid_e0", RED, Kind::Claim, false, |p| dmap::<f64>(p, None, 1, 0, false));

    // ---------------- random projections
    type RpFn = fn(&P, RpForm, RpRng) -> Fingerprint;
    let methods: [(&str, RpFn, RpFn); 2] = [("gauss", rp_gauss_f64, rp_gauss_f32), ("sparse", rp_sparse_f64, rp_sparse_f32)];
    for (mname, f64fn, f32fn) in methods {
        for (rname, rng) in [("default", RpRng::Default), ("xoshiro", RpRng::Xoshiro), ("smallrng", RpRng::Small)] {
            r.scenario(&format!("rproj_{mname}_{rname}_dim3"), RED, Kind::Claim, false, move |p| f64fn(p, RpForm::Dim(3), rng));
            r.scenario(&format!("rproj_{mname}_{rname}_eps"), RED, Kind::Claim, false, move |p| f64fn(p, RpForm::Eps(0.9), rng));
        }
        r.scenario(&format!("rproj_{mname}_default_dim6_full"), RED, Kind::Claim, false, move |p| f64fn(p, RpForm::Dim(6), RpRng::Default));
        r.scenario(&format!("rproj_{mname}_default_dim3_f32"), RED, Kind::Claim, false, move |p| f32fn(p, RpForm::Dim(3), RpRng::Default));
        r.scenario(&format!("rproj_{mname}_xoshiro_eps_f32"), RED, Kind::Claim, false, move |p| f32fn(p, RpForm::Eps(0.95), RpRng::Xoshiro));
        // documented errors
        r.scenario(&format!("rproj_{mname}_default_eps_too_many_dims"), RED, Kind::Claim, false, move |p| f64fn(p, RpForm::DefaultEps, RpRng::Default));
        r.scenario(&format!("rproj_{mname}_dim_increase"), RED, Kind::Claim, false, move |p| f64fn(p, RpForm::Dim(7), RpRng::Xoshiro));
        r.scenario(&format!("rproj_{mname}_invalid_dim0"), RED, Kind::Claim, false, move |p| f64fn(p, RpForm::Dim(0), RpRng::Default));
        r.scenario(&format!("rproj_{mname}_invalid_eps0"), RED, Kind::Claim, false, move |p| f64fn(p, RpForm::Eps(0.0), RpRng::Default));
        r.scenario(&format!("rproj_{mname}_invalid_eps1"), RED, Kind::Claim, false, move |p| f64fn(p, RpForm::Eps(1.0), RpRng::Default));
    }

    // ---------------- FastICA
    for (g, gname) in [(0u8, "logcosh1"), (1, "logcosh2"), (2, "exp"), (3, "cube"), (4, "logcosh_invalid_alpha")] {
        r.scenario(&format!("ica_{gname}_seeded"), ICA, Kind::Claim, false, move |p| ica_fit::<f64>(p, g, Some((p.seed % 1000) as usize), None));
    }
    r.scenario("ica_logcosh1_seeded_f32", ICA, Kind::Claim, false, |p| ica_fit::<f32>(p, 0, Some((p.seed % 1000) as usize), None));
    r.scenario("ica_exp_seeded_f32", ICA, Kind::Claim, false, |p| ica_fit::<f32>(p, 2, Some((p.seed % 1000) as usize), None));
    r.scenario("ica_cube_seeded_f32", ICA, Kind::Claim, false, |p| ica_fit::<f32>(p, 3, Some((p.seed % 1000) as usize), None));
    r.scenario("ica_exp_seeded_2components", ICA, Kind::Claim, false, |p| ica_fit::<f64>(p, 2, Some(7), Some(2)));
    r.scenario("ica_cube_seeded_1component", ICA, Kind::Claim, false, |p| ica_fit::<f64>(p, 3, Some(0), Some(1)));
    r.scenario("ica_too_many_components", ICA, Kind::Claim, false, |p| ica_fit::<f64>(p, 0, Some(1), Some(ICA_D + 1)));
    r.scenario("ica_empty_dataset", ICA, Kind::Claim, false, |_p| {
        let mut f = Fingerprint::new();
        match ica_valid::<f64>(0, Some(1), None).fit(&DatasetBase::from(Array2::<f64>::zeros((0, ICA_D)))) {
            Ok(_) => f.one("fit_ok", true),
            Err(e) => f.err("fit", &e),
        }
        f
    });
    r.scenario("ica_invalid_tolerance", ICA, Kind::Claim, false, |_p| {
        let mut f = Fingerprint::new();
        match FastIca::<f64>::params().tol(-1.0).check() {
            Ok(_) => f.one("check_ok", true),
            Err(e) => f.err("check", &e),
        }
        f
    });
    // the documented exclusion: no random_state -> thread_rng -> depends on OS entropy
    r.scenario("ica_unseeded_control", ICA, Kind::ControlEntropy, false, |p| ica_fit::<f64>(p, 0, None, None));
    r.model::<FastIca<f64>>("ica_model_logcosh", ICA, &["FastIca"], claim, build_ica::<f64, 0>, fp_ica::<f64>, Some(|a, b| a == b));
    r.model::<FastIca<f64>>("ica_model_exp", ICA, &["FastIca"], None, build_ica::<f64, 2>, fp_ica::<f64>, Some(|a, b| a == b));
    r.model::<FastIca<f32>>("ica_model_cube_f32", ICA, &["FastIca"], claim, build_ica::<f32, 3>, fp_ica::<f32>, Some(|a, b| a == b));
    r.model::<FastIcaValidParams<f64>>("ica_valid_params_logcosh", ICA, &["FastIcaValidParams", "GFunc"], claim, build_ica_params::<f64, 0>, fp_ica_params::<f64>, Some(|a, b| a == b));
    r.model::<FastIcaValidParams<f64>>("ica_valid_params_seed0", ICA, &["FastIcaValidParams", "GFunc"], claim, build_ica_params_seed0::<f64>, fp_ica_params::<f64>, Some(|a, b| a == b));
    r.model::<FastIcaValidParams<f64>>("ica_valid_params_seed_max", ICA, &["FastIcaValidParams", "GFunc"], claim, build_ica_params_seed_max::<f64>, fp_ica_params::<f64>, Some(|a, b| a == b));
    r.model::<FastIcaValidParams<f64>>("ica_valid_params_logcosh_bound", ICA, &["FastIcaValidParams", "GFunc"], None, build_ica_params::<f64, 1>, fp_ica_params::<f64>, Some(|a, b| a == b));
    r.model::<FastIcaValidParams<f64>>("ica_valid_params_exp", ICA, &["FastIcaValidParams", "GFunc"], None, build_ica_params::<f64, 2>, fp_ica_params::<f64>, Some(|a, b| a == b));
    r.model::<FastIcaValidParams<f32>>("ica_valid_params_cube_f32", ICA, &["FastIcaValidParams", "GFunc"], None, build_ica_params::<f32, 3>, fp_ica_params::<f32>, Some(|a, b| a == b));
    r.model::<FastIcaValidParams<f64>>("ica_valid_params_invalid_alpha", ICA, &["FastIcaValidParams", "GFunc"], None, build_ica_params::<f64, 4>, fp_ica_params::<f64>, Some(|a, b| a == b));
    r.model::<GFunc>("ica_gfunc_logcosh", ICA, &["GFunc"], None, build_gfunc::<1>, fp_gfunc, Some(|a, b| a == b));
    r.model::<GFunc>("ica_gfunc_exp", ICA, &["GFunc"], None, build_gfunc::<2>, fp_gfunc, Some(|a, b| a == b));
    r.model::<GFunc>("ica_gfunc_cube", ICA, &["GFunc"], None, build_gfunc::<3>, fp_gfunc, Some(|a, b| a == b));
    r.model::<GFunc>("ica_gfunc_invalid_alpha", ICA, &["GFunc"], None, build_gfunc::<4>, fp_gfunc, Some(|a, b| a == b));

    // ---------------- linear scalers
    for m in 0..9u8 {
        r.scenario(&format!("scaler_{}", SCALER_NAMES[m as usize]), PRE, Kind::Claim, false, move |p| scaler_fit::<f64>(p, m));
    }
    for m in [0u8, 5, 6] {
        r.scenario(&format!("scaler_{}_f32", SCALER_NAMES[m as usize]), PRE, Kind::Claim, false, move |p| scaler_fit::<f32>(p, m));
    }
    r.scenario("scaler_empty_dataset", PRE, Kind::Claim, false, |_p| {
        let mut f = Fingerprint::new();
        for m in [0u8, 4, 6] {
            match scaling_params::<f64>(m).fit(&DatasetBase::from(Array2::<f64>::zeros((0, 3)))) {
                Ok(_) => f.one(&format!("fit{m}_ok"), true),
                Err(e) => f.err(&format!("fit{m}"), &e),
            }
        }
        f
    });
    const LS: &[&str] = &["LinearScaler", "ScalingMethod"];
    const LSP: &[&str] = &["LinearScalerParams", "ScalingMethod"];
    r.model::<LinearScaler<f64>>("scaler_model_std", PRE, LS, None, build_scaler::<f64, 0>, fp_scaler::<f64>, Some(|a, b| a == b));
    r.model::<LinearScaler<f64>>("scaler_model_std_nomean", PRE, LS, None, build_scaler::<f64, 1>, fp_scaler::<f64>, Some(|a, b| a == b));
    r.model::<LinearScaler<f64>>("scaler_model_minmax_range", PRE, LS, None, build_scaler::<f64, 5>, fp_scaler::<f64>, Some(|a, b| a == b));
    r.model::<LinearScaler<f64>>("scaler_model_maxabs", PRE, LS, None, build_scaler::<f64, 6>, fp_scaler::<f64>, Some(|a, b| a == b));
    r.model::<LinearScaler<f32>>("scaler_model_minmax_range_f32", PRE, LS, None, build_scaler::<f32, 5>, fp_scaler::<f32>, Some(|a, b| a == b));
    r.model::<LinearScalerParams<f64>>("scaler_params_std", PRE, LSP, None, build_scaler_params::<f64, 0>, fp_scaler_params::<f64>, Some(|a, b| a == b));
    r.model::<LinearScalerParams<f64>>("scaler_params_std_none", PRE, LSP, None, build_scaler_params::<f64, 3>, fp_scaler_params::<f64>, Some(|a, b| a == b));
    r.model::<LinearScalerParams<f64>>("scaler_params_minmax_range", PRE, LSP, None, build_scaler_params::<f64, 5>, fp_scaler_params::<f64>, Some(|a, b| a == b));
    r.model::<LinearScalerParams<f64>>("scaler_params_maxabs", PRE, LSP, None, build_scaler_params::<f64, 6>, fp_scaler_params::<f64>, Some(|a, b| a == b));
    r.model::<LinearScalerParams<f64>>("scaler_params_invalid_flipped", PRE, LSP, None, build_scaler_params::<f64, 7>, fp_scaler_params::<f64>, Some(|a, b| a == b));
    r.model::<LinearScalerParams<f32>>("scaler_params_minmax_range_f32", PRE, LSP, None, build_scaler_params::<f32, 5>, fp_scaler_params::<f32>, Some(|a, b| a == b));
    r.model::<ScalingMethod<f64>>("scaler_method_std_nostd", PRE, &["ScalingMethod"], None, build_scaling_method::<f64, 2>, fp_scaling_method::<f64>, Some(|a, b| a == b));
    r.model::<ScalingMethod<f64>>("scaler_method_minmax", PRE, &["ScalingMethod"], None, build_scaling_method::<f64, 5>, fp_scaling_method::<f64>, Some(|a, b| a == b));
    r.model::<ScalingMethod<f64>>("scaler_method_maxabs", PRE, &["ScalingMethod"], None, build_scaling_method::<f64, 6>, fp_scaling_method::<f64>, Some(|a, b| a == b));
    r.model::<ScalingMethod<f32>>("scaler_method_minmax_flipped_f32", PRE, &["ScalingMethod"], None, build_scaling_method::<f32, 7>, fp_scaling_method::<f32>, Some(|a, b| a == b));

    // ---------------- norm scaler (the scaler itself is the serialisable value)
    r.model::<NormScaler>("scaler_norm_l1", PRE, &["NormScaler", "Norms"], claim, build_norm::<0>, fp_norm, Some(|a, b| a == b));
    r.model::<NormScaler>("scaler_norm_l2", PRE, &["NormScaler", "Norms"], claim, build_norm::<1>, fp_norm, Some(|a, b| a == b));
    r.model::<NormScaler>("scaler_norm_max", PRE, &["NormScaler", "Norms"], claim, build_norm::<2>, fp_norm, Some(|a, b| a == b));

    // ---------------- whitening
    for k in 0..3u8 {
        let n = WH_NAMES[k as usize];
        r.scenario(&format!("whiten_{n}"), PRE, Kind::Claim, false, move |p| whiten_fit::<f64>(p, k, false));
        r.scenario(&format!("whiten_{n}_f32"), PRE, Kind::Claim, false, move |p| whiten_fit::<f32>(p, k, false));
        r.scenario(&format!("whiten_{n}_singular"), PRE, Kind::Claim, false, move |p| whiten_fit::<f64>(p, k, true));
    }
    const FW: &[&str] = &["FittedWhitener"];
    r.model::<FittedWhitener<f64>>("whiten_model_pca", PRE, FW, None, build_whitener::<f64, 0>, fp_whitener::<f64>, Some(|a, b| a == b));
    r.model::<FittedWhitener<f64>>("whiten_model_zca", PRE, FW, None, build_whitener::<f64, 1>, fp_whitener::<f64>, Some(|a, b| a == b));
    r.model::<FittedWhitener<f64>>("whiten_model_cholesky", PRE, FW, None, build_whitener::<f64, 2>, fp_whitener::<f64>, Some(|a, b| a == b));
    r.model::<FittedWhitener<f64>>("whiten_model_pca_wide", PRE, FW, None, build_whitener_wide::<0>, fp_whitener_wide, Some(|a, b| a == b));
    r.model::<FittedWhitener<f64>>("whiten_model_zca_wide", PRE, FW, None, build_whitener_wide::<1>, fp_whitener_wide, Some(|a, b| a == b));
    r.model::<FittedWhitener<f64>>("whiten_model_cholesky_wide", PRE, FW, None, build_whitener_wide::<2>, fp_whitener_wide, Some(|a, b| a == b));
    r.model::<FittedWhitener<f32>>("whiten_model_zca_f32", PRE, FW, None, build_whitener::<f32, 1>, fp_whitener::<f32>, Some(|a, b| a == b));
    const WP: &[&str] = &["Whitener", "WhiteningMethod"];
    r.model::<Whitener>("whiten_params_pca", PRE, WP, None, build_whitener_params::<0>, fp_whitener_params, Some(|a, b| a == b));
    r.model::<Whitener>("whiten_params_zca", PRE, WP, None, build_whitener_params::<1>, fp_whitener_params, Some(|a, b| a == b));
    r.model::<Whitener>("whiten_params_cholesky", PRE, WP, None, build_whitener_params::<2>, fp_whitener_params, Some(|a, b| a == b));
    r.model::<WhiteningMethod>("whiten_method_pca", PRE, &["WhiteningMethod"], None, build_whitening_method::<0>, fp_whitening_method, Some(|a, b| a == b));
    r.model::<WhiteningMethod>("whiten_method_zca", PRE, &["WhiteningMethod"], None, build_whitening_method::<1>, fp_whitening_method, Some(|a, b| a == b));
    r.model::<WhiteningMethod>("whiten_method_cholesky", PRE, &["WhiteningMethod"], None, build_whitening_method::<2>, fp_whitening_method, Some(|a, b| a == b));

    // ---------------- count vectoriser
    for k in 0..19u8 {
        r.scenario(&format!("cv_{}", CV_NAMES[k as usize]), PRE, Kind::Claim, false, move |p| cv_fit(p, k));
    }
    for k in [0u8, 1, 2, 10] {
        r.scenario(&format!("cv_given_vocabulary_{}", CV_NAMES[k as usize]), PRE, Kind::Claim, false, move |p| cv_fit_vocabulary(p, k));
    }
    const CVP: &[&str] = &["CountVectorizerParams", "CountVectorizerValidParams", "SerdeRegex"];
    const CVM: &[&str] = &["CountVectorizer", "CountVectorizerValidParams", "SerdeRegex"];
    r.model::<CountVectorizerParams>("cv_params_default", PRE, CVP, None, build_cv_params::<0>, fp_cv_params, None);
    r.model::<CountVectorizerParams>("cv_params_raw_case", PRE, CVP, None, build_cv_params::<1>, fp_cv_params, None);
    r.model::<CountVectorizerParams>("cv_params_combined", PRE, CVP, None, build_cv_params::<8>, fp_cv_params, None);
    r.model::<CountVectorizerParams>("cv_params_regex_tokenizer", PRE, CVP, None, build_cv_params::<9>, fp_cv_params, None);
    r.model::<CountVectorizerParams>("cv_params_invalid_ngram_zero", PRE, CVP, None, build_cv_params::<12>, fp_cv_params, None);
    r.model::<CountVectorizerParams>("cv_params_invalid_df_flipped", PRE, CVP, None, build_cv_params::<15>, fp_cv_params, None);
    r.model::<CountVectorizerParams>("cv_params_invalid_regex", PRE, CVP, None, build_cv_params::<16>, fp_cv_params, None);
    r.model::<CountVectorizerParams>("cv_params_fn_tokenizer_redefined", PRE, CVP, None, build_cv_params::<11>, fp_cv_params_fn_redefined, None);
    r.model::<CountVectorizerValidParams>("cv_valid_params_default", PRE, &CVP[1..], None, build_cv_valid::<0>, fp_cv_valid, None);
    r.model::<CountVectorizerValidParams>("cv_valid_params_combined", PRE, &CVP[1..], None, build_cv_valid::<8>, fp_cv_valid, None);
    r.model::<CountVectorizerValidParams>("cv_valid_params_regex_tokenizer", PRE, &CVP[1..], None, build_cv_valid::<9>, fp_cv_valid, None);
    r.model::<CountVectorizer>("cv_model_default", PRE, CVM, None, build_cv::<0>, fp_cv, None);
    r.model::<CountVectorizer>("cv_model_raw_case", PRE, CVM, None, build_cv::<1>, fp_cv, None);
    r.model::<CountVectorizer>("cv_model_combined", PRE, CVM, None, build_cv::<8>, fp_cv, None);
    r.model::<CountVectorizer>("cv_model_regex_tokenizer", PRE, CVM, None, build_cv::<9>, fp_cv, None);
    r.model::<CountVectorizer>("cv_model_regex_anchored_multiline", PRE, CVM, None, build_cv_anchored, fp_cv_anchored, None);
    r.model::<CountVectorizer>("cv_model_regex_large_program", PRE, CVM, None, build_cv_large_regex, fp_cv, None);
    r.scenario("cv_params_reused", PRE, Kind::Claim, false, cv_params_reused);
    r.model::<CountVectorizer>("cv_model_given_vocabulary", PRE, CVM, None, build_cv_given::<2>, fp_cv, None);
    r.model::<CountVectorizer>("cv_model_fn_tokenizer", PRE, CVM, None, build_cv::<10>, fp_cv_fn_tokenizer, None);
    r.model::<CountVectorizer>("cv_model_fn_tokenizer_ngram_cap", PRE, CVM, None, build_cv::<11>, fp_cv_fn_tokenizer, None);
    r.model::<CountVectorizer>("cv_model_fn_tokenizer_regenerated", PRE, CVM, None, build_cv_regenerated, fp_cv_fn_tokenizer, None);

    // ---------------- tf-idf
    for m in 0..3u8 {
        let mn = TFIDF_METHOD_NAMES[m as usize];
        r.scenario(&format!("tfidf_{mn}_default"), PRE, Kind::Claim, false, move |p| tfidf_fit(p, 0, m));
        r.scenario(&format!("tfidf_{mn}_combined"), PRE, Kind::Claim, false, move |p| tfidf_fit(p, 8, m));
        r.scenario(&format!("tfidf_{mn}_maxfeat"), PRE, Kind::Claim, false, move |p| tfidf_fit(p, 7, m));
    }
    r.scenario("tfidf_smooth_raw_case", PRE, Kind::Claim, false, |p| tfidf_fit(p, 1, 0));
    r.scenario("tfidf_smooth_ngram12", PRE, Kind::Claim, false, |p| tfidf_fit(p, 2, 0));
    r.scenario("tfidf_smooth_stopwords", PRE, Kind::Claim, false, |p| tfidf_fit(p, 5, 0));
    r.scenario("tfidf_smooth_docfreq", PRE, Kind::Claim, false, |p| tfidf_fit(p, 6, 0));
    r.scenario("tfidf_smooth_regex_tokenizer", PRE, Kind::Claim, false, |p| tfidf_fit(p, 9, 0));
    r.scenario("tfidf_textbook_fn_tokenizer", PRE, Kind::Claim, false, |p| tfidf_fit(p, 10, 2));
    r.scenario("tfidf_smooth_invalid_ngram_flipped", PRE, Kind::Claim, false, |p| tfidf_fit(p, 13, 0));
    r.scenario("tfidf_smooth_given_vocabulary", PRE, Kind::Claim, false, |p| {
        let mut f = Fingerprint::new();
        match TfIdfVectorizer::default().fit_vocabulary(&GIVEN_VOCABULARY) {
            Ok(m) => fp_tfidf(&m, p, &mut f),
            Err(e) => f.err("fit_vocabulary", &e),
        }
        f
    });
    const TP: &[&str] = &["TfIdfVectorizer", "TfIdfMethod", "CountVectorizerParams", "CountVectorizerValidParams"];
    const TM: &[&str] = &["FittedTfIdfVectorizer", "TfIdfMethod", "CountVectorizer", "CountVectorizerValidParams", "SerdeRegex"];
    r.model::<TfIdfVectorizer>("tfidf_params_default", PRE, TP, None, build_tfidf_params::<0, 0>, fp_tfidf_params, None);
    r.model::<TfIdfVectorizer>("tfidf_params_combined_nonsmooth", PRE, TP, None, build_tfidf_params::<8, 1>, fp_tfidf_params, None);
    r.model::<TfIdfVectorizer>("tfidf_params_regex_textbook", PRE, TP, None, build_tfidf_params::<9, 2>, fp_tfidf_params, None);
    r.model::<TfIdfVectorizer>("tfidf_params_invalid_ngram_flipped", PRE, TP, None, build_tfidf_params::<13, 0>, fp_tfidf_params, None);
    r.model::<TfIdfVectorizer>("tfidf_params_fn_tokenizer_redefined", PRE, TP, None, build_tfidf_params::<10, 1>, fp_tfidf_params_fn_redefined, None);
    r.model::<FittedTfIdfVectorizer>("tfidf_model_default", PRE, TM, None, build_tfidf::<0, 0>, fp_tfidf, None);
    r.model::<FittedTfIdfVectorizer>("tfidf_model_combined_nonsmooth", PRE, TM, None, build_tfidf::<8, 1>, fp_tfidf, None);
    r.model::<FittedTfIdfVectorizer>("tfidf_model_maxfeat_textbook", PRE, TM, None, build_tfidf::<7, 2>, fp_tfidf, None);
    r.model::<FittedTfIdfVectorizer>("tfidf_model_fn_tokenizer", PRE, TM, None, build_tfidf::<10, 0>, fp_tfidf_fn_tokenizer, None);
    r.model::<FittedTfIdfVectorizer>("tfidf_model_fn_tokenizer_regenerated", PRE, TM, None, build_tfidf_regenerated, fp_tfidf_fn_tokenizer, None);
    r.model::<TfIdfMethod>("tfidf_method_smooth", PRE, &["TfIdfMethod"], None, build_tfidf_method::<0>, fp_tfidf_method, Some(|a, b| a == b));
    r.model::<TfIdfMethod>("tfidf_method_nonsmooth", PRE, &["TfIdfMethod"], None, build_tfidf_method::<1>, fp_tfidf_method, Some(|a, b| a == b));
    r.model::<TfIdfMethod>("tfidf_method_textbook", PRE, &["TfIdfMethod"], None, build_tfidf_method::<2>, fp_tfidf_method, Some(|a, b| a == b));

    // ---------------- persistence probes that are EXPECTED to report a difference (findings):
    // a restored parameter set with a function tokenizer is accepted by `fit`, which then
    // silently tokenises with the default regex (no TokenizerNotSet at fit time).
    r.model::<CountVectorizerParams>("cv_params_fn_tokenizer_fit_unguarded", PRE, CVP, None, build_cv_params::<10>, fp_cv_params_fn_unguarded, None);
    r.model::<CountVectorizerValidParams>("cv_valid_params_fn_tokenizer_fit_unguarded", PRE, &CVP[1..], None, build_cv_valid::<10>, fp_cv_valid_fn_unguarded, None);

    // ---------------- t-SNE
    r.scenario("tsne_nocompare", TSNE, Kind::NoCompare, false, tsne);
}
