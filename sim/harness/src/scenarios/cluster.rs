//! Clustering beyond k-means (Gaussian mixtures, DBSCAN, OPTICS, "approximate" DBSCAN),
//! agglomerative clustering, the neighbour indices and the kernel matrices.
//!
//! Scenario-name prefixes: `gmm_`, `dbscan_`, `optics_`, `appx_`, `hier_`, `nn_`, `kernel_`.
//!
//! UNREACHABLE:
//! - linfa-clustering `appx_dbscan::*` — `CellsGrid`, `Cell`, `CoreCellInfo`, `StatusPoint`,
//!   `TreeStructure`, `IntersectionType` and the module's own `AppxDbscanValidParams` /
//!   `AppxDbscanParams` / `AppxDbscanLabeler`: the directory `src/appx_dbscan/` is not declared
//!   as a module in `linfa-clustering/src/lib.rs` (no `mod appx_dbscan;`), so none of it is
//!   compiled.  The public names `AppxDbscan`, `AppxDbscanParams`, `AppxDbscanValidParams`,
//!   `AppxDbscanParamsError` are type aliases for the exact-DBSCAN types with `L2Dist`
//!   (lib.rs:35-42); the `appx_*` scenarios below go through those aliases.
//! - linfa-kernel `KernelBase` (`Kernel<F>`, `KernelView<F>`): derives serde, but with the bound
//!   `KernelInner<K1, K2>: Serialize / Deserialize` (lib.rs:56-62) and `KernelInner`
//!   (inner.rs:24) implements neither, so no instantiation of `KernelBase` is serialisable
//!   (`Kernel<f64>: Serialize` is a compile error).  Covered by C20 scenarios only.
//! - linfa-kernel `KernelType`, `KernelParams`: do not derive serde (lib.rs:37, 296).
//! - linfa-clustering `DbscanParams` (unchecked builder): does not derive serde
//!   (dbscan/hyperparams.rs:22-24); only `DbscanValidParams` does, and its fields are
//!   `pub(crate)`, so an *invalid* serialisable DBSCAN parameter set cannot be built.
//! - linfa-hierarchical: no serde feature at all (`HierarchicalCluster`,
//!   `ValidHierarchicalCluster`, `Criterion` are C20-only).
//! - linfa-nn index types (`LinearSearchIndex`, `KdTreeIndex`, `BallTreeIndex`) borrow the
//!   batch and do not derive serde; only the selectors and metrics do.

use crate::data;
use crate::fp::{Bits, Fingerprint};
use crate::prng::Prng;
use crate::scen::{Kind, Registry, P};
use linfa::prelude::*;
use linfa::{DatasetBase, Float};
use linfa_clustering::{
    AppxDbscan, AppxDbscanValidParams, Dbscan, DbscanValidParams, GaussianMixtureModel, GmmCovarType, GmmInitMethod, GmmParams, GmmValidParams, Optics,
    OpticsAnalysis, OpticsParams, OpticsValidParams,
};
use linfa_hierarchical::{HierarchicalCluster, Method};
use linfa_kernel::{Inner, Kernel, KernelBase, KernelInner, KernelMethod, KernelType};
use linfa_nn::distance::{Distance, L1Dist, L2Dist, LInfDist, LpDist};
use linfa_nn::{BallTree, CommonNearestNeighbour, KdTree, LinearSearch, NearestNeighbour};
use ndarray::{Array1, Array2, ArrayView1, Axis};
use rand::rngs::SmallRng;
use rand::RngCore;
use rand_xoshiro::rand_core::SeedableRng;
use rand_xoshiro::Xoshiro256Plus;
use std::cmp::Ordering;

const CL: &str = "linfa-clustering";
const HI: &str = "linfa-hierarchical";
const NN: &str = "linfa-nn";
const KE: &str = "linfa-kernel";

// ---------------------------------------------------------------------------------------------
// data
// ---------------------------------------------------------------------------------------------

/// Points on the integer lattice `{0..g}^d` (so that many pairwise distances are exactly equal),
/// a share of half-step points (equidistant from 2^d lattice points) and exact duplicates.
fn lattice(r: &mut Prng, n: usize, d: usize, g: u64) -> Array2<f64> {
    let mut x = Array2::<f64>::zeros((n, d));
    for i in 0..n {
        match i % 6 {
            5 if i >= 5 => {
                let src = i - 1 - r.below(4) as usize;
                for j in 0..d {
                    x[[i, j]] = x[[src, j]];
                }
            }
            4 => {
                for j in 0..d {
                    x[[i, j]] = r.below(g.max(2) - 1) as f64 + 0.5;
                }
            }
            _ => {
                for j in 0..d {
                    x[[i, j]] = r.below(g) as f64;
                }
            }
        }
    }
    x
}

/// Three lattice patches `[0,3] [6,9] [12,15]` along the first axis (extent `h` along the other
/// axes, chosen so that there is about one point per lattice cell: a mix of core, border and
/// noise points), a few bridge points exactly in the middle of the gaps (equidistant from the edge
/// cells of both neighbouring patches: border-point ties), isolated far points and exact
/// duplicates.
fn patches(r: &mut Prng, n: usize, d: usize) -> Array2<f64> {
    let h = (n as f64 / 12.0).powf(1.0 / (d.max(2) - 1) as f64).ceil().max(4.0) as u64;
    let mut x = Array2::<f64>::zeros((n, d));
    for i in 0..n {
        match i % 13 {
            12 => {
                for j in 0..d {
                    x[[i, j]] = 60.0 + 9.0 * i as f64 + j as f64;
                }
            }
            11 if i >= 11 => {
                let src = i - 1 - r.below(8) as usize;
                for j in 0..d {
                    x[[i, j]] = x[[src, j]];
                }
            }
            10 if i % 3 == 0 => {
                x[[i, 0]] = 4.5 + 6.0 * r.below(2) as f64;
                for j in 1..d {
                    x[[i, j]] = r.below(h) as f64;
                }
            }
            _ => {
                let c = r.below(3) as f64;
                x[[i, 0]] = 6.0 * c + r.below(4) as f64;
                for j in 1..d {
                    x[[i, j]] = r.below(h) as f64;
                }
            }
        }
    }
    x
}

/// queries for neighbour searches: stored points (distance 0 ties with their duplicates),
/// half-step points (equidistant from several lattice points), a cell centre and one far point
fn nn_queries(r: &mut Prng, x: &Array2<f64>, m: usize, g: u64) -> Array2<f64> {
    let (n, d) = x.dim();
    let mut q = Array2::<f64>::zeros((m, d));
    for i in 0..m {
        for j in 0..d {
            q[[i, j]] = match i % 4 {
                0 => x[[(i * 37) % n, j]],
                1 => r.below(g.max(2) - 1) as f64 + 0.5,
                2 => {
                    if j == 0 {
                        r.below(g) as f64 + 0.5
                    } else {
                        r.below(g) as f64
                    }
                }
                _ => -3.0 - i as f64,
            };
        }
    }
    q
}

fn canonical_partition(ids: &[usize]) -> Vec<usize> {
    // relabel clusters by first occurrence
    let mut seen: Vec<usize> = Vec::new();
    ids.iter()
        .map(|id| match seen.iter().position(|s| s == id) {
            Some(k) => k,
            None => {
                seen.push(*id);
                seen.len() - 1
            }
        })
        .collect()
}

// ---------------------------------------------------------------------------------------------
// Gaussian mixture
// ---------------------------------------------------------------------------------------------

fn gmm_dims(p: &P) -> (usize, usize, usize) {
    p.pick((40, 2, 2), (300, 2, 3), (1200, 3, 4))
}
fn gmm_train(p: &P) -> Array2<f64> {
    let (n, d, k) = gmm_dims(p);
    data::blobs(&mut p.rng(11), n, d, k, 0.7).0
}
fn gmm_query(p: &P, x: &Array2<f64>) -> Array2<f64> {
    data::queries(&mut p.rng(12), x, p.pick(9, 60, 300))
}

fn fp_gmm<F: Float + Bits>(m: &GaussianMixtureModel<F>, x: &Array2<F>, q: &Array2<F>, f: &mut Fingerprint) {
    f.arr("weights", m.weights());
    f.arr("means", m.means());
    f.arr("centroids", m.centroids());
    f.arr("covariances", m.covariances());
    f.arr("precisions", m.precisions());
    f.arr("predict_train", &m.predict(x));
    f.arr("predict_query", &m.predict(q));
    f.arr("proba_query", &m.predict_proba(q));
    let single: Vec<usize> = q.axis_iter(Axis(0)).take(8).map(|r| m.predict(&r.insert_axis(Axis(0)).to_owned())[0]).collect();
    f.seq("predict_single", single);
    let ps: Vec<F> = q.axis_iter(Axis(0)).take(4).flat_map(|r| m.predict_proba(&r.insert_axis(Axis(0))).into_iter().collect::<Vec<F>>()).collect();
    f.seq("proba_single", ps);
}

type GmmRes<F> = Result<GaussianMixtureModel<F>, String>;

fn fp_gmm_res(m: &GmmRes<f64>, p: &P, f: &mut Fingerprint) {
    match m {
        Ok(m) => {
            f.one("fit_ok", true);
            let x = gmm_train(p);
            let q = gmm_query(p, &x);
            fp_gmm(m, &x, &q, f);
        }
        Err(e) => f.err("fit", e),
    }
}
fn fp_gmm_res32(m: &GmmRes<f32>, p: &P, f: &mut Fingerprint) {
    match m {
        Ok(m) => {
            f.one("fit_ok", true);
            let x = gmm_train(p);
            let q = data::to_f32(&gmm_query(p, &x));
            fp_gmm(m, &data::to_f32(&x), &q, f);
        }
        Err(e) => f.err("fit", e),
    }
}

type GP = GmmParams<f64, Xoshiro256Plus>;
type GVP = GmmValidParams<f64, Xoshiro256Plus>;

fn gmm_fit<R: rand::Rng + Clone>(params: GmmParams<f64, R>, p: &P) -> GmmRes<f64> {
    params.fit(&DatasetBase::from(gmm_train(p))).map_err(|e| e.to_string())
}

/// default builder: neither rng nor init method given (k-means initialisation on the pool)
fn build_gmm_default(p: &P) -> GmmRes<f64> {
    let (_, _, k) = gmm_dims(p);
    gmm_fit(GaussianMixtureModel::params(k), p)
}
/// default builder (no rng) with random responsibilities
fn build_gmm_default_random(p: &P) -> GmmRes<f64> {
    let (_, _, k) = gmm_dims(p);
    gmm_fit(GaussianMixtureModel::params(k).init_method(GmmInitMethod::Random).n_runs(2), p)
}
fn build_gmm_kmeans_seeded(p: &P) -> GmmRes<f64> {
    let (_, _, k) = gmm_dims(p);
    gmm_fit(GaussianMixtureModel::params_with_rng(k, Xoshiro256Plus::seed_from_u64(p.seed)).n_runs(2).tolerance(1e-4), p)
}
fn build_gmm_random_seeded(p: &P) -> GmmRes<f64> {
    let (_, _, k) = gmm_dims(p);
    gmm_fit(
        GaussianMixtureModel::params(k).with_rng(Xoshiro256Plus::seed_from_u64(p.seed ^ 5)).init_method(GmmInitMethod::Random).n_runs(3).reg_covariance(1e-4),
        p,
    )
}
fn build_gmm_random_smallrng(p: &P) -> GmmRes<f64> {
    let (_, _, k) = gmm_dims(p);
    gmm_fit(GaussianMixtureModel::params(k).with_rng(SmallRng::seed_from_u64(p.seed)).init_method(GmmInitMethod::Random).max_n_iterations(60), p)
}
fn build_gmm_random_f32(p: &P) -> GmmRes<f32> {
    let (_, _, k) = gmm_dims(p);
    GaussianMixtureModel::<f32>::params_with_rng(k, Xoshiro256Plus::seed_from_u64(p.seed))
        .init_method(GmmInitMethod::Random)
        .reg_covariance(1e-3)
        .fit(&DatasetBase::from(data::to_f32(&gmm_train(p))))
        .map_err(|e| e.to_string())
}
/// more components than distinct rows / far too few rows: exercises the error paths
fn gmm_degenerate(p: &P) -> Fingerprint {
    let mut f = Fingerprint::new();
    let n = p.pick(12, 60, 200);
    let mut r = p.rng(13);
    // only two distinct rows, many copies
    let x = Array2::from_shape_fn((n, 2), |(i, j)| if (i + r.below(2) as usize) % 2 == 0 { j as f64 } else { 3.0 + j as f64 });
    let q = x.slice(ndarray::s![0..n.min(6), ..]).to_owned();
    for (tag, reg) in [("reg0", 0.0), ("reg1e-6", 1e-6)] {
        let res = GaussianMixtureModel::params_with_rng(3, Xoshiro256Plus::seed_from_u64(p.seed))
            .init_method(GmmInitMethod::Random)
            .reg_covariance(reg)
            .max_n_iterations(40)
            .fit(&DatasetBase::from(x.clone()));
        match res {
            Ok(m) => {
                let mut g = Fingerprint::new();
                fp_gmm(&m, &x, &q, &mut g);
                f.extend(&format!("{tag}."), g);
            }
            Err(e) => f.err(&format!("{tag}.fit"), &e),
        }
    }
    // one iteration only: NotConverged is an outcome
    match GaussianMixtureModel::<f64>::params(2).init_method(GmmInitMethod::Random).max_n_iterations(1).tolerance(1e-12).fit(&DatasetBase::from(gmm_train(p))) {
        Ok(m) => f.arr("one_iter.means", m.means()),
        Err(e) => f.err("one_iter.fit", &e),
    }
    f
}

fn advance(mut rng: Xoshiro256Plus, k: u64) -> Xoshiro256Plus {
    // a non-initial generator state has to survive the round trip
    for _ in 0..k {
        rng.next_u64();
    }
    rng
}

fn build_gmm_params_kmeans(p: &P) -> GP {
    let (_, _, k) = gmm_dims(p);
    GaussianMixtureModel::params_with_rng(k, advance(Xoshiro256Plus::seed_from_u64(p.seed ^ 77), p.seed % 13))
        .n_runs(2)
        .tolerance(5e-4)
        .reg_covariance(1e-5)
        .max_n_iterations(80)
        .covariance_type(GmmCovarType::Full)
        .init_method(GmmInitMethod::KMeans)
}
fn build_gmm_params_random(p: &P) -> GP {
    build_gmm_params_kmeans(p).init_method(GmmInitMethod::Random)
}
fn build_gmm_params_invalid_tol(p: &P) -> GP {
    // tolerance exactly at the documented bound ("must be greater than 0")
    build_gmm_params_random(p).tolerance(0.0)
}
fn build_gmm_params_invalid_k(p: &P) -> GP {
    GaussianMixtureModel::params_with_rng(0, Xoshiro256Plus::seed_from_u64(p.seed)).n_runs(0).max_n_iterations(0).reg_covariance(-1e-9)
}
fn build_gmm_valid_params(p: &P) -> GVP {
    build_gmm_params_random(p).check().expect("valid gmm params")
}
fn fp_gmm_valid(v: &GVP, p: &P, f: &mut Fingerprint) {
    f.one("n_clusters", v.n_clusters());
    f.text("covariance_type", &format!("{:?}", v.covariance_type()));
    f.one("tolerance", v.tolerance());
    f.one("reg_covariance", v.reg_covariance());
    f.one("n_runs", v.n_runs());
    f.one("max_n_iterations", v.max_n_iterations());
    f.text("init_method", &format!("{:?}", v.init_method()));
    let mut rng = v.rng();
    f.seq("rng_draws", (0..4).map(|_| rng.next_u64()).collect::<Vec<u64>>());
    let refit: GmmRes<f64> = v.fit(&DatasetBase::from(gmm_train(p))).map_err(|e| e.to_string());
    let mut g = Fingerprint::new();
    fp_gmm_res(&refit, p, &mut g);
    f.extend("refit.", g);
}
fn fp_gmm_params(v: &GP, p: &P, f: &mut Fingerprint) {
    match v.check_ref() {
        Ok(valid) => {
            f.one("check_ok", true);
            fp_gmm_valid(valid, p, f);
        }
        Err(e) => f.err("check", &e),
    }
}
fn fp_gmm_init(v: &GmmInitMethod, p: &P, f: &mut Fingerprint) {
    f.text("variant", &format!("{v:?}"));
    let (_, _, k) = gmm_dims(p);
    let refit = gmm_fit(GaussianMixtureModel::params_with_rng(k, Xoshiro256Plus::seed_from_u64(p.seed)).init_method(*v), p);
    fp_gmm_res(&refit, p, f);
}
fn fp_gmm_covar(v: &GmmCovarType, p: &P, f: &mut Fingerprint) {
    f.text("variant", &format!("{v:?}"));
    let (_, _, k) = gmm_dims(p);
    let refit = gmm_fit(GaussianMixtureModel::params_with_rng(k, Xoshiro256Plus::seed_from_u64(p.seed)).init_method(GmmInitMethod::Random).covariance_type(*v), p);
    fp_gmm_res(&refit, p, f);
}

fn register_gmm(r: &mut Registry) {
    const M: &[&str] = &["GaussianMixtureModel", "GmmCovarType"];
    r.model::<GmmRes<f64>>("gmm_default_model", CL, M, Some((Kind::Claim, true)), build_gmm_default, fp_gmm_res, Some(|a, b| a == b));
    r.model::<GmmRes<f64>>("gmm_default_random_model", CL, M, Some((Kind::Claim, false)), build_gmm_default_random, fp_gmm_res, Some(|a, b| a == b));
    r.model::<GmmRes<f64>>("gmm_kmeans_seeded_model", CL, M, Some((Kind::Claim, true)), build_gmm_kmeans_seeded, fp_gmm_res, Some(|a, b| a == b));
    r.model::<GmmRes<f64>>("gmm_random_seeded_model", CL, M, Some((Kind::Claim, false)), build_gmm_random_seeded, fp_gmm_res, Some(|a, b| a == b));
    r.model::<GmmRes<f64>>("gmm_random_smallrng_model", CL, M, Some((Kind::Claim, false)), build_gmm_random_smallrng, fp_gmm_res, Some(|a, b| a == b));
    r.model::<GmmRes<f32>>("gmm_random_f32_model", CL, M, Some((Kind::Claim, false)), build_gmm_random_f32, fp_gmm_res32, Some(|a, b| a == b));
    r.scenario("gmm_degenerate", CL, Kind::Claim, false, gmm_degenerate);
    const PT: &[&str] = &["GmmParams", "GmmValidParams", "GmmCovarType", "GmmInitMethod"];
    r.model::<GP>("gmm_params_kmeans", CL, PT, Some((Kind::Claim, true)), build_gmm_params_kmeans, fp_gmm_params, Some(|a, b| a == b));
    r.model::<GP>("gmm_params_random", CL, PT, Some((Kind::Claim, false)), build_gmm_params_random, fp_gmm_params, Some(|a, b| a == b));
    r.model::<GP>("gmm_params_invalid_tolerance", CL, PT, None, build_gmm_params_invalid_tol, fp_gmm_params, Some(|a, b| a == b));
    r.model::<GP>("gmm_params_invalid_clusters", CL, PT, None, build_gmm_params_invalid_k, fp_gmm_params, Some(|a, b| a == b));
    r.model::<GVP>("gmm_valid_params", CL, &["GmmValidParams", "GmmCovarType", "GmmInitMethod"], None, build_gmm_valid_params, fp_gmm_valid, Some(|a, b| a == b));
    r.model::<GmmInitMethod>("gmm_init_method_kmeans", CL, &["GmmInitMethod"], None, |_| GmmInitMethod::KMeans, fp_gmm_init, Some(|a, b| a == b));
    r.model::<GmmInitMethod>("gmm_init_method_random", CL, &["GmmInitMethod"], None, |_| GmmInitMethod::Random, fp_gmm_init, Some(|a, b| a == b));
    r.model::<GmmCovarType>("gmm_covar_type_full", CL, &["GmmCovarType"], None, |_| GmmCovarType::Full, fp_gmm_covar, Some(|a, b| a == b));
}

// ---------------------------------------------------------------------------------------------
// DBSCAN / "approximate" DBSCAN (alias)
// ---------------------------------------------------------------------------------------------

fn db_train(p: &P) -> Array2<f64> {
    let (n, d) = p.pick((40, 2), (400, 2), (1100, 3));
    patches(&mut p.rng(21), n, d)
}

/// (tolerance, min_points): lattice spacing is 1, bridge points are 1.5 away from both patches
fn db_configs() -> [(f64, usize); 4] {
    [(1.1, 4), (1.6, 10), (2f64.sqrt(), 3), (1.0, 2)]
}

fn fp_labels(tag: &str, l: &Array1<Option<usize>>, f: &mut Fingerprint) {
    f.arr(&format!("{tag}labels"), l);
    let nclu = l.iter().flatten().max().map(|m| m + 1).unwrap_or(0);
    f.one(&format!("{tag}n_clusters"), nclu);
    f.one(&format!("{tag}n_noise"), l.iter().filter(|v| v.is_none()).count());
}

fn dbscan_fp<F: Float + Bits, D: Distance<F>, N: NearestNeighbour + Clone>(dist: D, nn: N, x: &Array2<F>, f: &mut Fingerprint) {
    for (ci, (tol, mp)) in db_configs().into_iter().enumerate() {
        let params = Dbscan::params_with(mp, dist.clone(), nn.clone()).tolerance(F::cast(tol));
        match params.transform(x) {
            Ok(l) => fp_labels(&format!("c{ci}."), &l, f),
            Err(e) => f.err(&format!("c{ci}.check"), &e),
        }
    }
}

fn reg_dbscan<D: Distance<f64> + 'static, N: NearestNeighbour + Clone + 'static>(r: &mut Registry, name: &str, dist: D, nn: N) {
    let dist = crate::fault::FaultyDist(dist);
    r.scenario(name, CL, Kind::Claim, false, move |p| {
        let mut f = Fingerprint::new();
        dbscan_fp(dist.clone(), nn.clone(), &db_train(p), &mut f);
        f
    });
}

/// default builder (tolerance 1e-4, L2, k-d tree): only exact duplicates are neighbours;
/// plus the `DatasetBase` calling form and a non-contiguous-free f32 run
fn dbscan_default(p: &P) -> Fingerprint {
    let mut f = Fingerprint::new();
    let x = db_train(p);
    match Dbscan::params::<f64>(2).transform(&x) {
        Ok(l) => fp_labels("default.", &l, &mut f),
        Err(e) => f.err("default.check", &e),
    }
    match Dbscan::params::<f64>(3).tolerance(1.1).transform(DatasetBase::from(x.clone())) {
        Ok(ds) => {
            fp_labels("dataset.", ds.targets(), &mut f);
            f.arr("dataset.records", ds.records());
        }
        Err(e) => f.err("dataset.check", &e),
    }
    let x32 = data::to_f32(&x);
    dbscan_fp(L2Dist, CommonNearestNeighbour::BallTree, &x32, &mut f);
    // zero-feature records: documented early return
    let z = Array2::<f64>::zeros((5, 0));
    match Dbscan::params::<f64>(2).tolerance(1.0).transform(&z) {
        Ok(l) => fp_labels("zerodim.", &l, &mut f),
        Err(e) => f.err("zerodim.check", &e),
    }
    f
}

fn dbscan_invalid(p: &P) -> Fingerprint {
    let mut f = Fingerprint::new();
    let x = db_train(p);
    for (tag, mp, tol) in [("min_points_1", 1usize, 1.0), ("min_points_0", 0, 1.0), ("tolerance_0", 3, 0.0), ("tolerance_neg", 3, -1.0), ("ok_at_bound", 2, f64::MIN_POSITIVE)] {
        let params = Dbscan::params::<f64>(mp).tolerance(tol);
        match params.check_ref() {
            Ok(v) => {
                f.one(&format!("{tag}.check_ok"), true);
                f.one(&format!("{tag}.tolerance"), v.tolerance());
                f.one(&format!("{tag}.min_points"), v.minimum_points());
            }
            Err(e) => f.err(&format!("{tag}.check"), &e),
        }
        match params.transform(&x) {
            Ok(l) => fp_labels(&format!("{tag}."), &l, &mut f),
            Err(e) => f.err(&format!("{tag}.transform"), &e),
        }
    }
    f
}

fn fp_dbvalid<F: Float + Bits, D: Distance<F> + std::fmt::Debug, N: NearestNeighbour + Clone>(v: &DbscanValidParams<F, D, N>, x: &Array2<F>, f: &mut Fingerprint) {
    f.one("tolerance", v.tolerance());
    f.one("min_points", v.minimum_points());
    f.text("dist_fn", &format!("{:?}", v.dist_fn()));
    f.text("nn_algo", &format!("{:?}", v.nn_algo()));
    fp_labels("", &v.transform(x), f);
}

type DbV<D, N> = DbscanValidParams<f64, D, N>;

fn build_dbvalid_common(p: &P) -> DbV<L2Dist, CommonNearestNeighbour> {
    let nn = [CommonNearestNeighbour::KdTree, CommonNearestNeighbour::BallTree, CommonNearestNeighbour::LinearSearch][(p.seed % 3) as usize].clone();
    Dbscan::params::<f64>(3 + (p.seed % 3) as usize).tolerance(1.1 + 0.25 * (p.seed % 4) as f64).nn_algo(nn).check().expect("valid dbscan params")
}
fn build_dbvalid_l1_ball(p: &P) -> DbV<L1Dist, BallTree> {
    Dbscan::params_with(4, L1Dist, BallTree).tolerance(2.0 + (p.seed % 2) as f64).check().expect("valid dbscan params")
}
fn build_dbvalid_lp_linear(p: &P) -> DbV<LpDist<f64>, LinearSearch> {
    Dbscan::params_with(3, LpDist(1.5 + (p.seed % 3) as f64), LinearSearch).tolerance(1.3).check().expect("valid dbscan params")
}
fn build_dbvalid_f32(p: &P) -> DbscanValidParams<f32, LInfDist, KdTree> {
    Dbscan::params_with(5, LInfDist, KdTree).tolerance(1.25 + (p.seed % 2) as f32).check().expect("valid dbscan params")
}
fn build_appx_valid(p: &P) -> AppxDbscanValidParams<f64, CommonNearestNeighbour> {
    AppxDbscan::params::<f64>(4).tolerance(1.6).nn_algo([CommonNearestNeighbour::BallTree, CommonNearestNeighbour::KdTree][(p.seed % 2) as usize].clone()).check().expect("valid appx params")
}

fn appx_default(p: &P) -> Fingerprint {
    // the approximate variant is an alias of the exact one: both spellings must agree bit for bit
    let mut f = Fingerprint::new();
    let x = db_train(p);
    for (ci, (tol, mp)) in db_configs().into_iter().enumerate() {
        match AppxDbscan::params::<f64>(mp).tolerance(tol).transform(&x) {
            Ok(l) => {
                fp_labels(&format!("c{ci}."), &l, &mut f);
                let exact = Dbscan::params::<f64>(mp).tolerance(tol).transform(&x).expect("same check");
                f.one(&format!("c{ci}.same_as_exact"), exact == l);
            }
            Err(e) => f.err(&format!("c{ci}.check"), &e),
        }
    }
    f
}

fn register_dbscan(r: &mut Registry) {
    reg_dbscan(r, "dbscan_linear_l2", L2Dist, CommonNearestNeighbour::LinearSearch);
    reg_dbscan(r, "dbscan_kdtree_l2", L2Dist, CommonNearestNeighbour::KdTree);
    reg_dbscan(r, "dbscan_balltree_l2", L2Dist, CommonNearestNeighbour::BallTree);
    reg_dbscan(r, "dbscan_linear_l1", L1Dist, CommonNearestNeighbour::LinearSearch);
    reg_dbscan(r, "dbscan_kdtree_l1", L1Dist, CommonNearestNeighbour::KdTree);
    reg_dbscan(r, "dbscan_balltree_l1", L1Dist, CommonNearestNeighbour::BallTree);
    reg_dbscan(r, "dbscan_typed_kdtree_linf", LInfDist, KdTree);
    reg_dbscan(r, "dbscan_typed_balltree_lp3", LpDist(3.0), BallTree);
    reg_dbscan(r, "dbscan_typed_linear_l2", L2Dist, LinearSearch);
    r.scenario("dbscan_default", CL, Kind::Claim, false, dbscan_default);
    r.scenario("dbscan_params_invalid", CL, Kind::Claim, false, dbscan_invalid);
    r.scenario("appx_dbscan_default", CL, Kind::Claim, false, appx_default);
    r.model::<DbV<L2Dist, CommonNearestNeighbour>>(
        "dbscan_valid_params_common",
        CL,
        &["DbscanValidParams", "L2Dist", "CommonNearestNeighbour"],
        Some((Kind::Claim, false)),
        build_dbvalid_common,
        |v, p, f| fp_dbvalid(v, &db_train(p), f),
        Some(|a, b| a == b),
    );
    r.model::<DbV<L1Dist, BallTree>>(
        "dbscan_valid_params_l1_balltree",
        CL,
        &["DbscanValidParams", "L1Dist", "BallTree"],
        Some((Kind::Claim, false)),
        build_dbvalid_l1_ball,
        |v, p, f| fp_dbvalid(v, &db_train(p), f),
        Some(|a, b| a == b),
    );
    r.model::<DbV<LpDist<f64>, LinearSearch>>(
        "dbscan_valid_params_lp_linear",
        CL,
        &["DbscanValidParams", "LpDist", "LinearSearch"],
        Some((Kind::Claim, false)),
        build_dbvalid_lp_linear,
        |v, p, f| fp_dbvalid(v, &db_train(p), f),
        Some(|a, b| a == b),
    );
    r.model::<DbscanValidParams<f32, LInfDist, KdTree>>(
        "dbscan_valid_params_f32_linf_kdtree",
        CL,
        &["DbscanValidParams", "LInfDist", "KdTree"],
        Some((Kind::Claim, false)),
        build_dbvalid_f32,
        |v, p, f| fp_dbvalid(v, &data::to_f32(&db_train(p)), f),
        Some(|a, b| a == b),
    );
    r.model::<AppxDbscanValidParams<f64, CommonNearestNeighbour>>(
        "appx_dbscan_valid_params",
        CL,
        &["AppxDbscanValidParams", "DbscanValidParams", "L2Dist", "CommonNearestNeighbour"],
        Some((Kind::Claim, false)),
        build_appx_valid,
        |v, p, f| fp_dbvalid(v, &db_train(p), f),
        Some(|a, b| a == b),
    );
    r.model::<Dbscan>(
        "dbscan_unit",
        CL,
        &["Dbscan"],
        None,
        |_| Dbscan,
        |v, p, f| {
            f.text("debug", &format!("{v:?}"));
            dbscan_fp(L2Dist, CommonNearestNeighbour::KdTree, &db_train(p), f);
        },
        Some(|a, b| a == b),
    );
}

// ---------------------------------------------------------------------------------------------
// OPTICS
// ---------------------------------------------------------------------------------------------

fn op_train(p: &P) -> Array2<f64> {
    let (n, d) = p.pick((36, 2), (300, 2), (800, 3));
    patches(&mut p.rng(31), n, d)
}

fn fp_optics<F: Float + Bits>(tag: &str, a: &OpticsAnalysis<F>, f: &mut Fingerprint) {
    f.one(&format!("{tag}len"), a.as_slice().len());
    // ordered samples: (index, core distance, reachability distance) in the order returned
    f.seq(&format!("{tag}order"), a.iter().map(|s| s.index()).collect::<Vec<usize>>());
    f.seq(&format!("{tag}core"), a.iter().map(|s| *s.core_distance()).collect::<Vec<Option<F>>>());
    f.seq(&format!("{tag}reach"), a.iter().map(|s| *s.reachability_distance()).collect::<Vec<Option<F>>>());
    if !a.as_slice().is_empty() {
        f.one(&format!("{tag}first_via_index"), a[0].index());
        f.one(&format!("{tag}tail_len_via_index"), a[1..].len());
    }
}

fn optics_fp<F: Float + Bits, D: Distance<F>, N: NearestNeighbour + Clone>(dist: D, nn: N, x: &Array2<F>, f: &mut Fingerprint) {
    for (ci, (tol, mp)) in [(1.1, 4usize), (1.6, 6), (2f64.sqrt(), 3), (8.0, 5)].into_iter().enumerate() {
        let params = Optics::params_with(mp, dist.clone(), nn.clone()).tolerance(F::cast(tol));
        match params.transform(x.view()) {
            Ok(a) => fp_optics(&format!("c{ci}."), &a, f),
            Err(e) => f.err(&format!("c{ci}.check"), &e),
        }
    }
}

fn reg_optics<D: Distance<f64> + 'static, N: NearestNeighbour + Clone + 'static>(r: &mut Registry, name: &str, dist: D, nn: N) {
    let dist = crate::fault::FaultyDist(dist);
    r.scenario(name, CL, Kind::Claim, false, move |p| {
        let mut f = Fingerprint::new();
        optics_fp(dist.clone(), nn.clone(), &op_train(p), &mut f);
        f
    });
}

/// default builder: infinite tolerance (every point is everybody's neighbour), k-d tree, L2
fn optics_default(p: &P) -> Fingerprint {
    let mut f = Fingerprint::new();
    let n = p.pick(24, 120, 400);
    let x = patches(&mut p.rng(32), n, 2);
    match Optics::params::<f64>(3).transform(x.view()) {
        Ok(a) => fp_optics("default.", &a, &mut f),
        Err(e) => f.err("default.check", &e),
    }
    let x32 = data::to_f32(&x);
    match Optics::params::<f32>(4).tolerance(1.6).nn_algo(CommonNearestNeighbour::BallTree).transform(x32.view()) {
        Ok(a) => fp_optics("f32.", &a, &mut f),
        Err(e) => f.err("f32.check", &e),
    }
    let z = Array2::<f64>::zeros((4, 0));
    match Optics::params::<f64>(2).tolerance(1.0).transform(z.view()) {
        Ok(a) => fp_optics("zerodim.", &a, &mut f),
        Err(e) => f.err("zerodim.check", &e),
    }
    f
}

type OpP = OpticsParams<f64, L2Dist, CommonNearestNeighbour>;
type OpV = OpticsValidParams<f64, L2Dist, CommonNearestNeighbour>;

fn build_optics_params(p: &P) -> OpP {
    let nn = [CommonNearestNeighbour::BallTree, CommonNearestNeighbour::LinearSearch, CommonNearestNeighbour::KdTree][(p.seed % 3) as usize].clone();
    Optics::params::<f64>(3 + (p.seed % 2) as usize).tolerance(1.6 + 0.5 * (p.seed % 3) as f64).nn_algo(nn)
}
fn build_optics_params_default(_p: &P) -> OpP {
    // infinite tolerance has to survive the codec
    Optics::params::<f64>(4)
}
fn build_optics_params_invalid_tol(p: &P) -> OpP {
    build_optics_params(p).tolerance(0.0)
}
fn build_optics_params_invalid_mp(p: &P) -> OpP {
    Optics::params::<f64>(1).tolerance(1.0 + (p.seed % 1000) as f64)
}
fn fp_optics_valid<F: Float + Bits, D: Distance<F> + std::fmt::Debug, N: NearestNeighbour + Clone>(v: &OpticsValidParams<F, D, N>, x: &Array2<F>, f: &mut Fingerprint) {
    f.one("tolerance", v.tolerance());
    f.one("min_points", v.minimum_points());
    f.text("dist_fn", &format!("{:?}", v.dist_fn()));
    f.text("nn_algo", &format!("{:?}", v.nn_algo()));
    fp_optics("", &v.transform(x.view()), f);
}
fn op_small(p: &P) -> Array2<f64> {
    patches(&mut p.rng(33), p.pick(30, 120, 300), 2)
}
fn fp_optics_params(v: &OpP, p: &P, f: &mut Fingerprint) {
    f.text("debug", &format!("{v:?}"));
    match v.check_ref() {
        Ok(valid) => {
            f.one("check_ok", true);
            fp_optics_valid(valid, &op_small(p), f);
        }
        Err(e) => f.err("check", &e),
    }
}
fn build_optics_analysis(p: &P) -> OpticsAnalysis<f64> {
    build_optics_params(p).check().expect("valid optics params").transform(op_small(p).view())
}
fn build_optics_analysis_f32(p: &P) -> OpticsAnalysis<f32> {
    Optics::params_with(3, L1Dist, KdTree).tolerance(2.0).check().expect("valid optics params").transform(data::to_f32(&op_small(p)).view())
}

fn register_optics(r: &mut Registry) {
    reg_optics(r, "optics_linear_l2", L2Dist, CommonNearestNeighbour::LinearSearch);
    reg_optics(r, "optics_kdtree_l2", L2Dist, CommonNearestNeighbour::KdTree);
    reg_optics(r, "optics_balltree_l2", L2Dist, CommonNearestNeighbour::BallTree);
    reg_optics(r, "optics_kdtree_l1", L1Dist, CommonNearestNeighbour::KdTree);
    reg_optics(r, "optics_balltree_l1", L1Dist, CommonNearestNeighbour::BallTree);
    reg_optics(r, "optics_typed_linear_linf", LInfDist, LinearSearch);
    r.scenario("optics_default", CL, Kind::Claim, false, optics_default);
    const PT: &[&str] = &["OpticsParams", "OpticsValidParams", "L2Dist", "CommonNearestNeighbour"];
    r.model::<OpP>("optics_params", CL, PT, Some((Kind::Claim, false)), build_optics_params, fp_optics_params, Some(|a, b| a == b));
    r.model::<OpP>("optics_params_default", CL, PT, Some((Kind::Claim, false)), build_optics_params_default, fp_optics_params, Some(|a, b| a == b));
    r.model::<OpP>("optics_params_invalid_tolerance", CL, PT, None, build_optics_params_invalid_tol, fp_optics_params, Some(|a, b| a == b));
    // non-finite tolerances: -inf is rejected by `check`, NaN slips through it; both are values a
    // parameter set can hold and must come back as they went
    r.model::<OpP>("optics_params_tolerance_neg_inf", CL, PT, None, |p| build_optics_params(p).tolerance(f64::NEG_INFINITY), fp_optics_params, Some(|a, b| a == b));
    r.model::<OpP>("optics_params_tolerance_nan", CL, PT, None, |p| build_optics_params(p).tolerance(f64::NAN), fp_optics_params, Some(|a, b| a == b));
    r.model::<OpP>("optics_params_tolerance_tiny", CL, PT, None, |p| build_optics_params(p).tolerance(f64::MIN_POSITIVE / 4.0), fp_optics_params, Some(|a, b| a == b));
    r.model::<OpP>("optics_params_invalid_min_points", CL, PT, None, build_optics_params_invalid_mp, fp_optics_params, Some(|a, b| a == b));
    r.model::<OpV>(
        "optics_valid_params",
        CL,
        &["OpticsValidParams", "L2Dist", "CommonNearestNeighbour"],
        None,
        |p| build_optics_params(p).check().expect("valid optics params"),
        |v, p, f| fp_optics_valid(v, &op_small(p), f),
        Some(|a, b| a == b),
    );
    r.model::<OpticsValidParams<f32, LpDist<f32>, BallTree>>(
        "optics_valid_params_f32_lp_balltree",
        CL,
        &["OpticsValidParams", "LpDist", "BallTree"],
        None,
        |p| Optics::params_with(3, LpDist(1.5 + (p.seed % 2) as f32), BallTree).tolerance(1.75).check().expect("valid optics params"),
        |v, p, f| fp_optics_valid(v, &data::to_f32(&op_small(p)), f),
        Some(|a, b| a == b),
    );
    r.model::<OpticsAnalysis<f64>>(
        "optics_analysis",
        CL,
        &["OpticsAnalysis", "Sample"],
        Some((Kind::Claim, false)),
        build_optics_analysis,
        |v, _p, f| fp_optics("", v, f),
        Some(|a, b| a == b),
    );
    r.model::<OpticsAnalysis<f32>>(
        "optics_analysis_f32",
        CL,
        &["OpticsAnalysis", "Sample"],
        Some((Kind::Claim, false)),
        build_optics_analysis_f32,
        |v, _p, f| fp_optics("", v, f),
        Some(|a, b| a == b),
    );
    r.model::<Optics>(
        "optics_unit",
        CL,
        &["Optics"],
        None,
        |_| Optics,
        |v, p, f| {
            f.text("debug", &format!("{v:?}"));
            optics_fp(L2Dist, CommonNearestNeighbour::KdTree, &op_small(p), f);
        },
        Some(|a, b| a == b),
    );
}

// ---------------------------------------------------------------------------------------------
// agglomerative clustering
// ---------------------------------------------------------------------------------------------

fn hier_train(p: &P) -> Array2<f64> {
    let n = p.pick(12, 60, 150);
    lattice(&mut p.rng(41), n, 2, 4)
}

#[derive(Clone, Copy)]
enum Stop {
    Count(usize),
    Dist(f64),
}

fn fp_hier_targets(tag: &str, t: &[usize], f: &mut Fingerprint) {
    // raw ids AND, separately, the partition they induce (clusters relabelled by first
    // occurrence): an id-only difference leaves `partition_canonical` equal
    f.seq(&format!("{tag}targets"), t.iter().copied());
    let canon = canonical_partition(t);
    let nclu = canon.iter().max().map(|m| m + 1).unwrap_or(0);
    let mut sizes = vec![0usize; nclu];
    for &c in &canon {
        sizes[c] += 1;
    }
    f.seq(&format!("{tag}partition_canonical"), canon);
    f.one(&format!("{tag}n_clusters"), nclu);
    f.seq(&format!("{tag}cluster_sizes_canonical"), sizes);
}

fn hier_run<F: Float + Bits>(kernel: Kernel<F>, method: Method, stop: Stop, tag: &str, f: &mut Fingerprint) {
    let base = HierarchicalCluster::<F>::default().with_method(method);
    let params = match stop {
        Stop::Count(k) => base.num_clusters(k),
        Stop::Dist(d) => base.max_distance(F::cast(d)),
    };
    match params.transform(kernel) {
        Ok(ds) => {
            f.one(&format!("{tag}kernel_size"), ds.records().size());
            fp_hier_targets(tag, ds.targets(), f);
        }
        Err(e) => f.err(&format!("{tag}check"), &e),
    }
}

fn hier_kernel(p: &P, sparse: bool) -> Kernel<f64> {
    let x = hier_train(p);
    let kind = if sparse { KernelType::Sparse(p.pick(2, 4, 6)) } else { KernelType::Dense };
    Kernel::<f64>::params().method(KernelMethod::Gaussian(4.0)).kind(kind).transform(&x)
}

fn hier_stops(p: &P) -> [(&'static str, Stop); 2] {
    [("count", Stop::Count(p.pick(3, 5, 7))), ("dist", Stop::Dist(0.5))]
}

fn hier_misc(p: &P) -> Fingerprint {
    let mut f = Fingerprint::new();
    // defaults (average linkage, two clusters)
    match HierarchicalCluster::<f64>::default().transform(hier_kernel(p, false)) {
        Ok(ds) => {
            fp_hier_targets("default.", ds.targets(), &mut f);
            // second stage through the DatasetBase calling form
            match HierarchicalCluster::<f64>::default().with_method(Method::Complete).max_distance(0.3).transform(ds) {
                Ok(ds2) => fp_hier_targets("restage.", ds2.targets(), &mut f),
                Err(e) => f.err("restage.check", &e),
            }
        }
        Err(e) => f.err("default.check", &e),
    }
    // linear kernel (similarities outside (0,1]: the -ln transform clips / goes negative)
    let x = hier_train(p);
    let lin = Kernel::<f64>::params().method(KernelMethod::Linear).transform(&x);
    hier_run(lin, Method::Average, Stop::Dist(-0.5f64.ln()), "linear.", &mut f);
    // f32
    let k32 = Kernel::<f32>::params().method(KernelMethod::Gaussian(4.0)).transform(&data::to_f32(&x));
    hier_run(k32, Method::Average, Stop::Count(p.pick(3, 5, 7)), "f32.", &mut f);
    // every observation its own cluster / one cluster
    hier_run(hier_kernel(p, false), Method::Single, Stop::Count(usize::MAX), "singletons.", &mut f);
    hier_run(hier_kernel(p, false), Method::Single, Stop::Count(1), "one.", &mut f);
    hier_run(hier_kernel(p, false), Method::Single, Stop::Dist(0.0), "dist0.", &mut f);
    // invalid stopping conditions
    hier_run(hier_kernel(p, false), Method::Average, Stop::Count(0), "invalid_count0.", &mut f);
    hier_run(hier_kernel(p, false), Method::Average, Stop::Dist(-1.0), "invalid_neg.", &mut f);
    hier_run(hier_kernel(p, false), Method::Average, Stop::Dist(f64::NAN), "invalid_nan.", &mut f);
    hier_run(hier_kernel(p, false), Method::Average, Stop::Dist(f64::INFINITY), "invalid_inf.", &mut f);
    f
}

fn register_hier(r: &mut Registry) {
    let methods = [
        ("single", Method::Single),
        ("complete", Method::Complete),
        ("average", Method::Average),
        ("weighted", Method::Weighted),
        ("ward", Method::Ward),
        ("centroid", Method::Centroid),
        ("median", Method::Median),
    ];
    for (mname, method) in methods {
        for si in 0..2 {
            let sname = ["count", "dist"][si];
            r.scenario(&format!("hier_{mname}_{sname}"), HI, Kind::Claim, false, move |p| {
                let mut f = Fingerprint::new();
                hier_run(hier_kernel(p, false), method, hier_stops(p)[si].1, "", &mut f);
                f
            });
        }
    }
    for (mname, method, si) in [("average", Method::Average, 0usize), ("single", Method::Single, 1), ("ward", Method::Ward, 0)] {
        let sname = ["count", "dist"][si];
        r.scenario(&format!("hier_sparse_{mname}_{sname}"), HI, Kind::Claim, false, move |p| {
            let mut f = Fingerprint::new();
            hier_run(hier_kernel(p, true), method, hier_stops(p)[si].1, "", &mut f);
            f
        });
    }
    r.scenario("hier_misc", HI, Kind::Claim, false, hier_misc);
}

// ---------------------------------------------------------------------------------------------
// neighbour indices
// ---------------------------------------------------------------------------------------------

const NN_GRID: u64 = 6;

fn nn_dims(p: &P) -> (usize, usize, usize) {
    // rows, dims, queries
    p.pick((30, 2, 4), (400, 3, 12), (2000, 3, 20))
}
fn nn_train(p: &P) -> Array2<f64> {
    let (n, d, _) = nn_dims(p);
    lattice(&mut p.rng(51), n, d, NN_GRID)
}
fn nn_query(p: &P, x: &Array2<f64>) -> Array2<f64> {
    let (_, _, m) = nn_dims(p);
    nn_queries(&mut p.rng(52), x, m, NN_GRID)
}

type Hit<'a, F> = (ArrayView1<'a, F>, usize);

/// appends `len, (distance bits, index)*` in the order returned to `raw`, and the same list
/// sorted by (distance, index) to `canon`
fn record_hits<F: Float + Bits, D: Distance<F>>(dist: &D, q: ArrayView1<F>, hits: &[Hit<F>], x: &Array2<F>, raw: &mut Vec<u64>, canon: &mut Vec<u64>, points_ok: &mut bool) {
    let mut pairs: Vec<(F, usize)> = Vec::with_capacity(hits.len());
    for (pt, i) in hits {
        if *i >= x.nrows() || pt != x.row(*i) {
            *points_ok = false;
        }
        pairs.push((dist.distance(q, pt.view()), *i));
    }
    raw.push(pairs.len() as u64);
    for (d, i) in &pairs {
        raw.push(d.bits());
        raw.push(*i as u64);
    }
    pairs.sort_by(|a, b| a.0.partial_cmp(&b.0).unwrap_or(Ordering::Equal).then(a.1.cmp(&b.1)));
    canon.push(pairs.len() as u64);
    for (d, i) in &pairs {
        canon.push(d.bits());
        canon.push(*i as u64);
    }
}

fn nn_fp<F: Float + Bits, N: NearestNeighbour, D: Distance<F>>(algo: &N, dist: &D, x: &Array2<F>, q: &Array2<F>, leafs: &[Option<usize>], f: &mut Fingerprint) {
    let n = x.nrows();
    for leaf in leafs {
        let (tag, built) = match leaf {
            None => ("ldef".to_string(), algo.from_batch(x, dist.clone())),
            Some(l) => (format!("l{l}"), algo.from_batch_with_leaf_size(x, *l, dist.clone())),
        };
        let idx = match built {
            Ok(i) => i,
            Err(e) => {
                f.err(&format!("{tag}.build"), &e);
                continue;
            }
        };
        let mut points_ok = true;
        for k in [1usize, 3, 8, n + 5] {
            let (mut raw, mut canon) = (Vec::new(), Vec::new());
            let mut failed = None;
            // asking for more points than stored: first two queries only (cost)
            let rows = if k > n { 2 } else { q.nrows() };
            for qr in q.rows().into_iter().take(rows) {
                match idx.k_nearest(qr, k) {
                    Ok(h) => record_hits(dist, qr, &h, x, &mut raw, &mut canon, &mut points_ok),
                    Err(e) => failed = Some(e.to_string()),
                }
            }
            let kn = if k > n { "all".to_string() } else { k.to_string() };
            if let Some(e) = failed {
                f.err(&format!("{tag}.knn{kn}"), &e);
            }
            f.raw(&format!("{tag}.knn{kn}.raw"), raw);
            f.raw(&format!("{tag}.knn{kn}.canonical"), canon);
        }
        for (ri, rad) in [1e-9, 1.0, 2f64.sqrt(), 2.5].into_iter().enumerate() {
            let (mut raw, mut canon) = (Vec::new(), Vec::new());
            let mut failed = None;
            for qr in q.rows() {
                match idx.within_range(qr, F::cast(rad)) {
                    Ok(h) => record_hits(dist, qr, &h, x, &mut raw, &mut canon, &mut points_ok),
                    Err(e) => failed = Some(e.to_string()),
                }
            }
            if let Some(e) = failed {
                f.err(&format!("{tag}.range{ri}"), &e);
            }
            f.raw(&format!("{tag}.range{ri}.raw"), raw);
            f.raw(&format!("{tag}.range{ri}.canonical"), canon);
        }
        f.one(&format!("{tag}.points_match_rows"), points_ok);
    }
}

/// documented failure modes: leaf size 0, zero-dimensional points, wrong query dimension;
/// plus an empty batch
fn nn_errors<N: NearestNeighbour, D: Distance<f64>>(algo: &N, dist: &D, x: &Array2<f64>, f: &mut Fingerprint) {
    match algo.from_batch_with_leaf_size(x, 0, dist.clone()) {
        Ok(_) => f.one("leaf0.build_ok", true),
        Err(e) => f.err("leaf0.build", &e),
    }
    let z = Array2::<f64>::zeros((3, 0));
    match algo.from_batch(&z, dist.clone()) {
        Ok(_) => f.one("zerodim.build_ok", true),
        Err(e) => f.err("zerodim.build", &e),
    }
    let idx = algo.from_batch(x, dist.clone()).expect("index over valid batch");
    let wrong = Array1::<f64>::zeros(x.ncols() + 1);
    match idx.k_nearest(wrong.view(), 2) {
        Ok(h) => f.one("wrongdim.knn_len", h.len()),
        Err(e) => f.err("wrongdim.knn", &e),
    }
    match idx.within_range(wrong.view(), 1.0) {
        Ok(h) => f.one("wrongdim.range_len", h.len()),
        Err(e) => f.err("wrongdim.range", &e),
    }
    // k = 0: LinearSearch and KdTree answer with an empty list; BallTreeIndex::nn_helper panics
    // (balltree.rs:222, `out.peek().unwrap()` with `out.len() == k == 0`) — reported, not run
    if !format!("{algo:?}").contains("BallTree") {
        match idx.k_nearest(x.row(0), 0) {
            Ok(h) => f.one("k0.len", h.len()),
            Err(e) => f.err("k0", &e),
        }
    }
    let empty = Array2::<f64>::zeros((0, x.ncols()));
    match algo.from_batch(&empty, dist.clone()) {
        Ok(idx) => {
            let qv = Array1::<f64>::zeros(x.ncols());
            match idx.k_nearest(qv.view(), 3) {
                Ok(h) => f.one("empty.knn_len", h.len()),
                Err(e) => f.err("empty.knn", &e),
            }
            match idx.within_range(qv.view(), 1.0) {
                Ok(h) => f.one("empty.range_len", h.len()),
                Err(e) => f.err("empty.range", &e),
            }
        }
        Err(e) => f.err("empty.build", &e),
    };
}

fn nn_leafs(p: &P) -> &'static [Option<usize>] {
    const SMALL: &[Option<usize>] = &[Some(1), Some(4), None];
    const LARGE: &[Option<usize>] = &[Some(3), None];
    p.pick(SMALL, SMALL, LARGE)
}

fn reg_nn<N: NearestNeighbour + 'static, D: Distance<f64> + 'static>(r: &mut Registry, name: &str, algo: N, dist: D) {
    // the distance function is a caller-supplied callback: instrumented for fault injection
    let dist = crate::fault::FaultyDist(dist);
    r.scenario(name, NN, Kind::Claim, false, move |p| {
        let mut f = Fingerprint::new();
        let x = nn_train(p);
        let q = nn_query(p, &x);
        nn_fp(&algo, &dist, &x, &q, nn_leafs(p), &mut f);
        nn_errors(&algo, &dist, &x, &mut f);
        f
    });
}
fn reg_nn32<N: NearestNeighbour + 'static, D: Distance<f32> + 'static>(r: &mut Registry, name: &str, algo: N, dist: D) {
    let dist = crate::fault::FaultyDist(dist);
    r.scenario(name, NN, Kind::Claim, false, move |p| {
        let mut f = Fingerprint::new();
        let x = nn_train(p);
        let q = data::to_f32(&nn_query(p, &x));
        nn_fp(&algo, &dist, &data::to_f32(&x), &q, nn_leafs(p), &mut f);
        f
    });
}

/// small fixed workload for the C19 entries
fn nn_small(p: &P) -> (Array2<f64>, Array2<f64>) {
    let n = p.pick(30, 120, 300);
    let x = lattice(&mut p.rng(53), n, 2, 5);
    let q = nn_queries(&mut p.rng(54), &x, 6, 5);
    (x, q)
}
fn fp_selector<N: NearestNeighbour>(v: &N, p: &P, f: &mut Fingerprint) {
    f.text("debug", &format!("{v:?}"));
    let (x, q) = nn_small(p);
    nn_fp(v, &L2Dist, &x, &q, &[Some(2), None], f);
    let mut g = Fingerprint::new();
    nn_fp(v, &L1Dist, &x, &q, &[Some(3)], &mut g);
    f.extend("l1.", g);
}
fn fp_metric<D: Distance<f64> + std::fmt::Debug>(v: &D, p: &P, f: &mut Fingerprint) {
    f.text("debug", &format!("{v:?}"));
    let (x, q) = nn_small(p);
    let pairs = x.nrows().min(12);
    let mut vals = Vec::new();
    for i in 0..pairs {
        let (a, b) = (x.row(i), x.row((i * 7 + 3) % x.nrows()));
        let d = v.distance(a, b);
        let rd = v.rdistance(a, b);
        vals.extend([d, rd, v.rdist_to_dist(rd), v.dist_to_rdist(d)]);
    }
    f.seq("distance_rdistance_conversions", vals);
    for (tag, algo) in [("linear.", CommonNearestNeighbour::LinearSearch), ("kdtree.", CommonNearestNeighbour::KdTree), ("balltree.", CommonNearestNeighbour::BallTree)] {
        let mut g = Fingerprint::new();
        nn_fp(&algo, v, &x, &q, &[Some(2)], &mut g);
        f.extend(tag, g);
    }
}
fn fp_metric32(v: &LpDist<f32>, p: &P, f: &mut Fingerprint) {
    f.text("debug", &format!("{v:?}"));
    f.one("p", v.0);
    let (x, q) = nn_small(p);
    let (x, q) = (data::to_f32(&x), data::to_f32(&q));
    for (tag, algo) in [("linear.", CommonNearestNeighbour::LinearSearch), ("kdtree.", CommonNearestNeighbour::KdTree), ("balltree.", CommonNearestNeighbour::BallTree)] {
        let mut g = Fingerprint::new();
        nn_fp(&algo, v, &x, &q, &[Some(2)], &mut g);
        f.extend(tag, g);
    }
}

fn register_nn(r: &mut Registry) {
    // the three implementations directly and through the dispatching enum, four metrics
    reg_nn(r, "nn_linear_l1", LinearSearch::new(), L1Dist);
    reg_nn(r, "nn_linear_l2", LinearSearch::new(), L2Dist);
    reg_nn(r, "nn_linear_linf", LinearSearch::new(), LInfDist);
    reg_nn(r, "nn_linear_lp3", LinearSearch::new(), LpDist(3.0));
    reg_nn(r, "nn_kdtree_l1", KdTree::new(), L1Dist);
    reg_nn(r, "nn_kdtree_l2", KdTree::new(), L2Dist);
    reg_nn(r, "nn_kdtree_linf", KdTree::new(), LInfDist);
    reg_nn(r, "nn_kdtree_lp3", KdTree::new(), LpDist(3.0));
    reg_nn(r, "nn_balltree_l1", BallTree::new(), L1Dist);
    reg_nn(r, "nn_balltree_l2", BallTree::new(), L2Dist);
    reg_nn(r, "nn_balltree_linf", BallTree::new(), LInfDist);
    reg_nn(r, "nn_balltree_lp3", BallTree::new(), LpDist(3.0));
    reg_nn(r, "nn_common_linear_l2", CommonNearestNeighbour::LinearSearch, L2Dist);
    reg_nn(r, "nn_common_linear_lp1_5", CommonNearestNeighbour::LinearSearch, LpDist(1.5));
    reg_nn(r, "nn_common_kdtree_l2", CommonNearestNeighbour::KdTree, L2Dist);
    reg_nn(r, "nn_common_kdtree_l1", CommonNearestNeighbour::KdTree, L1Dist);
    reg_nn(r, "nn_common_kdtree_lp1_5", CommonNearestNeighbour::KdTree, LpDist(1.5));
    reg_nn(r, "nn_common_balltree_l2", CommonNearestNeighbour::BallTree, L2Dist);
    reg_nn(r, "nn_common_balltree_linf", CommonNearestNeighbour::BallTree, LInfDist);
    reg_nn(r, "nn_common_balltree_lp1_5", CommonNearestNeighbour::BallTree, LpDist(1.5));
    reg_nn32(r, "nn_f32_linear_l2", LinearSearch::new(), L2Dist);
    reg_nn32(r, "nn_f32_kdtree_l2", KdTree::new(), L2Dist);
    reg_nn32(r, "nn_f32_balltree_l1", BallTree::new(), L1Dist);
    reg_nn32(r, "nn_f32_common_kdtree_lp3", CommonNearestNeighbour::KdTree, LpDist(3.0f32));

    r.model::<LinearSearch>("nn_selector_linear", NN, &["LinearSearch"], Some((Kind::Claim, false)), |_| LinearSearch::new(), fp_selector::<LinearSearch>, Some(|a, b| a == b));
    r.model::<KdTree>("nn_selector_kdtree", NN, &["KdTree"], Some((Kind::Claim, false)), |_| KdTree::new(), fp_selector::<KdTree>, Some(|a, b| a == b));
    r.model::<BallTree>("nn_selector_balltree", NN, &["BallTree"], Some((Kind::Claim, false)), |_| BallTree::new(), fp_selector::<BallTree>, Some(|a, b| a == b));
    r.model::<CommonNearestNeighbour>(
        "nn_selector_common_linear",
        NN,
        &["CommonNearestNeighbour"],
        None,
        |_| CommonNearestNeighbour::LinearSearch,
        fp_selector::<CommonNearestNeighbour>,
        Some(|a, b| a == b),
    );
    r.model::<CommonNearestNeighbour>(
        "nn_selector_common_kdtree",
        NN,
        &["CommonNearestNeighbour"],
        None,
        |_| CommonNearestNeighbour::KdTree,
        fp_selector::<CommonNearestNeighbour>,
        Some(|a, b| a == b),
    );
    r.model::<CommonNearestNeighbour>(
        "nn_selector_common_balltree",
        NN,
        &["CommonNearestNeighbour"],
        None,
        |_| CommonNearestNeighbour::BallTree,
        fp_selector::<CommonNearestNeighbour>,
        Some(|a, b| a == b),
    );
    r.model::<L1Dist>("nn_metric_l1", NN, &["L1Dist"], Some((Kind::Claim, false)), |_| L1Dist, fp_metric::<L1Dist>, Some(|a, b| a == b));
    r.model::<L2Dist>("nn_metric_l2", NN, &["L2Dist"], Some((Kind::Claim, false)), |_| L2Dist, fp_metric::<L2Dist>, Some(|a, b| a == b));
    r.model::<LInfDist>("nn_metric_linf", NN, &["LInfDist"], Some((Kind::Claim, false)), |_| LInfDist, fp_metric::<LInfDist>, Some(|a, b| a == b));
    r.model::<LpDist<f64>>(
        "nn_metric_lp",
        NN,
        &["LpDist"],
        Some((Kind::Claim, false)),
        |p| LpDist::new([1.5, 3.0, 2.5, 4.0, 1.0 / 3.0 + 1.0][(p.seed % 5) as usize]),
        |v, p, f| {
            f.one("p", v.0);
            fp_metric(v, p, f)
        },
        Some(|a, b| a == b),
    );
    r.model::<LpDist<f32>>("nn_metric_lp_f32", NN, &["LpDist"], None, |p| LpDist::new([1.5f32, 3.0, 0.1 + 2.0][(p.seed % 3) as usize]), fp_metric32, Some(|a, b| a == b));
}

// ---------------------------------------------------------------------------------------------
// kernel matrices
// ---------------------------------------------------------------------------------------------

fn kernel_dims(p: &P) -> (usize, usize, usize) {
    // rows, dims, k of the sparse variant
    p.pick((10, 2, 2), (80, 2, 5), (320, 3, 8))
}
fn kernel_train(p: &P) -> Array2<f64> {
    let (n, d, _) = kernel_dims(p);
    lattice(&mut p.rng(61), n, d, 4)
}
fn kernel_rhs(p: &P, n: usize) -> Array2<f64> {
    let mut r = p.rng(62);
    Array2::from_shape_fn((n, 3), |(_, j)| if j == 0 { 1.0 } else { r.normal() })
}

fn fp_kernel<F: Float + Bits, K1: Inner<Elem = F>, K2: Inner<Elem = F>>(tag: &str, k: &KernelBase<K1, K2>, rhs: &Array2<F>, f: &mut Fingerprint) {
    let n = k.size();
    f.one(&format!("{tag}size"), n);
    f.one(&format!("{tag}is_linear"), k.is_linear());
    f.one(&format!("{tag}nsamples"), k.nsamples());
    f.one(&format!("{tag}nfeatures"), k.nfeatures());
    f.arr(&format!("{tag}diagonal"), &k.diagonal());
    f.arr(&format!("{tag}sum"), &k.sum());
    for i in [0, n / 2, n - 1] {
        f.seq(&format!("{tag}column{i}"), k.column(i));
    }
    f.arr(&format!("{tag}dot"), &k.dot(&rhs.view()));
    f.seq(&format!("{tag}upper_triangle"), k.to_upper_triangle());
}

fn fp_kernel_owned<F: Float + Bits>(tag: &str, k: &Kernel<F>, rhs: &Array2<F>, f: &mut Fingerprint) {
    fp_kernel(tag, k, rhs, f);
    match &k.inner {
        KernelInner::Dense(a) => f.arr(&format!("{tag}inner.dense"), a),
        KernelInner::Sparse(m) => {
            f.seq(&format!("{tag}inner.indptr"), m.indptr().raw_storage().to_vec());
            f.seq(&format!("{tag}inner.indices"), m.indices().to_vec());
            f.seq(&format!("{tag}inner.data"), m.data().to_vec());
        }
    }
    // the borrowed form must show the same matrix, and survive to_owned
    let view = k.view();
    let mut a = Fingerprint::new();
    let mut b = Fingerprint::new();
    fp_kernel("", k, rhs, &mut a);
    fp_kernel("", &view, rhs, &mut b);
    f.one(&format!("{tag}view_same"), a == b);
    f.one(&format!("{tag}view_to_owned_eq"), view.to_owned() == *k);
}

fn kernel_methods() -> [(&'static str, KernelMethod<f64>); 3] {
    [("linear", KernelMethod::Linear), ("gaussian", KernelMethod::Gaussian(3.0)), ("poly", KernelMethod::Polynomial(1.0, 3.0))]
}

fn kernel_run<N: NearestNeighbour + Clone>(method: KernelMethod<f64>, kind: KernelType, nn: N, p: &P) -> Fingerprint {
    let mut f = Fingerprint::new();
    let x = kernel_train(p);
    let rhs = kernel_rhs(p, x.nrows());
    let params = Kernel::<f64>::params_with_nn(nn).method(method).kind(kind);
    let k: Kernel<f64> = params.transform(&x);
    fp_kernel_owned("", &k, &rhs, &mut f);
    f
}

/// defaults (Gaussian(0.5), dense, k-d tree) and all calling forms of `transform`
fn kernel_forms(p: &P) -> Fingerprint {
    let mut f = Fingerprint::new();
    let x = kernel_train(p);
    let (_, _, k) = kernel_dims(p);
    let rhs = kernel_rhs(p, x.nrows());
    let dflt: Kernel<f64> = Kernel::<f64>::params().transform(&x);
    fp_kernel_owned("default.", &dflt, &rhs, &mut f);
    let params = Kernel::<f64>::params().kind(KernelType::Sparse(k)).method(KernelMethod::Gaussian(2.0));
    let reference: Kernel<f64> = params.transform(&x);
    fp_kernel_owned("sparse.", &reference, &rhs, &mut f);
    let by_view: Kernel<f64> = params.transform(x.view());
    f.one("form_view_eq", by_view == reference);
    let v = x.view();
    let by_view_ref: Kernel<f64> = params.transform(&v);
    f.one("form_view_ref_eq", by_view_ref == reference);
    let y = Array1::from_shape_fn(x.nrows(), |i| i % 3);
    let ds = DatasetBase::new(x.clone(), y.clone());
    let by_ds_ref = params.transform(&ds);
    f.one("form_dataset_ref_eq", *by_ds_ref.records() == reference);
    f.arr("form_dataset_ref_targets", by_ds_ref.targets());
    let dsv = DatasetBase::new(x.view(), y.clone());
    let by_dsv_ref = params.transform(&dsv);
    f.one("form_dataset_view_ref_eq", *by_dsv_ref.records() == reference);
    let by_ds = params.transform(ds);
    f.one("form_dataset_eq", *by_ds.records() == reference);
    f.arr("form_dataset_targets", by_ds.targets());
    let built = Kernel::new(x.view(), &params);
    f.one("form_new_eq", built == reference);
    f
}

fn kernel_f32(p: &P) -> Fingerprint {
    let mut f = Fingerprint::new();
    let x = data::to_f32(&kernel_train(p));
    let (_, _, k) = kernel_dims(p);
    let rhs = data::to_f32(&kernel_rhs(p, x.nrows()));
    for (tag, kind) in [("dense.", KernelType::Dense), ("sparse.", KernelType::Sparse(k))] {
        let kern: Kernel<f32> = Kernel::<f32>::params_with_nn(BallTree).method(KernelMethod::Gaussian(3.0)).kind(kind).transform(&x);
        fp_kernel_owned(tag, &kern, &rhs, &mut f);
    }
    f
}

fn fp_kernel_method(v: &KernelMethod<f64>, p: &P, f: &mut Fingerprint) {
    f.text("debug", &format!("{v:?}"));
    f.one("is_linear", v.is_linear());
    let x = kernel_train(p);
    let n = x.nrows();
    f.seq("distance", (0..n.min(16)).map(|i| v.distance(x.row(i), x.row((i * 5 + 1) % n))).collect::<Vec<f64>>());
    let rhs = kernel_rhs(p, n);
    let (_, _, k) = kernel_dims(p);
    let dense: Kernel<f64> = Kernel::<f64>::params().method(v.clone()).transform(&x);
    fp_kernel_owned("dense.", &dense, &rhs, f);
    let sparse: Kernel<f64> = Kernel::<f64>::params().method(v.clone()).kind(KernelType::Sparse(k)).transform(&x);
    fp_kernel_owned("sparse.", &sparse, &rhs, f);
}
fn fp_kernel_method32(v: &KernelMethod<f32>, p: &P, f: &mut Fingerprint) {
    f.text("debug", &format!("{v:?}"));
    let x = data::to_f32(&kernel_train(p));
    let rhs = data::to_f32(&kernel_rhs(p, x.nrows()));
    let dense: Kernel<f32> = Kernel::<f32>::params().method(v.clone()).transform(&x);
    fp_kernel_owned("dense.", &dense, &rhs, f);
}

fn register_kernel(r: &mut Registry) {
    for (mname, method) in kernel_methods() {
        let m = method.clone();
        r.scenario(&format!("kernel_dense_{mname}"), KE, Kind::Claim, false, move |p| kernel_run(m.clone(), KernelType::Dense, CommonNearestNeighbour::KdTree, p));
        for (nname, nn) in [("linear", CommonNearestNeighbour::LinearSearch), ("kdtree", CommonNearestNeighbour::KdTree), ("balltree", CommonNearestNeighbour::BallTree)] {
            let m = method.clone();
            r.scenario(&format!("kernel_sparse_{mname}_{nname}"), KE, Kind::Claim, false, move |p| {
                let (_, _, k) = kernel_dims(p);
                kernel_run(m.clone(), KernelType::Sparse(k), nn.clone(), p)
            });
        }
    }
    r.scenario("kernel_sparse_k1_typed_kdtree", KE, Kind::Claim, false, |p| kernel_run(KernelMethod::Gaussian(1.0), KernelType::Sparse(1), KdTree, p));
    r.scenario("kernel_sparse_kmax_typed_linear", KE, Kind::Claim, false, |p| {
        let (n, _, _) = kernel_dims(p);
        kernel_run(KernelMethod::Linear, KernelType::Sparse(n.min(40) - 1), LinearSearch, p)
    });
    r.scenario("kernel_forms", KE, Kind::Claim, false, kernel_forms);
    r.scenario("kernel_f32", KE, Kind::Claim, false, kernel_f32);
    const T: &[&str] = &["KernelMethod"];
    r.model::<KernelMethod<f64>>("kernel_method_linear", KE, T, None, |_| KernelMethod::Linear, fp_kernel_method, Some(|a, b| a == b));
    r.model::<KernelMethod<f64>>("kernel_method_gaussian", KE, T, None, |p| KernelMethod::Gaussian(0.5 + (p.seed % 1000) as f64 / 3.0), fp_kernel_method, Some(|a, b| a == b));
    r.model::<KernelMethod<f64>>(
        "kernel_method_polynomial",
        KE,
        T,
        None,
        |p| KernelMethod::Polynomial(0.1 * (p.seed % 1000) as f64, 2.0 + (p.seed % 3) as f64 / 2.0),
        fp_kernel_method,
        Some(|a, b| a == b),
    );
    // parameter combinations that make one variant compute what another one computes (a
    // polynomial kernel of degree one without constant IS the linear kernel): still two values
    r.model::<KernelMethod<f64>>("kernel_method_polynomial_c0_d1", KE, T, None, |_| KernelMethod::Polynomial(0.0, 1.0), fp_kernel_method, Some(|a, b| a == b));
    r.model::<KernelMethod<f64>>("kernel_method_polynomial_c1_d0", KE, T, None, |_| KernelMethod::Polynomial(1.0, 0.0), fp_kernel_method, Some(|a, b| a == b));
    r.model::<KernelMethod<f32>>("kernel_method_polynomial_c0_d1_f32", KE, T, None, |_| KernelMethod::Polynomial(0.0, 1.0), fp_kernel_method32, Some(|a, b| a == b));
    r.model::<KernelMethod<f64>>("kernel_method_gaussian_eps_inf", KE, T, None, |_| KernelMethod::Gaussian(f64::INFINITY), fp_kernel_method, Some(|a, b| a == b));
    r.model::<KernelMethod<f32>>("kernel_method_gaussian_f32", KE, T, None, |p| KernelMethod::Gaussian(0.7 + (p.seed % 1000) as f32 / 3.0), fp_kernel_method32, Some(|a, b| a == b));
}

pub fn register(r: &mut Registry) {
    register_gmm(r);
    register_dbscan(r);
    register_optics(r);
    register_hier(r);
    register_nn(r);
    register_kernel(r);
}
