//! A few estimators on data large enough (thousands of rows, whatever the size class) that a
//! contributor's block-wise / chunked parallelisation would actually split — by thread count,
//! by CPU count (`available_parallelism`, affinity mask) or by a fixed block length.  The
//! other modules keep data small for speed; these exist for the environment dimensions that
//! only matter past a size threshold.

use crate::fp::Fingerprint;
use crate::prng::Prng;
use crate::scen::{Kind, Registry, P};
use linfa::prelude::*;
use linfa::Dataset;
use ndarray::{Array1, Array2};

fn xy(p: &P, n: usize, d: usize) -> (Array2<f64>, Array1<f64>, Array1<bool>, Array1<usize>) {
    let mut r: Prng = p.rng(0xB16);
    let mut x = Array2::<f64>::zeros((n, d));
    let mut y = Array1::<f64>::zeros(n);
    let mut yb = Array1::from_elem(n, false);
    let mut yc = Array1::<usize>::zeros(n);
    for i in 0..n {
        let c = i % 3;
        let mut s = 0.0;
        for j in 0..d {
            let v = r.normal() * (1.0 + j as f64) + (c * (j + 1)) as f64 * 0.7;
            x[[i, j]] = v;
            s += v * ((j % 3) as f64 - 0.8);
        }
        y[i] = s + 0.3 * r.normal();
        yb[i] = s + r.normal() > 0.0;
        yc[i] = c;
    }
    (x, y, yb, yc)
}

fn queries(x: &Array2<f64>) -> Array2<f64> {
    x.slice(ndarray::s![0..64;7, ..]).to_owned()
}

pub fn register(r: &mut Registry) {
    r.scenario("big_logistic_binary", "linfa-logistic", Kind::Claim, false, |p| {
        let (x, _, yb, _) = xy(p, 9000 + (p.seed % 700) as usize, 4);
        let mut f = Fingerprint::new();
        match linfa_logistic::LogisticRegression::default().max_iterations(12).fit(&Dataset::new(x.clone(), yb)) {
            Ok(m) => {
                f.arr("params", m.params());
                f.one("intercept", m.intercept());
                f.arr("proba", &m.predict_probabilities(&queries(&x)));
            }
            Err(e) => f.err("fit", &e),
        }
        f
    });
    r.scenario("big_logistic_multi", "linfa-logistic", Kind::Claim, false, |p| {
        let (x, _, _, yc) = xy(p, 8500 + (p.seed % 500) as usize, 3);
        let mut f = Fingerprint::new();
        match linfa_logistic::MultiLogisticRegression::default().max_iterations(8).fit(&Dataset::new(x.clone(), yc)) {
            Ok(m) => {
                f.arr("params", m.params());
                f.arr("intercept", m.intercept());
                f.arr("predict", &m.predict(&queries(&x)));
            }
            Err(e) => f.err("fit", &e),
        }
        f
    });
    r.scenario("big_ols", "linfa-linear", Kind::Claim, false, |p| {
        let (x, y, _, _) = xy(p, 10000 + (p.seed % 900) as usize, 5);
        let mut f = Fingerprint::new();
        match linfa_linear::LinearRegression::default().fit(&Dataset::new(x.clone(), y)) {
            Ok(m) => {
                f.arr("params", m.params());
                f.one("intercept", m.intercept());
                f.arr("predict", &m.predict(&queries(&x)));
            }
            Err(e) => f.err("fit", &e),
        }
        f
    });
    r.scenario("big_elasticnet", "linfa-elasticnet", Kind::Claim, false, |p| {
        let (x, y, _, _) = xy(p, 9000 + (p.seed % 900) as usize, 5);
        let mut f = Fingerprint::new();
        match linfa_elasticnet::ElasticNet::params().penalty(0.1).l1_ratio(0.5).max_iterations(30).fit(&Dataset::new(x.clone(), y)) {
            Ok(m) => {
                f.arr("hyperplane", m.hyperplane());
                f.one("intercept", m.intercept());
                f.one("duality_gap", m.duality_gap());
                f.arr("predict", &m.predict(&queries(&x)));
            }
            Err(e) => f.err("fit", &e),
        }
        f
    });
    r.scenario("big_gaussian_nb", "linfa-bayes", Kind::Claim, false, |p| {
        let (x, _, _, yc) = xy(p, 9000 + (p.seed % 900) as usize, 4);
        let mut f = Fingerprint::new();
        match linfa_bayes::GaussianNb::<f64, usize>::params().fit(&Dataset::new(x.clone(), yc)) {
            Ok(m) => {
                f.arr("predict", &m.predict(&x));
                f.text("state", &serde_json::to_value(&m).map(|v| v.to_string()).unwrap_or_default());
            }
            Err(e) => f.err("fit", &e),
        }
        f
    });
    r.scenario("big_gmm", "linfa-clustering", Kind::Claim, true, |p| {
        let (x, _, _, _) = xy(p, 1400 + (p.seed % 300) as usize, 3);
        let mut f = Fingerprint::new();
        match linfa_clustering::GaussianMixtureModel::params(3).max_n_iterations(4).n_runs(1).fit(&Dataset::from(x.clone())) {
            Ok(m) => {
                f.arr("weights", m.weights());
                f.arr("means", m.means());
                f.arr("predict", &m.predict(&queries(&x)));
            }
            Err(e) => f.err("fit", &e),
        }
        f
    });
    r.scenario("big_kmeans", "linfa-clustering", Kind::Claim, true, |p| {
        let (x, _, _, _) = xy(p, 5000 + (p.seed % 300) as usize, 3);
        let mut f = Fingerprint::new();
        match linfa_clustering::KMeans::params(4).max_n_iterations(6).n_runs(1).fit(&Dataset::from(x.clone())) {
            Ok(m) => {
                f.arr("centroids", m.centroids());
                f.one("inertia", m.inertia());
                f.arr("predict", &m.predict(&x));
                f.arr("transform", &m.transform(&x));
            }
            Err(e) => f.err("fit", &e),
        }
        f
    });
    // rows of a dozen features: vectorised / blocked distance code has a head, a body and a tail
    r.scenario("big_kernel_gaussian_wide", "linfa-kernel", Kind::Claim, false, |p| {
        let (x, _, _, _) = xy(p, 60 + (p.seed % 9) as usize, 11 + (p.seed % 3) as usize);
        let mut f = Fingerprint::new();
        let k = linfa_kernel::Kernel::params().method(linfa_kernel::KernelMethod::Gaussian(40.0)).kind(linfa_kernel::KernelType::Dense).transform(x.view());
        f.arr("diagonal", &k.diagonal());
        f.arr("sum", &k.sum());
        f.arr("column3", &Array1::from(k.column(3)));
        let k2 = linfa_kernel::Kernel::params().method(linfa_kernel::KernelMethod::Polynomial(1.0, 3.0)).kind(linfa_kernel::KernelType::Dense).transform(x.view());
        f.arr("poly_sum", &k2.sum());
        f
    });
    r.scenario("big_svm_gaussian_wide", "linfa-svm", Kind::Claim, false, |p| {
        let (x, _, yb, _) = xy(p, 120 + (p.seed % 20) as usize, 12);
        let mut f = Fingerprint::new();
        match linfa_svm::Svm::<f64, bool>::params().gaussian_kernel(60.0).pos_neg_weights(1.0, 1.0).fit(&Dataset::new(x.clone(), yb)) {
            Ok(m) => {
                f.arr("alpha", &Array1::from(m.alpha.clone()));
                f.one("rho", m.rho);
                f.arr("predict", &m.predict(&queries(&x)));
            }
            Err(e) => f.err("fit", &e),
        }
        f
    });
    r.scenario("big_dbscan", "linfa-clustering", Kind::Claim, false, |p| {
        // several clusters spread over the whole row range, bridges between them
        let n = 4400 + (p.seed % 300) as usize;
        let mut rr: Prng = p.rng(0xDB5);
        let x = Array2::from_shape_fn((n, 2), |(i, j)| {
            let c = (i * 7 / n) as f64;
            if j == 0 {
                c * 3.0 + 0.35 * rr.normal()
            } else {
                (c as usize % 2) as f64 * 2.5 + 0.35 * rr.normal()
            }
        });
        let mut f = Fingerprint::new();
        use linfa::traits::Transformer;
        match linfa_clustering::Dbscan::params(6).tolerance(0.22).check() {
            Ok(prm) => {
                let labels = prm.transform(&x);
                f.seq("labels", labels.iter().map(|l| l.map(|v| v as u64 + 1).unwrap_or(0)));
            }
            Err(e) => f.err("params", &e),
        }
        f
    });
    r.scenario("big_scaler_standard", "linfa-preprocessing", Kind::Claim, false, |p| {
        let n = 33000 + (p.seed % 500) as usize;
        let mut rr: Prng = p.rng(0x5CA);
        let x = Array2::from_shape_fn((n, 3), |(i, j)| rr.normal() * (1.0 + j as f64) + 1e3 * (j as f64) + (i % 5) as f64 * 0.01);
        let mut f = Fingerprint::new();
        for (name, prm) in [("standard", linfa_preprocessing::linear_scaling::LinearScaler::standard()), ("minmax", linfa_preprocessing::linear_scaling::LinearScaler::min_max()), ("maxabs", linfa_preprocessing::linear_scaling::LinearScaler::max_abs())] {
            match prm.fit(&Dataset::from(x.clone())) {
                Ok(m) => {
                    f.arr(&format!("{name}_offsets"), m.offsets());
                    f.arr(&format!("{name}_scales"), m.scales());
                    use linfa::traits::Transformer;
                    let t = m.transform(x.slice(ndarray::s![0..50;3, ..]).to_owned());
                    f.arr(&format!("{name}_transform"), &t);
                }
                Err(e) => f.err(name, &e),
            }
        }
        f
    });
    r.scenario("big_svm_linear", "linfa-svm", Kind::Claim, false, |p| {
        let (x, _, yb, _) = xy(p, 600 + (p.seed % 50) as usize, 3);
        let mut f = Fingerprint::new();
        match linfa_svm::Svm::<f64, bool>::params().linear_kernel().pos_neg_weights(1.0, 1.0).fit(&Dataset::new(x.clone(), yb)) {
            Ok(m) => {
                f.arr("predict", &m.predict(&queries(&x)));
                f.one("nsupport", m.nsupport());
            }
            Err(e) => f.err("fit", &e),
        }
        f
    });
}
