//! Seam self-test (known answers) and simulator determinism test.  Any failure
//! here is a harness error (exit 2), never a VIOLATION.

use crate::env::{run_sim, Context, Env};
use crate::fp::Fingerprint;
use crate::prng::Prng;
use rayon::prelude::*;

fn probe() -> Fingerprint {
    let mut f = Fingerprint::new();
    // float reduction whose association follows the split tree
    let mut r = Prng::new(5);
    let v: Vec<f64> = (0..4096).map(|_| (r.unit() - 0.5) * 10f64.powi((r.below(12) as i32) - 6)).collect();
    let s: f64 = v.par_iter().sum();
    f.one("parsum", s);
    let mut hm = std::collections::HashMap::new();
    for i in 0..24u32 {
        hm.insert(i, ());
    }
    f.seq("hashorder", hm.keys().copied());
    use rand::Rng;
    f.one("thread_rng", rand::thread_rng().gen::<u64>());
    use rand::SeedableRng;
    f.one("from_entropy", rand::rngs::SmallRng::from_entropy().gen::<u64>());
    let t0 = std::time::Instant::now();
    f.one("clock", t0.elapsed().as_nanos() as u64);
    // which worker ran which leaf
    let ids: Vec<usize> = (0..64usize).into_par_iter().map(|_| rayon::current_thread_index().unwrap_or(999)).collect();
    f.seq("leaf_workers", ids);
    f.text("envvar", &std::env::var("RAYON_NUM_THREADS").unwrap_or_default());
    // a name nobody has heard of: every variable the code asks for is a seam
    f.text("envvar_unknown_name", &format!("{:?}|{:?}", std::env::var("LINFA_SIM_PROBE_A"), std::env::var("SOME_OTHER_DEFAULT_B")));
    f.one("available_parallelism", std::thread::available_parallelism().map(|n| n.get()).unwrap_or(0));
    // threads the workload spawns itself: their simulated identity (entropy) is a function of the
    // environment; their arrival order is perturbed by seeded start-up delays
    let (tx, rx) = std::sync::mpsc::channel();
    std::thread::scope(|s| {
        for i in 0..4u64 {
            let tx = tx.clone();
            s.spawn(move || {
                let e: u64 = rand::thread_rng().gen();
                tx.send((i, e)).unwrap();
            });
        }
    });
    drop(tx);
    let got: Vec<(u64, u64)> = rx.iter().collect();
    let mut by_thread = got.clone();
    by_thread.sort();
    f.seq("foreign_thread_entropy", by_thread.iter().map(|x| x.1));
    // (the arrival order itself is under the OS scheduler's control and is not fingerprinted)
    // combinators whose RESULT depends on shared state (preemption points in the vendored rayon)
    let order: Vec<u32> = (0..96u32).par_bridge().collect();
    f.seq("par_bridge_order", order);
    f.one("find_any", (0..4096u32).into_par_iter().find_any(|x| x % 97 == 13));
    f
}

fn field(f: &Fingerprint, name: &str) -> u64 {
    f.fields.iter().find(|x| x.name == name).map(|x| x.hash).unwrap_or(0)
}

fn fail(msg: &str) -> ! {
    crate::report::harness_error(&format!("selftest: {msg}"))
}

fn scheduler_semantics() {
    let e = Env { threads: 4, policy: "chaos".into(), sched_seed: 9, ..Env::reference() };
    // join results, nested joins, panics surfacing at the join, scopes
    let o = run_sim(&e, || {
        fn fib(n: u64) -> u64 {
            if n < 2 {
                return n;
            }
            let (a, b) = rayon::join(|| fib(n - 1), || fib(n - 2));
            a + b
        }
        let f = fib(16);
        let caught = std::panic::catch_unwind(|| {
            rayon::join(|| 1, || -> i32 { panic!("boom-b") });
        })
        .is_err();
        let caught_a = std::panic::catch_unwind(|| {
            rayon::join(|| -> i32 { panic!("boom-a") }, || 2);
        })
        .is_err();
        let counter = std::sync::atomic::AtomicUsize::new(0);
        rayon::scope(|s| {
            for _ in 0..20 {
                s.spawn(|s2| {
                    counter.fetch_add(1, std::sync::atomic::Ordering::SeqCst);
                    s2.spawn(|_| {
                        counter.fetch_add(1, std::sync::atomic::Ordering::SeqCst);
                    });
                });
            }
        });
        let pool = rayon::ThreadPoolBuilder::new().num_threads(3).build().unwrap();
        let inner = pool.install(|| (rayon::current_num_threads(), (0..100u64).into_par_iter().sum::<u64>()));
        let b = rayon::broadcast(|c| c.index());
        (f, caught, caught_a, counter.into_inner(), inner, b, rayon::current_num_threads())
    });
    let r = o.results.unwrap_or_else(|e| fail(&format!("scheduler semantics run panicked: {e}")));
    let (f, cb, ca, cnt, inner, b, nt) = r[0].clone();
    if f != 987 || !cb || !ca || cnt != 40 || inner != (3, 4950) || b != vec![0, 1, 2, 3] || nt != 4 {
        fail(&format!("simulated rayon-core semantics wrong: fib={f} panic_b={cb} panic_a={ca} scope_count={cnt} inner={inner:?} broadcast={b:?} nthreads={nt}"));
    }
    if o.stats.steals == 0 || o.stats.workers_used < 2 {
        fail("chaos policy on 4 workers produced no steal");
    }
}

pub fn run() -> i32 {
    // a simulated process is single-token: one core makes hand-offs cheap
    crate::driver::pin_to_core(std::process::id() as usize);
    let r = run_pinned();
    crate::driver::unpin();
    r
}

fn run_pinned() -> i32 {
    let t0 = crate::seams::real_now_s();
    scheduler_semantics();
    let e0 = Env::reference();
    let base = run_sim(&e0, probe).results.unwrap_or_else(|e| fail(&e)).remove(0);
    let again = run_sim(&e0, probe).results.unwrap_or_else(|e| fail(&e)).remove(0);
    if base != again {
        fail(&format!("reference environment is not reproducible: {:?}", base.first_diff(&again)));
    }
    // entropy seam live: hash order, thread_rng, from_entropy follow the entropy seed and nothing else
    let ee = run_sim(&Env { entropy_seed: 1, ..Env::reference() }, probe).results.unwrap().remove(0);
    for n in ["hashorder", "thread_rng", "from_entropy", "foreign_thread_entropy"] {
        if field(&base, n) == field(&ee, n) {
            fail(&format!("entropy seam not live: `{n}` did not change with the entropy seed"));
        }
    }
    for n in ["parsum", "clock", "leaf_workers", "par_bridge_order", "find_any", "envvar", "envvar_unknown_name", "available_parallelism"] {
        if field(&base, n) != field(&ee, n) {
            fail(&format!("`{n}` changed with the entropy seed alone"));
        }
    }
    // environment-variable and CPU-count dimensions live
    let ev = run_sim(&Env { envvars_seed: 99, ..Env::reference() }, probe).results.unwrap().remove(0);
    let ev2 = run_sim(&Env { envvars_seed: 12345, ..Env::reference() }, probe).results.unwrap().remove(0);
    if field(&base, "envvar_unknown_name") == field(&ev, "envvar_unknown_name") && field(&base, "envvar_unknown_name") == field(&ev2, "envvar_unknown_name") {
        fail("environment seam not live for arbitrary variable names (getenv interposition)");
    }
    if field(&base, "envvar") == field(&ev, "envvar") || field(&base, "hashorder") != field(&ev, "hashorder") {
        fail("environment-variable dimension not live (or leaking into other seams)");
    }
    let ecpu = run_sim(&Env { cpus: 3, ..Env::reference() }, probe).results.unwrap().remove(0);
    let ncpu = unsafe { libc::sysconf(libc::_SC_NPROCESSORS_ONLN) };
    if ncpu >= 3 && field(&base, "available_parallelism") == field(&ecpu, "available_parallelism") {
        fail("CPU-count dimension not live: available_parallelism() did not follow the affinity mask");
    }
    // clock seam live
    let ec = run_sim(&Env { clock_seed: 1, ..Env::reference() }, probe).results.unwrap().remove(0);
    if field(&base, "clock") == field(&ec, "clock") {
        fail("clock seam not live: Instant::now() did not follow the clock seed");
    }
    if field(&base, "hashorder") != field(&ec, "hashorder") {
        fail("hash order changed with the clock seed");
    }
    // scheduler seam live: reduction shape and leaf placement follow pool size / steals
    let es = Env { threads: 4, policy: "eager-steal".into(), sched_seed: 1, ..Env::reference() };
    let os = run_sim(&es, probe);
    let fs = os.results.unwrap().remove(0);
    if os.stats.steals == 0 || field(&base, "leaf_workers") == field(&fs, "leaf_workers") {
        fail("scheduler seam not live: no steal / leaves all ran on one worker");
    }
    let ech = Env { threads: 4, policy: "chaos".into(), sched_seed: 3, ..Env::reference() };
    let fch = run_sim(&ech, probe).results.unwrap().remove(0);
    if field(&base, "par_bridge_order") == field(&fch, "par_bridge_order") {
        fail("preemption points not live: par_bridge().collect() gave the same order on 1 worker and on 4 chaotic workers");
    }
    if field(&base, "parsum") == field(&fs, "parsum") {
        fail("control: a parallel float sum did not change its bits between 1 and 4 simulated workers");
    }
    // determinism of the simulator itself + replay from the recorded choice list
    let mut runs = 0;
    for seed in 0..24u64 {
        let e = Env {
            threads: [2, 3, 5, 8, 16][(seed % 5) as usize],
            policy: ["chaos", "eager-steal", "late-steal", "random:0.3", "switchy"][(seed / 5 % 5) as usize].into(),
            sched_seed: seed,
            entropy_seed: seed * 7 + 1,
            clock_seed: seed * 3,
            context: [Context::External, Context::InWorker, Context::Siblings, Context::Warm][(seed % 4) as usize],
            cpus: 1 + (seed % 3) as usize,
            envvars_seed: seed % 2 * (seed + 1),
            heap_seed: seed % 3,
            replay: None,
        };
        let a = run_sim(&e, probe);
        let b = run_sim(&e, probe);
        let (fa, fb) = (a.results.unwrap(), b.results.unwrap());
        if fa != fb || a.stats.sched_hash != b.stats.sched_hash || a.choices != b.choices || a.stats.entropy_bytes != b.stats.entropy_bytes || a.stats.clock_reads != b.stats.clock_reads {
            fail(&format!("same seed, different execution ({})", e.describe()));
        }
        let er = Env { replay: Some(a.choices.clone()), policy: "sequential".into(), sched_seed: 999, ..e.clone() };
        let c = run_sim(&er, probe);
        if c.results.unwrap() != fa || c.stats.sched_hash != a.stats.sched_hash {
            fail(&format!("replay of the recorded choice list did not reproduce the execution ({})", e.describe()));
        }
        runs += 3;
    }
    println!("selftest ok: seams live, scheduler semantics ok, {runs} determinism/replay runs, {:.2}s", crate::seams::real_now_s() - t0);
    0
}
