//! A simulated process environment and the function that runs a workload in it.

use crate::seams::{self, SeamCounters};
use rayon_core::sim::{self, Config, Policy, Trace};
use serde::{Deserialize, Serialize};
use std::panic::{self, AssertUnwindSafe};
use std::sync::Mutex;

#[derive(Clone, Copy, Debug, Serialize, Deserialize, PartialEq, Eq, Hash)]
pub enum Context {
    /// called from a thread outside the pool (rayon's injected / cold path)
    External,
    /// called from inside a worker
    InWorker,
    /// two sibling tasks of a user-level `rayon::scope` run the workload at once
    Siblings,
    /// "run after run on the same thread": a warm-up workload (the same scenario on
    /// different data) runs first on the caller thread and the same pool, then the real
    /// one — thread-local and process-global state left behind by an earlier fit must not
    /// reach a later one
    Warm,
}

#[derive(Clone, Debug, Serialize, Deserialize, PartialEq)]
pub struct Env {
    pub threads: usize,
    pub policy: String,
    pub sched_seed: u64,
    pub entropy_seed: u64,
    pub clock_seed: u64,
    pub context: Context,
    /// number of CPUs in the process' affinity mask (what `available_parallelism()` and
    /// num_cpus report); the reference has 1
    #[serde(default = "one")]
    pub cpus: usize,
    /// seed for the process environment variables a library might consult (thread-count
    /// hints, locale, time zone, home, user, terminal width, log level); 0 = untouched
    #[serde(default)]
    pub envvars_seed: u64,
    /// seed for a handful of small heap blocks the caller thread allocates (and keeps) before the
    /// workload starts: shifts the 16/32/64-byte phase and the addresses of everything the
    /// workload allocates afterwards; 0 = none
    #[serde(default)]
    pub heap_seed: u64,
    /// when present the scheduler follows this list instead of policy + PRNG
    #[serde(default)]
    pub replay: Option<Vec<(u64, u32)>>,
}

fn one() -> usize {
    1
}

impl Env {
    /// the reference environment env0
    pub fn reference() -> Env {
        Env {
            threads: 1,
            policy: "sequential".into(),
            sched_seed: 0,
            entropy_seed: 0,
            clock_seed: 0,
            context: Context::External,
            cpus: 1,
            envvars_seed: 0,
            heap_seed: 0,
            replay: None,
        }
    }
    pub fn describe(&self) -> String {
        format!(
            "T={} cpus={} envvars={} heap={} policy={} sched={} entropy={} clock={} ctx={:?}{}",
            self.threads,
            self.cpus,
            self.envvars_seed,
            self.heap_seed,
            self.policy,
            self.sched_seed,
            self.entropy_seed,
            self.clock_seed,
            self.context,
            if self.replay.is_some() { " (replay)" } else { "" }
        )
    }
}

#[derive(Clone, Debug, Default, Serialize, Deserialize)]
pub struct RunStats {
    pub decisions: u64,
    pub nonzero_choices: u64,
    pub max_options: u32,
    pub pushes: u64,
    #[serde(default)]
    pub preempt_points: u64,
    /// threads created by the code under test itself (outside the simulated pool)
    #[serde(default)]
    pub foreign_threads: u64,
    /// injected failures of caller-supplied callbacks (during the warm-up of `Context::Warm`)
    #[serde(default)]
    pub callback_faults: u64,
    pub steals: u64,
    pub injections: u64,
    pub handoffs: u64,
    pub workers_used: usize,
    pub sched_hash: u64,
    pub entropy_calls: u64,
    pub entropy_bytes: u64,
    pub hashkey_draws: u64,
    pub clock_reads: u64,
    pub sim_time_ns: u64,
}

impl RunStats {
    fn from(t: &Trace, c: SeamCounters) -> RunStats {
        RunStats {
            decisions: t.decisions,
            nonzero_choices: t.nonzero.len() as u64,
            max_options: t.max_options,
            pushes: t.pushes,
            preempt_points: t.preempt_points,
            foreign_threads: 0,
            callback_faults: 0,
            steals: t.steals,
            injections: t.injections,
            handoffs: t.handoffs,
            workers_used: t.workers_used(),
            sched_hash: t.sched_hash,
            entropy_calls: c.entropy_calls,
            entropy_bytes: c.entropy_bytes,
            hashkey_draws: c.hashkey_draws,
            clock_reads: c.clock_reads,
            sim_time_ns: c.sim_time_ns,
        }
    }
}

pub struct SimOutcome<R> {
    /// one result per task that ran the workload (two for `Context::Siblings`)
    pub results: Result<Vec<R>, String>,
    pub stats: RunStats,
    pub choices: Vec<(u64, u32)>,
}

static LAST_PANIC: Mutex<String> = Mutex::new(String::new());

pub fn install_panic_hook() {
    let verbose = std::env::var_os("VERIF_VERBOSE").is_some();
    panic::set_hook(Box::new(move |info| {
        let msg = format!("{info}");
        if verbose {
            eprintln!("[panic on simulated thread {}] {msg}", seams::thread_id());
        }
        if let Ok(mut g) = LAST_PANIC.lock() {
            *g = msg;
        }
    }));
}

fn thread_hook(pool: u64, idx: usize) {
    seams::set_thread_id(1000 + pool * 64 + idx as u64);
}

pub fn init() {
    sim::set_thread_start_hook(thread_hook);
}

pub fn parse_policy(s: &str) -> Policy {
    Policy::by_name(s).unwrap_or_else(|| {
        eprintln!("HARNESS ERROR: unknown policy {s}");
        std::process::exit(2)
    })
}

/// Run `f` as one simulated process in environment `env`: fresh caller thread,
/// fresh pool threads (hence fresh thread-locals), fresh entropy and clock
/// streams.  Everything `f` can observe of the environment is a function of `env`.
pub fn run_sim<R: Send>(env: &Env, f: impl Fn() -> R + Sync + Send) -> SimOutcome<R> {
    run_sim_warm(env, || {}, f)
}

/// like [`run_sim`]; `warm` is what `Context::Warm` runs before the workload
pub fn run_sim_warm<R: Send>(env: &Env, warm: impl Fn() + Sync + Send, f: impl Fn() -> R + Sync + Send) -> SimOutcome<R> {
    let cfg = Config {
        threads: env.threads,
        seed: env.sched_seed,
        policy: parse_policy(&env.policy),
        replay: env.replay.clone(),
    };
    seams::begin_process(env.entropy_seed, env.clock_seed);
    // threads created from here on inherit this affinity mask
    crate::driver::set_cpus(env.cpus.max(1));
    let saved_vars = set_env_vars(env.envvars_seed);
    // the application's logging configuration is part of the environment too (what RUST_LOG
    // selects): a no-op logger is installed once per OS process, its level follows the seed
    crate::fault::set_heap_poison(env.heap_seed);
    install_logger();
    log::set_max_level(match env.envvars_seed % 3 {
        0 => log::LevelFilter::Off,
        1 => log::LevelFilter::Debug,
        _ => log::LevelFilter::Trace,
    });
    seams::set_envvars_seed(env.envvars_seed);
    seams::set_foreign_seed(env.sched_seed);
    sim::reset_pool_ids(0);
    sim::set_default_config(cfg.clone());
    sim::install_global(cfg);
    let ctx = env.context;
    let heap_seed = env.heap_seed;
    let results = std::thread::scope(|s| {
        std::thread::Builder::new()
            .name("sim-caller".into())
            .stack_size(64 << 20)
            .spawn_scoped(s, || {
                seams::set_thread_id(1);
                let _ballast = heap_ballast(heap_seed);
                panic::catch_unwind(AssertUnwindSafe(|| match ctx {
                    Context::External => vec![f()],
                    Context::Warm => {
                        // a panic in the warm-up is not the workload's outcome
                        let _ = panic::catch_unwind(AssertUnwindSafe(&warm));
                        vec![f()]
                    }
                    Context::InWorker => vec![rayon::scope(|_| f())],
                    Context::Siblings => {
                        let second: Mutex<Option<R>> = Mutex::new(None);
                        let first = rayon::scope(|s| {
                            s.spawn(|_| {
                                let r = f();
                                *second.lock().unwrap() = Some(r);
                            });
                            f()
                        });
                        vec![first, second.into_inner().unwrap().expect("sibling result")]
                    }
                }))
            })
            .expect("spawn caller")
            .join()
            .expect("caller thread")
    });
    let counters = seams::counters();
    let trace = sim::shutdown_global().expect("global pool");
    crate::driver::set_cpus(1);
    seams::set_envvars_seed(0);
    let foreign_threads = seams::foreign_threads();
    seams::set_foreign_seed(0);
    restore_env_vars(saved_vars);
    log::set_max_level(log::LevelFilter::Off);
    crate::fault::set_heap_poison(0);
    let results = results.map_err(|_| LAST_PANIC.lock().map(|g| g.clone()).unwrap_or_default());
    let mut stats = RunStats::from(&trace, counters);
    stats.foreign_threads = foreign_threads;
    SimOutcome { results, stats, choices: trace.nonzero }
}

/// `run_sim` for a workload that can only run once (consumes captured values);
/// always `Context::External`-style single task, returns the value or the panic text
pub fn run_sim_once<R: Send>(env: &Env, f: impl FnOnce() -> R + Send) -> Result<R, String> {
    let cell = Mutex::new(Some(f));
    let mut e = env.clone();
    if e.context == Context::Siblings || e.context == Context::Warm {
        e.context = Context::InWorker;
    }
    let o = run_sim(&e, || {
        let f = cell.lock().unwrap().take().expect("workload ran twice");
        f()
    });
    o.results.map(|mut v| v.remove(0))
}

struct NoopLogger;
impl log::Log for NoopLogger {
    fn enabled(&self, _: &log::Metadata) -> bool {
        true
    }
    fn log(&self, r: &log::Record) {
        // format the message (side effects in arguments happen), discard it
        let _ = std::hint::black_box(format!("{}", r.args()));
    }
    fn flush(&self) {}
}
static NOOP_LOGGER: NoopLogger = NoopLogger;
fn install_logger() {
    static ONCE: std::sync::Once = std::sync::Once::new();
    ONCE.call_once(|| {
        let _ = log::set_logger(&NOOP_LOGGER);
    });
}

const VARS: &[&str] = &["RAYON_NUM_THREADS", "OMP_NUM_THREADS", "OPENBLAS_NUM_THREADS", "MKL_NUM_THREADS", "LANG", "LC_ALL", "LC_NUMERIC", "TZ", "HOME", "USER", "COLUMNS", "RUST_LOG", "RUST_BACKTRACE"];

/// Set the simulated process' environment variables (no simulated thread exists yet).
fn set_env_vars(seed: u64) -> Vec<(&'static str, Option<std::ffi::OsString>)> {
    if seed == 0 {
        return vec![];
    }
    let mut r = crate::prng::Prng::new(seed ^ 0xE17);
    let saved: Vec<_> = VARS.iter().map(|k| (*k, std::env::var_os(k))).collect();
    for k in VARS {
        let v: Option<String> = match *k {
            "RAYON_NUM_THREADS" | "OMP_NUM_THREADS" | "OPENBLAS_NUM_THREADS" | "MKL_NUM_THREADS" => Some((1 + r.below(32)).to_string()),
            "LANG" | "LC_ALL" | "LC_NUMERIC" => Some(r.pick(&["C", "en_US.UTF-8", "de_DE.UTF-8", "tr_TR.UTF-8", "ja_JP.UTF-8"]).to_string()),
            "TZ" => Some(r.pick(&["UTC", "Asia/Tokyo", "America/New_York", "Europe/Berlin"]).to_string()),
            "HOME" => Some(format!("/nonexistent-home-{}", r.below(1000))),
            "USER" => Some(format!("user{}", r.below(1000))),
            "COLUMNS" => Some((20 + r.below(200)).to_string()),
            "RUST_LOG" => Some(r.pick(&["trace", "debug", "off"]).to_string()),
            "RUST_BACKTRACE" => Some(r.pick(&["0", "1", "full"]).to_string()),
            _ => None,
        };
        // some variables are unset instead
        if r.chance(0.2) {
            std::env::remove_var(k);
        } else if let Some(v) = v {
            std::env::set_var(k, v);
        }
    }
    saved
}

fn restore_env_vars(saved: Vec<(&'static str, Option<std::ffi::OsString>)>) {
    for (k, v) in saved {
        match v {
            Some(v) => std::env::set_var(k, v),
            None => std::env::remove_var(k),
        }
    }
}

/// seeded small allocations kept alive for the duration of a run
fn heap_ballast(seed: u64) -> Vec<Vec<u8>> {
    if seed == 0 {
        return vec![];
    }
    let mut r = crate::prng::Prng::new(seed ^ 0x4EA9);
    let n = 1 + r.below(9) as usize;
    (0..n).map(|_| vec![0u8; 8 + 16 * r.below(13) as usize]).collect()
}
