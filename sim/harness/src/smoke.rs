//! Development aid: run every scenario (sizes S and M, reference environment
//! and one hostile environment, twice) and every C19 entry once, print what
//! differs.  Not a registered check.

use crate::env::{run_sim, Context, Env};
use crate::scen::{C19Cfg, Kind, Size, P};
use crate::{scenarios, seams};

pub fn run(prefix: &str) {
    let reg = scenarios::registry();
    let e0 = Env::reference();
    let e1 = Env { threads: 5, policy: "chaos".into(), sched_seed: 11, entropy_seed: 77, clock_seed: 5, context: Context::InWorker, cpus: 2, envvars_seed: 7, heap_seed: 3, replay: None };
    let e2 = Env { threads: 3, policy: "eager-steal".into(), sched_seed: 4, entropy_seed: 1234567, clock_seed: 9, context: Context::Siblings, cpus: 1, envvars_seed: 0, heap_seed: 0, replay: None };
    let mut bad = 0;
    for s in reg.scenarios.iter().filter(|s| s.name.starts_with(prefix)) {
        for size in [Size::S, Size::M, Size::L] {
            for seed in [1u64, 2] {
                let p = P { seed, size };
                let t = seams::real_now_s();
                let mut digests = Vec::new();
                let mut nfields = 0;
                for e in [&e0, &e0, &e1, &e2] {
                    let o = run_sim(e, || (s.run)(&p));
                    match o.results {
                        Ok(r) => {
                            nfields = r[0].fields.len();
                            if r.len() == 2 && r[0] != r[1] {
                                println!("  !! {} siblings disagree: {:?}", s.name, r[0].first_diff(&r[1]));
                            }
                            digests.push(Ok(r[0].clone()))
                        }
                        Err(m) => digests.push(Err(m)),
                    }
                }
                let dt = seams::real_now_s() - t;
                let refd = &digests[0];
                let mut notes = Vec::new();
                for (i, d) in digests.iter().enumerate() {
                    match (refd, d) {
                        (Ok(a), Ok(b)) => {
                            if let Some((f, x, y)) = a.first_diff(b) {
                                notes.push(format!("env#{i} differs at {f}: {x} vs {y}"));
                            }
                        }
                        (_, Err(m)) => notes.push(format!("env#{i} PANIC: {m}")),
                        (Err(_), Ok(_)) => notes.push(format!("env#{i} ok but reference panicked")),
                    }
                }
                let expect_diff = s.kind != Kind::Claim;
                let status = if notes.is_empty() { "same" } else { "DIFF" };
                if !notes.is_empty() && !expect_diff {
                    bad += 1;
                }
                println!("{:44} {:?} seed={} fields={:3} {:5} [{:.3}s] {:?}", s.name, size, seed, nfields, status, dt, s.kind);
                for n in notes {
                    println!("      {n}");
                }
            }
        }
    }
    for c in reg.c19.iter().filter(|s| s.name.starts_with(prefix)) {
        for seed in [1u64, 2] {
            let p = P { seed, size: Size::S };
            let out = (c.run)(&p, &C19Cfg { env_a: &e1, env_b: &e2, storage_seed: seed });
            let ok = out.restored_differs.is_none() && !out.eq_failed && out.codec_error.is_none() && out.scenario_panic.is_none();
            if !ok {
                bad += 1;
            }
            println!(
                "c19 {:40} seed={} {} bytes={} fields={} eq_checked={} json_exact={:?} env_dep={:?} {}",
                c.name,
                seed,
                if ok { "ok  " } else { "FAIL" },
                out.bytes,
                out.fields,
                out.eq_checked,
                out.json_exact,
                out.env_dependent,
                match (&out.restored_differs, &out.codec_error, &out.json_note) {
                    _ if out.scenario_panic.is_some() => format!("SCENARIO PANIC: {:?}", out.scenario_panic),
                    (Some(d), _, _) => format!("restored differs: {d:?}"),
                    (_, Some(e), _) => format!("codec error: {e}"),
                    (_, _, Some(n)) => format!("json: {n}"),
                    _ => String::new(),
                }
            );
        }
    }
    println!("smoke: {bad} unexpected differences");
}

/// development aid: dump the JSON form of one C19 entry's value (reference environment)
pub fn dump(_name: &str, _seed: u64, _size: &str) {}
