//! C15 — incremental learners run as a simulated streaming-training service.
//!
//! A *case* is an operation log (fit a batch, predict a batch, apply delayed
//! label feedback) plus a fault plan (checkpoint / crash at given steps) plus one
//! environment per process epoch.  The executor runs the log against the real
//! learner: every epoch is one simulated process (own pool, hash seeds, clock);
//! a crash discards memory, the next epoch restores the last checkpoint (written
//! through the storage seam) and the source re-delivers the log from the
//! checkpointed position.  Oracles: (1) an executable reference model in plain
//! `Vec<f64>` code compared after every operation; (2) history determinism — the
//! state after log position `i` must be bit-identical however it was reached
//! (other environment, other crash points, re-execution after restart).

use crate::env::{run_sim_once, Context, Env};
use crate::prng::Prng;
use crate::simfile::SimFile;
use linfa::prelude::*;
use linfa::DatasetBase;
use linfa_bayes::{GaussianNb, MultinomialNb};
use linfa_clustering::{IncrKMeansError, KMeans, KMeansInit};
use linfa_ftrl::Ftrl;
use linfa_nn::distance::{L1Dist, L2Dist};
use ndarray::{Array1, Array2, Axis};
use rand_xoshiro::rand_core::SeedableRng;
use rand_xoshiro::Xoshiro256Plus;
use serde::de::DeserializeOwned;
use serde::{Deserialize, Serialize};
use serde_json::{json, Value};
use std::collections::BTreeMap;

#[derive(Clone, Copy, Debug, PartialEq, Eq, Hash, Serialize, Deserialize)]
pub enum Learner {
    Gnb,
    Mnb,
    KMeans,
    Ftrl,
}

#[derive(Clone, Copy, Debug, PartialEq, Serialize, Deserialize)]
pub enum Op {
    /// `fit_with(model, batch j)`
    Fit(usize),
    /// FTRL async mode: predict batch j now, keep the probabilities
    Predict(usize),
    /// FTRL async mode: labels of batch j arrive; `update(batch j, stored probabilities)`
    Update(usize),
}

#[derive(Clone, Copy, Debug, PartialEq, Eq, Serialize, Deserialize)]
pub enum FaultKind {
    Checkpoint,
    Crash,
}

#[derive(Clone, Copy, Debug, PartialEq, Eq, Serialize, Deserialize)]
pub struct FaultEv {
    /// fires after the `at_step`-th executed operation (global step counter, counts re-executions)
    pub at_step: usize,
    pub kind: FaultKind,
}

#[derive(Clone, Debug, PartialEq, Serialize, Deserialize)]
pub struct Hyper {
    pub var_smoothing: f64,
    pub mnb_alpha: f64,
    pub km_tolerance: f64,
    /// "random" | "pp" | "pre"
    pub km_init: String,
    pub km_l1: bool,
    pub ftrl_alpha: f64,
    pub ftrl_beta: f64,
    pub ftrl_l1: f64,
    pub ftrl_l2: f64,
}

impl Hyper {
    /// beta = 0 together with l2 = 0 divides by zero at n = 0 (infinite initial
    /// weights): a degenerate configuration the statement says nothing about
    fn sane(mut self) -> Hyper {
        if self.ftrl_beta == 0.0 && self.ftrl_l2 == 0.0 {
            self.ftrl_l2 = 0.5;
        }
        self
    }
}

#[derive(Clone, Debug, PartialEq, Serialize, Deserialize)]
pub struct Case {
    pub learner: Learner,
    pub data_seed: u64,
    pub n: usize,
    pub d: usize,
    pub k: usize,
    pub string_labels: bool,
    /// class of row i is (i * k / n): batches are class-incomplete and a class is first seen late
    pub sorted_classes: bool,
    /// batch sizes (sum <= n)
    pub cuts: Vec<usize>,
    pub hyper: Hyper,
    pub ops: Vec<Op>,
    pub faults: Vec<FaultEv>,
    /// added to every feature (Gaussian NB / k-means): data far from the origin, e.g.
    /// timestamps or ids, where a numerically careless pooled update cancels catastrophically
    #[serde(default)]
    pub offset: f64,
    /// run the learner in single precision (data are then exactly representable in f32)
    #[serde(default)]
    pub f32: bool,
    /// hand every batch to the learner as a column-major (Fortran-order) array
    #[serde(default)]
    pub colmajor: bool,
    /// hand every batch to the learner as a non-contiguous VIEW (every second row of a buffer)
    #[serde(default)]
    pub strided: bool,
    /// multiply the FTRL features by this (large values saturate the predicted probabilities)
    #[serde(default)]
    pub x_scale: f64,
    /// multinomial NB: features are weighted counts (multiples of 1/8, so every sum stays exact)
    /// instead of whole numbers, as after tf-idf or length normalisation
    #[serde(default)]
    pub fractional: bool,
    /// FTRL: once a model exists, `fit_with` is called through a parameter object whose
    /// hyper-parameters differ from the ones the model was created with (a decayed learning
    /// rate, a restored model continued with other settings).  The model's own stored
    /// hyper-parameters govern its recurrence - that is what `update` and `predict` use.
    #[serde(default)]
    pub decoy_params: bool,
    /// naive Bayes: the first model is produced by the one-shot `fit`, later batches by `fit_with`
    #[serde(default)]
    pub first_by_fit: bool,
    /// number of rows in one `predict` call (0 = the default dozen); above a thousand the
    /// call spans any internal block size
    #[serde(default)]
    pub nq: usize,
    /// environment of process epoch e is envs[e % len]
    pub envs: Vec<Env>,
    pub storage_seed: u64,
}

impl Case {
    /// one history in five runs in single precision; far-from-origin data only in double
    /// (an offset of 1e6 leaves f32 no digits for the variance)
    fn with_precision(mut self, r: &mut Prng, learner: Learner) -> Case {
        self.f32 = r.chance(0.2);
        if !self.f32 && matches!(learner, Learner::Gnb | Learner::KMeans) && r.chance(0.25) {
            self.offset = *r.pick(&[1e4, 1e6, 1e8]);
        }
        self
    }
}

#[derive(Clone, Debug, Default, Serialize, Deserialize)]
pub struct Out {
    pub violation: Option<String>,
    pub steps: usize,
    pub epochs: usize,
    pub crashes: usize,
    pub checkpoints: usize,
    pub reexecuted_ops: usize,
    pub not_converged: usize,
    pub converged: usize,
    pub delayed_updates: usize,
    pub reordered_updates: usize,
    pub class_missing_batches: usize,
    pub class_first_seen_late: usize,
    pub restart_between_batches_of_same_class: usize,
    pub exact_zero_weights: usize,
    pub near_threshold_weights: usize,
    pub ties_skipped: usize,
    pub predictions_compared: usize,
    pub short_writes: u64,
    pub interrupts: u64,
    pub steals: u64,
    pub ref_checks: usize,
    pub history_hash: u64,
}

// ---------------------------------------------------------------------------
// data
// ---------------------------------------------------------------------------
pub struct Data {
    pub x: Array2<f64>,
    pub y: Vec<usize>,
    pub yb: Vec<bool>,
    pub batches: Vec<(usize, usize)>,
    pub queries: Array2<f64>,
}

pub fn make_data(c: &Case) -> Data {
    let mut r = Prng::new(c.data_seed ^ 0xC15);
    let mut x = Array2::<f64>::zeros((c.n, c.d));
    let mut y = vec![0usize; c.n];
    for i in 0..c.n {
        let cls = if c.sorted_classes { (i * c.k / c.n).min(c.k - 1) } else { r.below(c.k as u64) as usize };
        y[i] = cls;
        for j in 0..c.d {
            x[[i, j]] = match c.learner {
                // counts: small non-negative integers, class-dependent
                Learner::Mnb => (r.below(4) + if j % c.k == cls { 3 } else { 0 }) as f64 + if c.fractional { r.below(8) as f64 / 8.0 } else { 0.0 },
                Learner::Ftrl => {
                    if r.chance(0.3) {
                        0.0
                    } else {
                        r.normal() + if j % 2 == 0 { cls as f64 } else { 0.0 }
                    }
                }
                _ => c.offset + 3.0 * ((cls * (j + 1)) % 5) as f64 + r.normal() * (0.5 + (j % 3) as f64 * 0.5),
            };
        }
    }
    // a few exact duplicates
    for i in (3..c.n).step_by(5) {
        let src = i - 3;
        if y[src] == y[i] {
            for j in 0..c.d {
                x[[i, j]] = x[[src, j]];
            }
        }
    }
    if matches!(c.learner, Learner::Ftrl | Learner::Gnb) && c.x_scale > 0.0 {
        x.mapv_inplace(|v| v * c.x_scale);
    }
    if c.f32 {
        // both the learner (which gets the data cast to f32) and the f64 reference see the same numbers
        x.mapv_inplace(|v| v as f32 as f64);
    }
    let yb: Vec<bool> = (0..c.n).map(|i| (y[i] % 2 == 1) ^ r.chance(0.1)).collect();
    let mut batches = Vec::new();
    let mut at = 0;
    for &s in &c.cuts {
        batches.push((at, at + s));
        at += s;
    }
    let m = if c.nq > 0 { c.nq } else { 12.min(c.n) };
    let queries = Array2::from_shape_fn((m, c.d), |(i, j)| {
        let v = x[[(i * 7) % c.n, j]];
        if i % 2 == 0 || c.learner == Learner::Mnb {
            v
        } else {
            v + 0.37
        }
    });
    Data { x, y, yb, batches, queries }
}

fn label_str(c: usize) -> String {
    // not in numeric order on purpose
    format!("L{}", (c * 7 + 3) % 10 * 10 + c)
}

// ---------------------------------------------------------------------------
// generic executor
// ---------------------------------------------------------------------------
#[derive(Clone, Serialize, Deserialize)]
struct Checkpoint<M> {
    pos: usize,
    model: Option<M>,
    pending: BTreeMap<usize, Vec<f32>>,
}

/// per-learner behaviour
trait Sut: Sync {
    type Model: Serialize + DeserializeOwned + Send + Clone;
    /// apply one operation to the real learner
    fn apply(&self, c: &Case, d: &Data, m: Option<Self::Model>, pending: &mut BTreeMap<usize, Vec<f32>>, op: &Op, out: &mut Out) -> Result<Option<Self::Model>, String>;
    /// canonical, bit-exact description of everything observable (state + predictions)
    fn snapshot(&self, c: &Case, d: &Data, m: &Option<Self::Model>) -> String;
    /// reference-model comparison after `ops[..pos]` (prev = real state before the op)
    fn reference(&self, c: &Case, d: &Data, prev: &Option<Self::Model>, pending_before: &BTreeMap<usize, Vec<f32>>, pos: usize, now: &Option<Self::Model>, out: &mut Out) -> Option<String>;
}

struct EpochEnd<M> {
    crashed: bool,
    pos: usize,
    step: usize,
    disk: Option<Vec<u8>>,
    snaps: Vec<(usize, String)>,
    out: Out,
    _m: std::marker::PhantomData<M>,
}

fn execute<S: Sut>(sut: &S, c: &Case, d: &Data, with_faults: bool, check_reference: bool) -> (Out, Vec<Option<String>>) {
    let nops = c.ops.len();
    let mut out = Out::default();
    // snapshot after position i (i = number of ops applied); None = not reached
    let mut snaps: Vec<Option<String>> = vec![None; nops + 1];
    let mut disk: Option<Vec<u8>> = None;
    let mut pos = 0usize;
    let mut step = 0usize;
    let mut epoch = 0usize;
    let e0 = Env::reference();
    loop {
        let env = if with_faults && !c.envs.is_empty() { c.envs[epoch % c.envs.len()].clone() } else { e0.clone() };
        let faults: Vec<FaultEv> = if with_faults { c.faults.clone() } else { vec![] };
        let (start_pos, start_step, disk_in, storage_seed) = (pos, step, disk.clone(), c.storage_seed.wrapping_add(epoch as u64));
        let res = run_sim_once(&env, move || -> EpochEnd<S::Model> {
            let mut o = Out::default();
            let mut snaps = Vec::new();
            // restart: restore the last checkpoint (or start empty)
            let (mut pos, mut model, mut pending) = match &disk_in {
                Some(bytes) => {
                    let mut f = SimFile::from_bytes(bytes.clone(), storage_seed);
                    match bincode::deserialize_from::<_, Checkpoint<S::Model>>(&mut f) {
                        Ok(cp) => {
                            o.short_writes += f.stats.short_reads;
                            o.interrupts += f.stats.read_interrupts;
                            (cp.pos, cp.model, cp.pending)
                        }
                        Err(e) => {
                            o.violation = Some(format!("checkpoint written by the trainer does not deserialize: {e}"));
                            (start_pos, None, BTreeMap::new())
                        }
                    }
                }
                None => (0, None, BTreeMap::new()),
            };
            if pos < start_pos {
                o.reexecuted_ops += start_pos - pos;
            }
            let mut step = start_step;
            let mut disk_out = disk_in.clone();
            if epoch_first_snapshot_needed(pos) {
                snaps.push((pos, sut.snapshot(c, d, &model)));
            }
            let mut crashed = false;
            while pos < nops {
                let op = c.ops[pos];
                let prev = if check_reference { model.clone() } else { None };
                let pending_before = if check_reference { pending.clone() } else { BTreeMap::new() };
                match sut.apply(c, d, model.take(), &mut pending, &op, &mut o) {
                    Ok(m) => model = m,
                    Err(e) => {
                        o.violation.get_or_insert(format!("operation {pos} ({op:?}) failed: {e}"));
                        break;
                    }
                }
                pos += 1;
                step += 1;
                if check_reference && o.violation.is_none() {
                    o.ref_checks += 1;
                    if let Some(v) = sut.reference(c, d, &prev, &pending_before, pos, &model, &mut o) {
                        o.violation = Some(format!("after operation {} ({op:?}): {v}", pos - 1));
                    }
                }
                snaps.push((pos, sut.snapshot(c, d, &model)));
                if o.violation.is_some() {
                    break;
                }
                for f in faults.iter().filter(|f| f.at_step == step) {
                    match f.kind {
                        FaultKind::Checkpoint => {
                            let cp = Checkpoint { pos, model: model.clone(), pending: pending.clone() };
                            let mut file = SimFile::new(storage_seed ^ step as u64);
                            if let Err(e) = bincode::serialize_into(&mut file, &cp) {
                                o.violation = Some(format!("checkpoint does not serialize: {e}"));
                            }
                            o.short_writes += file.stats.short_writes;
                            o.interrupts += file.stats.write_interrupts;
                            o.checkpoints += 1;
                            disk_out = Some(file.data);
                        }
                        FaultKind::Crash => crashed = true,
                    }
                }
                if crashed {
                    break;
                }
            }
            EpochEnd { crashed, pos, step, disk: disk_out, snaps, out: o, _m: std::marker::PhantomData }
        });
        let end = match res {
            Ok(e) => e,
            Err(p) => {
                out.violation.get_or_insert(format!("learner panicked: {p}"));
                break;
            }
        };
        merge(&mut out, &end.out);
        // history determinism: a position reached again (re-execution after a restart,
        // in another environment) must give the bit-identical snapshot
        for (p, s) in end.snaps {
            match &snaps[p] {
                Some(old) if *old != s => {
                    out.violation.get_or_insert(format!(
                        "state after {p} operations differs between two executions of the same history (re-execution after restart in epoch {epoch}, environment {}): {}",
                        env.describe(),
                        first_text_diff(old, &s)
                    ));
                }
                _ => snaps[p] = Some(s),
            }
        }
        epoch += 1;
        out.epochs = epoch;
        step = end.step;
        disk = end.disk;
        if out.violation.is_some() {
            break;
        }
        if end.crashed {
            out.crashes += 1;
            // which position we restart from is decided by the checkpoint on disk
            pos = end.pos; // informational; the restored checkpoint overrides it
            if between_batches_of_same_class(c, d, end.pos) {
                out.restart_between_batches_of_same_class += 1;
            }
            if epoch > nops * 4 + 16 {
                out.violation.get_or_insert("no progress: the trainer did not finish the log within the step budget after faults".into());
                break;
            }
            continue;
        }
        break;
    }
    out.steps = step;
    (out, snaps)
}

fn epoch_first_snapshot_needed(_pos: usize) -> bool {
    true
}

fn between_batches_of_same_class(c: &Case, d: &Data, pos: usize) -> bool {
    if pos == 0 || pos >= c.ops.len() {
        return false;
    }
    let cls = |op: &Op| -> Option<usize> {
        match op {
            Op::Fit(j) | Op::Update(j) => d.batches.get(*j).map(|&(a, _)| d.y[a]),
            _ => None,
        }
    };
    matches!((cls(&c.ops[pos - 1]), cls(&c.ops[pos])), (Some(a), Some(b)) if a == b)
}

fn merge(a: &mut Out, b: &Out) {
    if a.violation.is_none() {
        a.violation = b.violation.clone();
    }
    a.checkpoints += b.checkpoints;
    a.reexecuted_ops += b.reexecuted_ops;
    a.not_converged += b.not_converged;
    a.converged += b.converged;
    a.delayed_updates += b.delayed_updates;
    a.reordered_updates += b.reordered_updates;
    a.class_missing_batches += b.class_missing_batches;
    a.class_first_seen_late += b.class_first_seen_late;
    a.exact_zero_weights += b.exact_zero_weights;
    a.near_threshold_weights += b.near_threshold_weights;
    a.ties_skipped += b.ties_skipped;
    a.predictions_compared += b.predictions_compared;
    a.short_writes += b.short_writes;
    a.interrupts += b.interrupts;
    a.ref_checks += b.ref_checks;
}

fn first_text_diff(a: &str, b: &str) -> String {
    let i = a.bytes().zip(b.bytes()).position(|(x, y)| x != y).unwrap_or(a.len().min(b.len()));
    let lo = i.saturating_sub(40);
    format!("…{}… vs …{}…", &a[lo..(i + 40).min(a.len())], &b[lo..(i + 40).min(b.len())])
}

fn bits_json(v: &Value) -> String {
    // serde_json prints f64 with shortest round-trip representation: textual
    // equality of canonical JSON (BTreeMap-ordered objects) is bit equality
    serde_json::to_string(v).unwrap_or_default()
}

// ---------------------------------------------------------------------------
// helpers shared by the reference models
// ---------------------------------------------------------------------------
fn rows_of<'a>(d: &'a Data, c: &Case, pos: usize) -> Vec<usize> {
    // multiset of rows delivered by Fit ops in ops[..pos]
    let mut v = Vec::new();
    for op in &c.ops[..pos] {
        if let Op::Fit(j) = op {
            let (a, b) = d.batches[*j];
            v.extend(a..b);
        }
    }
    let _ = d;
    v
}

fn nd_array1(v: &Value) -> Vec<f64> {
    v["data"].as_array().map(|a| a.iter().map(|x| x.as_f64().unwrap_or(f64::NAN)).collect()).unwrap_or_default()
}

fn close(a: f64, b: f64, rel: f64, abs: f64) -> bool {
    a == b || (a - b).abs() <= abs + rel * a.abs().max(b.abs())
}

// ---------------------------------------------------------------------------
// the learners are generic over the float type (f64 and f32)
// ---------------------------------------------------------------------------
pub trait Fl: linfa::Float + Serialize + DeserializeOwned + Send + Sync + 'static {
    /// machine epsilon of the type, as f64: tolerances are stated in multiples of it
    const EPS: f64;
    fn to64(self) -> f64;
    fn of64(v: f64) -> Self;
    fn bits64(self) -> u64;
}
impl Fl for f64 {
    const EPS: f64 = f64::EPSILON;
    fn to64(self) -> f64 {
        self
    }
    fn of64(v: f64) -> f64 {
        v
    }
    fn bits64(self) -> u64 {
        self.to_bits()
    }
}
impl Fl for f32 {
    const EPS: f64 = f32::EPSILON as f64;
    fn to64(self) -> f64 {
        self as f64
    }
    fn of64(v: f64) -> f32 {
        v as f32
    }
    fn bits64(self) -> u64 {
        self.to_bits() as u64
    }
}
/// tolerance multiplier relative to the f64 settings (1 for f64, ~5e8 for f32)
fn tm<F: Fl>() -> f64 {
    F::EPS / f64::EPSILON
}
/// rows `a..b` of the data in the learner's float type and the case's memory layout
fn batch_records<F: Fl>(c: &Case, d: &Data, a: usize, b: usize) -> Array2<F> {
    let v = d.x.slice(ndarray::s![a..b, ..]);
    if c.colmajor {
        use ndarray::ShapeBuilder;
        let mut f = Array2::<F>::zeros((b - a, c.d).f());
        ndarray::Zip::from(&mut f).and(&v).for_each(|o, &i| *o = F::of64(i));
        f
    } else {
        v.mapv(F::of64)
    }
}
/// buffer from which `batch_view` takes the batch: the batch itself, or the batch interleaved
/// with junk rows when the case asks for a strided view
fn batch_buffer<F: Fl>(c: &Case, d: &Data, a: usize, b: usize) -> Array2<F> {
    let x = batch_records::<F>(c, d, a, b);
    if !c.strided {
        return x;
    }
    let mut buf = Array2::<F>::from_elem((2 * (b - a), c.d), F::of64(-777.0));
    buf.slice_mut(ndarray::s![..;2, ..]).assign(&x);
    buf
}
fn batch_view<'a, F: Fl>(c: &Case, buf: &'a Array2<F>) -> ndarray::ArrayView2<'a, F> {
    if c.strided {
        buf.slice(ndarray::s![..;2, ..])
    } else {
        buf.view()
    }
}
fn cast2<F: Fl>(a: &Array2<f64>) -> Array2<F> {
    a.mapv(F::of64)
}
fn vec64<F: Fl>(a: &Array1<F>) -> Vec<f64> {
    a.iter().map(|v| v.to64()).collect()
}

// ---------------------------------------------------------------------------
// naive Bayes
// ---------------------------------------------------------------------------
struct NbSut<F> {
    gaussian: bool,
    _f: std::marker::PhantomData<F>,
}

#[derive(Clone, Serialize, Deserialize)]
#[serde(bound = "F: Fl")]
enum NbModel<F: Fl> {
    GU(GaussianNb<F, usize>),
    GS(GaussianNb<F, String>),
    MU(MultinomialNb<F, usize>),
    MS(MultinomialNb<F, String>),
}

impl<F: Fl> NbModel<F> {
    fn predict(&self, x: &Array2<f64>) -> Vec<String> {
        let x = &cast2::<F>(x);
        match self {
            NbModel::GU(m) => m.predict(x).iter().map(|l| l.to_string()).collect(),
            NbModel::MU(m) => m.predict(x).iter().map(|l| l.to_string()).collect(),
            NbModel::GS(m) => m.predict(x).to_vec(),
            NbModel::MS(m) => m.predict(x).to_vec(),
        }
    }
    fn class_info(&self) -> Value {
        let v = match self {
            NbModel::GU(m) => serde_json::to_value(m),
            NbModel::GS(m) => serde_json::to_value(m),
            NbModel::MU(m) => serde_json::to_value(m),
            NbModel::MS(m) => serde_json::to_value(m),
        };
        v.map(|v| v["class_info"].clone()).unwrap_or(Value::Null)
    }
}

fn label_name(c: &Case, cls: usize) -> String {
    if c.string_labels {
        label_str(cls)
    } else {
        cls.to_string()
    }
}

impl<F: Fl> Sut for NbSut<F> {
    type Model = NbModel<F>;
    fn apply(&self, c: &Case, d: &Data, m: Option<NbModel<F>>, _p: &mut BTreeMap<usize, Vec<f32>>, op: &Op, out: &mut Out) -> Result<Option<NbModel<F>>, String> {
        let j = match op {
            Op::Fit(j) => *j,
            _ => return Err("naive Bayes only takes Fit operations".into()),
        };
        let (a, b) = d.batches[j];
        let xbuf: Array2<F> = batch_buffer::<F>(c, d, a, b);
        let x = batch_view(c, &xbuf);
        let present: std::collections::BTreeSet<usize> = d.y[a..b].iter().copied().collect();
        if present.len() < c.k {
            out.class_missing_batches += 1;
        }
        macro_rules! step {
            ($params:expr, $labels:expr, $prev:expr, $wrap:path) => {{
                let ds = DatasetBase::new(x, Array1::from($labels));
                let params = $params.check().map_err(|e| e.to_string())?;
                let prev = $prev;
                if prev.is_none() && c.first_by_fit {
                    // the first model comes from the one-shot `fit` and is then continued incrementally
                    Some($wrap(params.fit(&ds).map_err(|e| e.to_string())?))
                } else {
                    params.fit_with(prev, &ds).map_err(|e| e.to_string())?.map($wrap)
                }
            }};
        }
        let yu: Vec<usize> = d.y[a..b].to_vec();
        let ys: Vec<String> = yu.iter().map(|&l| label_str(l)).collect();
        let r = match (self.gaussian, c.string_labels) {
            (true, false) => {
                let prev = match m {
                    Some(NbModel::GU(m)) => Some(m),
                    None => None,
                    _ => return Err("model type changed".into()),
                };
                step!(GaussianNb::<F, usize>::params().var_smoothing(F::of64(c.hyper.var_smoothing)), yu, prev, NbModel::GU)
            }
            (true, true) => {
                let prev = match m {
                    Some(NbModel::GS(m)) => Some(m),
                    None => None,
                    _ => return Err("model type changed".into()),
                };
                step!(GaussianNb::<F, String>::params().var_smoothing(F::of64(c.hyper.var_smoothing)), ys, prev, NbModel::GS)
            }
            (false, false) => {
                let prev = match m {
                    Some(NbModel::MU(m)) => Some(m),
                    None => None,
                    _ => return Err("model type changed".into()),
                };
                step!(MultinomialNb::<F, usize>::params().alpha(F::of64(c.hyper.mnb_alpha)), yu, prev, NbModel::MU)
            }
            (false, true) => {
                let prev = match m {
                    Some(NbModel::MS(m)) => Some(m),
                    None => None,
                    _ => return Err("model type changed".into()),
                };
                step!(MultinomialNb::<F, String>::params().alpha(F::of64(c.hyper.mnb_alpha)), ys, prev, NbModel::MS)
            }
        };
        Ok(r)
    }

    fn snapshot(&self, _c: &Case, d: &Data, m: &Option<NbModel<F>>) -> String {
        match m {
            None => "null".into(),
            // predictions are deliberately not part of the history-determinism snapshot: the
            // statement promises them only where the posterior is not tied, which the
            // reference oracle decides; tie-breaking by hash order is C20's subject
            Some(m) => {
                let _ = d;
                bits_json(&json!({"class_info": m.class_info()}))
            }
        }
    }

    fn reference(&self, c: &Case, d: &Data, _prev: &Option<NbModel<F>>, _pb: &BTreeMap<usize, Vec<f32>>, pos: usize, now: &Option<NbModel<F>>, out: &mut Out) -> Option<String> {
        let m = match now {
            Some(m) => m,
            None => return Some("fit_with returned no model".into()),
        };
        let rows = rows_of(d, c, pos);
        let info = m.class_info();
        let obj = match info.as_object() {
            Some(o) => o,
            None => return Some("model exposes no class_info".into()),
        };
        // textbook estimates from all rows delivered so far
        let mut per_class: BTreeMap<usize, Vec<usize>> = BTreeMap::new();
        for &r in &rows {
            per_class.entry(d.y[r]).or_default().push(r);
        }
        if obj.len() != per_class.len() {
            return Some(format!("model knows {} classes, the delivered history contains {}", obj.len(), per_class.len()));
        }
        // a class first seen after the first batch
        if let Some(Op::Fit(j0)) = c.ops.first() {
            let (a, b) = d.batches[*j0];
            let first: std::collections::BTreeSet<usize> = d.y[a..b].iter().copied().collect();
            if pos == c.ops.len() && per_class.keys().any(|k| !first.contains(k)) {
                out.class_first_seen_late += 1;
            }
        }
        let total = rows.len();
        let scale = d.x.iter().fold(1.0f64, |a, &v| a.max(v.abs()));
        // epsilon envelope: linfa (like scikit-learn) re-derives the smoothing epsilon from
        // every batch, an O(var_smoothing) effect the tolerance is sized to admit
        let var_max = |idx: &[usize]| -> f64 {
            (0..c.d)
                .map(|j| {
                    let mean = idx.iter().map(|&r| d.x[[r, j]]).sum::<f64>() / idx.len() as f64;
                    idx.iter().map(|&r| (d.x[[r, j]] - mean).powi(2)).sum::<f64>() / idx.len() as f64
                })
                .fold(0.0, f64::max)
        };
        let mut eps_lo = f64::INFINITY;
        let mut eps_hi: f64 = 0.0;
        if self.gaussian {
            let mut sets: Vec<Vec<usize>> = vec![rows.clone()];
            for op in &c.ops[..pos] {
                if let Op::Fit(j) = op {
                    let (a, b) = d.batches[*j];
                    sets.push((a..b).collect());
                }
            }
            for s in &sets {
                let e = c.hyper.var_smoothing * var_max(s);
                eps_lo = eps_lo.min(e);
                eps_hi = eps_hi.max(e);
            }
        }
        // interval [lo, hi] of the log posterior per class and query, over every smoothing
        // epsilon in the envelope (the per-feature term -ln(s)/2 - d^2/(2s) peaks at s = d^2)
        let nq = d.queries.nrows();
        let mut ll_lo: BTreeMap<usize, Vec<f64>> = BTreeMap::new();
        let mut ll_hi: BTreeMap<usize, Vec<f64>> = BTreeMap::new();
        let mut degenerate = false;
        for (&cls, idx) in &per_class {
            let name = label_name(c, cls);
            let ci = match obj.get(&name) {
                Some(v) => v,
                None => return Some(format!("class {name} of the delivered history is missing from the model")),
            };
            let cnt = idx.len();
            if ci["class_count"].as_u64() != Some(cnt as u64) {
                return Some(format!("class {name}: class_count {} but {cnt} samples of it were delivered", ci["class_count"]));
            }
            // the class frequency, computed in the model's float type
            let prior = (F::of64(cnt as f64) / F::of64(total as f64)).to64();
            if ci["prior"].as_f64() != Some(prior) {
                return Some(format!("class {name}: prior {} is not the class frequency {cnt}/{total} = {prior}", ci["prior"]));
            }
            if self.gaussian {
                let theta = nd_array1(&ci["theta"]);
                let sigma = nd_array1(&ci["sigma"]);
                if theta.len() != c.d || sigma.len() != c.d {
                    return Some(format!("class {name}: statistics have the wrong dimension"));
                }
                let mut lo = vec![prior.ln(); nq];
                let mut hi = vec![prior.ln(); nq];
                for j in 0..c.d {
                    let mean = idx.iter().map(|&r| d.x[[r, j]]).sum::<f64>() / cnt as f64;
                    let var = idx.iter().map(|&r| (d.x[[r, j]] - mean).powi(2)).sum::<f64>() / cnt as f64;
                    if !close(theta[j], mean, 1e4 * F::EPS, 1e7 * F::EPS * (1.0 + var.sqrt()) + 64.0 * F::EPS * scale) {
                        return Some(format!("class {name} feature {j}: mean {} but the mean of the delivered samples is {mean}", theta[j]));
                    }
                    // floating-point error of a numerically stable pooled update: relative to the
                    // variance, plus the rounding of the means (magnitude `scale`) entering (mu_a - mu_b)^2
                    let tol = 2.0 * (eps_hi - eps_lo) + 1e7 * F::EPS * var + 256.0 * F::EPS * scale * (1.0 + var.sqrt()) + 1e4 * F::EPS * eps_hi + 1e-12 * tm::<F>();
                    if sigma[j] < var + eps_lo - tol || sigma[j] > var + eps_hi + tol || !sigma[j].is_finite() {
                        return Some(format!(
                            "class {name} feature {j}: smoothed variance {} outside [{}, {}] (variance of the delivered samples {var} + smoothing epsilon)",
                            sigma[j],
                            var + eps_lo - tol,
                            var + eps_hi + tol
                        ));
                    }
                    let (s_lo, s_hi) = ((var + eps_lo - tol).max(0.0), var + eps_hi + tol);
                    if s_lo <= 0.0 || sigma[j] <= 0.0 {
                        degenerate = true;
                        continue;
                    }
                    for q in 0..nq {
                        let d2 = (d.queries[[q, j]] - mean).powi(2);
                        let term = |s: f64| -0.5 * (2.0 * std::f64::consts::PI * s).ln() - 0.5 * d2 / s;
                        let (a, b) = (term(s_lo), term(s_hi));
                        let mut mx = a.max(b);
                        if d2 > s_lo && d2 < s_hi {
                            mx = mx.max(term(d2));
                        }
                        lo[q] += a.min(b);
                        hi[q] += mx;
                    }
                }
                ll_lo.insert(cls, lo);
                ll_hi.insert(cls, hi);
            } else {
                let fc = nd_array1(&ci["feature_count"]);
                let flp = nd_array1(&ci["feature_log_prob"]);
                if fc.len() != c.d || flp.len() != c.d {
                    return Some(format!("class {name}: statistics have the wrong dimension"));
                }
                let counts: Vec<f64> = (0..c.d).map(|j| idx.iter().map(|&r| d.x[[r, j]]).sum::<f64>()).collect();
                let tot: f64 = counts.iter().map(|v| v + c.hyper.mnb_alpha).sum();
                let mut ll = vec![prior.ln(); nq];
                for j in 0..c.d {
                    if fc[j] != counts[j] {
                        return Some(format!("class {name} feature {j}: feature_count {} but the delivered samples sum to {}", fc[j], counts[j]));
                    }
                    let lp = (counts[j] + c.hyper.mnb_alpha).ln() - tot.ln();
                    if !close(flp[j], lp, 1e-11 * tm::<F>(), 1e-12 * tm::<F>()) {
                        return Some(format!("class {name} feature {j}: feature_log_prob {} but the additively smoothed frequency gives {lp}", flp[j]));
                    }
                    for q in 0..nq {
                        ll[q] += d.queries[[q, j]] * lp;
                    }
                }
                ll_lo.insert(cls, ll.clone());
                ll_hi.insert(cls, ll);
            }
        }
        if degenerate {
            // a class with zero variance and zero smoothing has no posterior to maximise
            out.ties_skipped += nq;
            return None;
        }
        // the class that certainly maximises the posterior (None where it may be tied)
        let certain = |q: usize| -> Option<usize> {
            let mut best: Option<(usize, f64)> = None;
            for (cl, l) in &ll_lo {
                if !l[q].is_finite() || !ll_hi[cl][q].is_finite() {
                    return None;
                }
                if best.map(|b| l[q] > b.1).unwrap_or(true) {
                    best = Some((*cl, l[q]));
                }
            }
            let (b, lo_b) = best?;
            let slack = (1e-7 + 64.0 * F::EPS * c.d as f64) * (1.0 + lo_b.abs());
            for (cl, h) in &ll_hi {
                if *cl != b && h[q] + slack >= lo_b {
                    return None;
                }
            }
            Some(b)
        };
        // predictions maximise the posterior wherever it is not tied
        let pred = m.predict(&d.queries);
        for q in 0..nq {
            match certain(q) {
                None => out.ties_skipped += 1,
                Some(b) => {
                    out.predictions_compared += 1;
                    if pred[q] != label_name(c, b) {
                        return Some(format!("query {q}: predicted {} but the posterior is maximal for {}", pred[q], label_name(c, b)));
                    }
                }
            }
        }
        // at the end of the log: batch-by-batch == one fit on everything delivered
        if pos == c.ops.len() && total > 0 {
            let x: Array2<F> = Array2::from_shape_fn((total, c.d), |(i, j)| F::of64(d.x[[rows[i], j]]));
            let qf: Array2<F> = cast2::<F>(&d.queries);
            let single: Result<Vec<String>, String> = (|| {
                Ok(match (self.gaussian, c.string_labels) {
                    (true, false) => GaussianNb::<F, usize>::params()
                        .var_smoothing(F::of64(c.hyper.var_smoothing))
                        .fit(&DatasetBase::new(x, Array1::from(rows.iter().map(|&r| d.y[r]).collect::<Vec<_>>())))
                        .map_err(|e| e.to_string())?
                        .predict(&qf)
                        .iter()
                        .map(|l| l.to_string())
                        .collect(),
                    (true, true) => GaussianNb::<F, String>::params()
                        .var_smoothing(F::of64(c.hyper.var_smoothing))
                        .fit(&DatasetBase::new(x, Array1::from(rows.iter().map(|&r| label_str(d.y[r])).collect::<Vec<_>>())))
                        .map_err(|e| e.to_string())?
                        .predict(&qf)
                        .to_vec(),
                    (false, false) => MultinomialNb::<F, usize>::params()
                        .alpha(F::of64(c.hyper.mnb_alpha))
                        .fit(&DatasetBase::new(x, Array1::from(rows.iter().map(|&r| d.y[r]).collect::<Vec<_>>())))
                        .map_err(|e| e.to_string())?
                        .predict(&qf)
                        .iter()
                        .map(|l| l.to_string())
                        .collect(),
                    (false, true) => MultinomialNb::<F, String>::params()
                        .alpha(F::of64(c.hyper.mnb_alpha))
                        .fit(&DatasetBase::new(x, Array1::from(rows.iter().map(|&r| label_str(d.y[r])).collect::<Vec<_>>())))
                        .map_err(|e| e.to_string())?
                        .predict(&qf)
                        .to_vec(),
                })
            })();
            match single {
                Err(e) => return Some(format!("single fit on the whole delivered data failed: {e}")),
                Ok(sp) => {
                    for q in 0..nq {
                        if certain(q).is_some() && sp[q] != pred[q] {
                            return Some(format!("query {q}: the batch-by-batch model predicts {} but a single fit on the same data predicts {}", pred[q], sp[q]));
                        }
                    }
                }
            }
        }
        None
    }
}

// ---------------------------------------------------------------------------
// mini-batch k-means
// ---------------------------------------------------------------------------
struct KmSut<F>(std::marker::PhantomData<F>);

#[derive(Clone, Serialize, Deserialize)]
#[serde(bound = "F: Fl")]
enum KmModel<F: Fl> {
    L2(KMeans<F, L2Dist>),
    L1(KMeans<F, L1Dist>),
}
impl<F: Fl> KmModel<F> {
    fn centroids(&self) -> &Array2<F> {
        match self {
            KmModel::L2(m) => m.centroids(),
            KmModel::L1(m) => m.centroids(),
        }
    }
    fn counts(&self) -> &Array1<F> {
        match self {
            KmModel::L2(m) => m.cluster_count(),
            KmModel::L1(m) => m.cluster_count(),
        }
    }
    fn inertia(&self) -> f64 {
        match self {
            KmModel::L2(m) => m.inertia().to64(),
            KmModel::L1(m) => m.inertia().to64(),
        }
    }
}

fn km_init<F: Fl>(c: &Case, d: &Data) -> KMeansInit<F> {
    match c.hyper.km_init.as_str() {
        "random" => KMeansInit::Random,
        "pp" => KMeansInit::KMeansPlusPlus,
        _ => {
            // first k rows of the data (distinct by construction of the generator only
            // with high probability — duplicates are legal input)
            KMeansInit::Precomputed(d.x.slice(ndarray::s![0..c.k, ..]).mapv(F::of64))
        }
    }
}

thread_local! {
    static LAST_VERDICT: std::cell::Cell<Option<bool>> = const { std::cell::Cell::new(None) };
}

impl<F: Fl> Sut for KmSut<F> {
    type Model = KmModel<F>;
    fn apply(&self, c: &Case, d: &Data, m: Option<KmModel<F>>, _p: &mut BTreeMap<usize, Vec<f32>>, op: &Op, out: &mut Out) -> Result<Option<KmModel<F>>, String> {
        let j = match op {
            Op::Fit(j) => *j,
            _ => return Err("k-means only takes Fit operations".into()),
        };
        let (a, b) = d.batches[j];
        let xbuf: Array2<F> = batch_buffer::<F>(c, d, a, b);
        let ds = DatasetBase::from(batch_view(c, &xbuf));
        let rng = Xoshiro256Plus::seed_from_u64(c.data_seed);
        macro_rules! step {
            ($dist:expr, $prev:expr, $wrap:path) => {{
                let params = KMeans::params_with(c.k, rng, $dist).tolerance(F::of64(c.hyper.km_tolerance)).init_method(km_init::<F>(c, d)).check().map_err(|e| e.to_string())?;
                // the documented protocol: NotConverged carries the model, feed it back
                match params.fit_with($prev, &ds) {
                    Ok(m) => {
                        out.converged += 1;
                        LAST_VERDICT.with(|v| v.set(Some(true)));
                        $wrap(m)
                    }
                    Err(IncrKMeansError::NotConverged(m)) => {
                        out.not_converged += 1;
                        LAST_VERDICT.with(|v| v.set(Some(false)));
                        $wrap(m)
                    }
                    Err(e) => return Err(e.to_string()),
                }
            }};
        }
        let r = if c.hyper.km_l1 {
            let prev = match m {
                Some(KmModel::L1(m)) => Some(m),
                None => None,
                _ => return Err("model type changed".into()),
            };
            step!(L1Dist, prev, KmModel::L1)
        } else {
            let prev = match m {
                Some(KmModel::L2(m)) => Some(m),
                None => None,
                _ => return Err("model type changed".into()),
            };
            step!(L2Dist, prev, KmModel::L2)
        };
        Ok(Some(r))
    }

    fn snapshot(&self, _c: &Case, d: &Data, m: &Option<KmModel<F>>) -> String {
        match m {
            None => "null".into(),
            Some(m) => {
                let q = cast2::<F>(&d.queries);
                let (pred, tr): (Vec<usize>, Vec<F>) = match m {
                    KmModel::L2(k) => (k.predict(&q).to_vec(), k.transform(&q).to_vec()),
                    KmModel::L1(k) => (k.predict(&q).to_vec(), k.transform(&q).to_vec()),
                };
                bits_json(&json!({"centroids": m.centroids().iter().map(|v| v.bits64()).collect::<Vec<_>>(), "counts": vec64(m.counts()), "inertia": m.inertia().to_bits(), "predict": pred, "transform": tr.iter().map(|v| v.bits64()).collect::<Vec<_>>()}))
            }
        }
    }

    fn reference(&self, c: &Case, d: &Data, prev: &Option<KmModel<F>>, _pb: &BTreeMap<usize, Vec<f32>>, pos: usize, now: &Option<KmModel<F>>, _out: &mut Out) -> Option<String> {
        let now = now.as_ref()?;
        let verdict = LAST_VERDICT.with(|v| v.get());
        let j = match c.ops[pos - 1] {
            Op::Fit(j) => j,
            _ => return None,
        };
        let (a, b) = d.batches[j];
        let nb = b - a;
        // previous state: the real model before the op, or the precomputed initial centroids
        let (mut cen, mut cnt): (Vec<Vec<f64>>, Vec<f64>) = match prev {
            Some(p) => (p.centroids().rows().into_iter().map(|r| r.iter().map(|v| v.to64()).collect()).collect(), vec64(p.counts())),
            None => match km_init::<F>(c, d) {
                KMeansInit::Precomputed(ctr) => (ctr.rows().into_iter().map(|r| r.iter().map(|v| v.to64()).collect()).collect(), vec![0.0; c.k]),
                _ => {
                    // seeded initialiser: the start is not observable; check what is
                    let s: f64 = now.counts().sum().to64();
                    if s != nb as f64 {
                        return Some(format!("cluster counts sum to {s} after a first batch of {nb} rows"));
                    }
                    if now.centroids().nrows() != c.k || now.centroids().iter().any(|v| !v.to64().is_finite()) {
                        return Some("centroids are not k finite rows".into());
                    }
                    return None;
                }
            },
        };
        let old = cen.clone();
        let dist = |p: &[f64], q: &[f64]| -> f64 {
            if c.hyper.km_l1 {
                p.iter().zip(q).map(|(a, b)| (a - b).abs()).sum()
            } else {
                p.iter().zip(q).map(|(a, b)| (a - b) * (a - b)).sum()
            }
        };
        // memberships against the OLD centroids, then the running-mean recurrence.  The oracle
        // computes distances in f64 and in its own summation order; the learner computes them in
        // its float type.  A row whose two smallest distances agree to within that arithmetic's
        // rounding has no assignment the statement could single out: there the previous model's
        // own `predict` says which centroid *the library* calls the closest one, and without a
        // previous model (first batch on precomputed centroids) the step is not checked.
        let own: Option<Vec<usize>> = prev.as_ref().map(|pm| {
            let xbuf: Array2<F> = batch_buffer::<F>(c, d, a, b);
            let v = batch_view(c, &xbuf);
            match pm {
                KmModel::L2(k) => k.predict(&v).to_vec(),
                KmModel::L1(k) => k.predict(&v).to_vec(),
            }
        });
        let mut inertia = 0.0;
        let mut members = Vec::with_capacity(nb);
        let amb_tol = 8.0 * (c.d as f64 + 4.0) * F::EPS;
        for (i, r) in (a..b).enumerate() {
            let row: Vec<f64> = d.x.row(r).to_vec();
            let mut best = 0;
            let mut bd = dist(&old[0], &row);
            let mut second = f64::INFINITY;
            for (ci, ce) in old.iter().enumerate().skip(1) {
                let dd = dist(ce, &row);
                if dd < bd {
                    second = bd;
                    bd = dd;
                    best = ci;
                } else if dd < second {
                    second = dd;
                }
            }
            let ambiguous = second.is_finite() && (second - bd) <= amb_tol * (second + bd);
            if ambiguous {
                _out.ties_skipped += 1;
                match &own {
                    Some(o) if o[i] < c.k => {
                        best = o[i];
                        bd = dist(&old[best], &row);
                    }
                    _ => return None,
                }
            }
            inertia += bd;
            members.push(best);
        }
        for (r, &m) in (a..b).zip(&members) {
            cnt[m] += 1.0;
            for jf in 0..c.d {
                let shift = (d.x[[r, jf]] - cen[m][jf]) / cnt[m];
                cen[m][jf] += shift;
            }
        }
        for ci in 0..c.k {
            if now.counts()[ci].to64() != cnt[ci] {
                return Some(format!("cluster {ci}: cumulative count {} but the recurrence gives {}", now.counts()[ci].to64(), cnt[ci]));
            }
            for jf in 0..c.d {
                if !close(now.centroids()[[ci, jf]].to64(), cen[ci][jf], 1e-12 * tm::<F>(), 1e-12 * tm::<F>()) {
                    return Some(format!("centroid {ci} feature {jf}: {} but the running-mean update of the previous state gives {}", now.centroids()[[ci, jf]].to64(), cen[ci][jf]));
                }
            }
        }
        if !close(now.inertia(), inertia / nb as f64, 1e-10 * tm::<F>(), 1e-12 * tm::<F>()) {
            return Some(format!("inertia {} but the mean distance of the batch to the previous centroids is {}", now.inertia(), inertia / nb as f64));
        }
        // converged / not converged is reported truthfully
        let shift: f64 = if c.hyper.km_l1 {
            old.iter().zip(&cen).map(|(p, q)| p.iter().zip(q).map(|(a, b)| (a - b).abs()).sum::<f64>()).sum()
        } else {
            old.iter().zip(&cen).map(|(p, q)| p.iter().zip(q).map(|(a, b)| (a - b) * (a - b)).sum::<f64>()).sum::<f64>().sqrt()
        };
        let tol = c.hyper.km_tolerance;
        if (shift - tol).abs() > (1e-9 * tm::<F>()).min(1e-3) * (1.0 + tol.abs() + shift.abs()) {
            if let Some(v) = verdict {
                if v != (shift < tol) {
                    return Some(format!("reported {} but the centroids moved by {shift} with tolerance {tol}", if v { "converged" } else { "not converged" }));
                }
            }
        }
        None
    }
}

// ---------------------------------------------------------------------------
// FTRL
// ---------------------------------------------------------------------------
struct FtrlSut<F>(std::marker::PhantomData<F>);

#[derive(Clone, Serialize, Deserialize)]
#[serde(bound = "F: Fl")]
struct FtrlModel<F: Fl>(Ftrl<F>);

fn prox(z: f64, n: f64, h: &Hyper) -> f64 {
    let sign = if z < 0.0 { -1.0 } else { 1.0 };
    if z * sign <= h.ftrl_l1 {
        0.0
    } else {
        (sign * h.ftrl_l1 - z) / ((n.sqrt() + h.ftrl_beta) / h.ftrl_alpha + h.ftrl_l2)
    }
}
fn sigmoid(v: f64) -> f64 {
    let v = v.clamp(-35.0, 35.0);
    if v < 0.0 {
        let e = v.exp();
        e / (e + 1.0)
    } else {
        1.0 / (1.0 + (-v).exp())
    }
}

impl<F: Fl> Sut for FtrlSut<F> {
    type Model = FtrlModel<F>;
    fn apply(&self, c: &Case, d: &Data, m: Option<FtrlModel<F>>, pending: &mut BTreeMap<usize, Vec<f32>>, op: &Op, out: &mut Out) -> Result<Option<FtrlModel<F>>, String> {
        let decoy = c.decoy_params && m.is_some() && matches!(op, Op::Fit(_));
        let flip = |v: f64| if v > 0.5 { v - 0.35 } else { v + 0.35 };
        let (al, be, l1, l2) = if decoy { (c.hyper.ftrl_alpha * 2.5, c.hyper.ftrl_beta + 0.7, flip(c.hyper.ftrl_l1), flip(c.hyper.ftrl_l2)) } else { (c.hyper.ftrl_alpha, c.hyper.ftrl_beta, c.hyper.ftrl_l1, c.hyper.ftrl_l2) };
        let params = Ftrl::<F>::params_with_rng(Xoshiro256Plus::seed_from_u64(c.data_seed)).alpha(F::of64(al)).beta(F::of64(be)).l1_ratio(F::of64(l1)).l2_ratio(F::of64(l2)).check().map_err(|e| e.to_string())?;
        let jb = match *op {
            Op::Fit(j) | Op::Predict(j) | Op::Update(j) => j,
        };
        let (ja, jbnd) = d.batches[jb];
        let xbuf: Array2<F> = batch_buffer::<F>(c, d, ja, jbnd);
        let batch = |_j: usize| DatasetBase::new(batch_view(c, &xbuf), Array1::from(d.yb[ja..jbnd].to_vec()));
        match *op {
            Op::Fit(j) => {
                let m = params.fit_with(m.map(|m| m.0), &batch(j)).map_err(|e| e.to_string())?;
                Ok(Some(FtrlModel(m)))
            }
            Op::Predict(j) => {
                let m = match m {
                    Some(m) => m,
                    None => FtrlModel(Ftrl::new(params, c.d)),
                };
                let p = m.0.predict(batch(j).records());
                pending.insert(j, p.iter().map(|p| **p).collect());
                Ok(Some(m))
            }
            Op::Update(j) => {
                let mut m = m.ok_or("update before any model exists")?;
                let p = pending.remove(&j).ok_or("label feedback for a batch that was never predicted")?;
                out.delayed_updates += 1;
                if pending.keys().any(|&other| other < j) {
                    out.reordered_updates += 1;
                }
                let probs: Array1<linfa::dataset::Pr> = p.iter().map(|&v| linfa::dataset::Pr::new(v)).collect();
                m.0.update(&batch(j), probs.view());
                Ok(Some(m))
            }
        }
    }

    fn snapshot(&self, _c: &Case, d: &Data, m: &Option<FtrlModel<F>>) -> String {
        match m {
            None => "null".into(),
            Some(m) => bits_json(&json!({
                "z": m.0.z().iter().map(|v| v.bits64()).collect::<Vec<_>>(),
                "n": m.0.n().iter().map(|v| v.bits64()).collect::<Vec<_>>(),
                "w": m.0.get_weights().iter().map(|v| v.bits64()).collect::<Vec<_>>(),
                "predict": m.0.predict(&cast2::<F>(&d.queries)).iter().map(|p| p.to_bits()).collect::<Vec<_>>(),
            })),
        }
    }

    fn reference(&self, c: &Case, d: &Data, prev: &Option<FtrlModel<F>>, pending_before: &BTreeMap<usize, Vec<f32>>, pos: usize, now: &Option<FtrlModel<F>>, out: &mut Out) -> Option<String> {
        let now = &now.as_ref()?.0;
        // the hyper-parameters as the model holds them (rounded to its float type)
        let h = &Hyper {
            ftrl_alpha: F::of64(c.hyper.ftrl_alpha).to64(),
            ftrl_beta: F::of64(c.hyper.ftrl_beta).to64(),
            ftrl_l1: F::of64(c.hyper.ftrl_l1).to64(),
            ftrl_l2: F::of64(c.hyper.ftrl_l2).to64(),
            ..c.hyper.clone()
        };
        let t = tm::<F>();
        // weights are exactly zero wherever |z| does not exceed the l1 strength
        let w = vec64(&now.get_weights());
        let (zn, nn) = (vec64(now.z()), vec64(now.n()));
        for i in 0..c.d {
            let z = zn[i];
            if z.abs() <= h.ftrl_l1 {
                out.exact_zero_weights += 1;
                if w[i] != 0.0 {
                    return Some(format!("weight {i} is {} although |z| = {} does not exceed the l1 strength {}", w[i], z.abs(), h.ftrl_l1));
                }
            } else {
                if z.abs() <= h.ftrl_l1 * 1.5 + 1e-3 {
                    out.near_threshold_weights += 1;
                }
                let expect = prox(z, nn[i], h);
                if !close(w[i], expect, 1e-12 * t, 1e-15 * t) {
                    return Some(format!("weight {i} is {} but the proximal formula gives {expect}", w[i]));
                }
            }
        }
        let (j, probs): (usize, Option<Vec<f32>>) = match c.ops[pos - 1] {
            Op::Fit(j) => {
                // the synchronous step is, by its documentation, "predict the batch, then update
                // with those probabilities": replaying it through the asynchronous API from the
                // same previous state must give the identical state, bit for bit
                let params = Ftrl::<F>::params_with_rng(Xoshiro256Plus::seed_from_u64(c.data_seed))
                    .alpha(F::of64(c.hyper.ftrl_alpha))
                    .beta(F::of64(c.hyper.ftrl_beta))
                    .l1_ratio(F::of64(c.hyper.ftrl_l1))
                    .l2_ratio(F::of64(c.hyper.ftrl_l2))
                    .check()
                    .ok()?;
                let mut twin = match prev {
                    Some(p) => p.0.clone(),
                    None => Ftrl::new(params, c.d),
                };
                let (a, b) = d.batches[j];
                // same values AND same memory layout as the batch the learner was given
                let xbuf: Array2<F> = batch_buffer::<F>(c, d, a, b);
                let ds = DatasetBase::new(batch_view(c, &xbuf), Array1::from(d.yb[a..b].to_vec()));
                let probs = twin.predict(ds.records());
                twin.update(&ds, probs.view());
                if let Some(i) = (0..c.d).find(|&i| twin.z()[i].bits64() != now.z()[i].bits64() || twin.n()[i].bits64() != now.n()[i].bits64()) {
                    return Some(format!(
                        "fit_with and predict+update from the same state disagree: z[{i}] = {:e} vs {:e}, n[{i}] = {:e} vs {:e}",
                        now.z()[i].to64(),
                        twin.z()[i].to64(),
                        now.n()[i].to64(),
                        twin.n()[i].to64()
                    ));
                }
                (j, None)
            }
            Op::Update(j) => (j, pending_before.get(&j).cloned()),
            Op::Predict(_) => {
                // predicting must not change the state
                if let Some(p) = prev {
                    if p.0.z() != now.z() || p.0.n() != now.n() {
                        return Some("predict changed z or n".into());
                    }
                }
                return None;
            }
        };
        let prev = match prev {
            Some(p) => &p.0,
            None => return None, // first fit: z starts from the seeded random draw, not observable before
        };
        let (a, b) = d.batches[j];
        let (z0, n0) = (vec64(prev.z()), vec64(prev.n()));
        let w0: Vec<f64> = (0..c.d).map(|i| prox(z0[i], n0[i], h)).collect();
        // gradient = sum over rows of (p - y) x ; p is an f32 probability
        let mut g = vec![0.0f64; c.d];
        let mut g_slack = vec![0.0f64; c.d];
        for (ri, r) in (a..b).enumerate() {
            let p: f64 = match &probs {
                Some(ps) => ps[ri] as f64,
                None => {
                    let dot: f64 = (0..c.d).map(|i| d.x[[r, i]] * w0[i]).sum();
                    sigmoid(dot) as f32 as f64
                }
            };
            let tgt = if d.yb[r] { 1.0 } else { 0.0 };
            for i in 0..c.d {
                g[i] += (p - tgt) * d.x[[r, i]];
                // the internally computed probability may differ by one f32 ulp (a few in f32 arithmetic)
                g_slack[i] += if probs.is_none() { 1.3e-7 * d.x[[r, i]].abs() * t.min(8.0) } else { 0.0 };
            }
        }
        for i in 0..c.d {
            let sigma = ((n0[i] + g[i] * g[i]).sqrt() - n0[i].sqrt()) / h.ftrl_alpha;
            let z1 = z0[i] + g[i] - sigma * w0[i];
            let n1 = n0[i] + g[i] * g[i];
            // rounding of the model's own arithmetic: a few hundred epsilons of the magnitudes involved
            let mag = 1.0 + z1.abs() + n1.abs() + g[i].abs() * (1.0 + (b - a) as f64) + (sigma * w0[i]).abs();
            let slack = g_slack[i] * (1.0 + (w0[i].abs() / h.ftrl_alpha) + 2.0 * g[i].abs()) + 1e-10 * (1.0 + z1.abs() + n1.abs()) + 512.0 * (F::EPS - f64::EPSILON) * mag * (1.0 + 1.0 / h.ftrl_alpha * w0[i].abs());
            if (zn[i] - z1).abs() > slack {
                return Some(format!("z[{i}] = {} but the FTRL-proximal recurrence applied to the previous state gives {z1}", zn[i]));
            }
            if (nn[i] - n1).abs() > slack {
                return Some(format!("n[{i}] = {} but the recurrence n += g^2 applied to the previous state gives {n1}", nn[i]));
            }
        }
        None
    }
}

// ---------------------------------------------------------------------------
// case generation
// ---------------------------------------------------------------------------
fn random_cuts(r: &mut Prng, n: usize, max_batches: usize, min_size: usize) -> Vec<usize> {
    let b = r.usize_in(1, max_batches.min(n / min_size.max(1)).max(1));
    // b non-empty batches of unequal sizes
    let mut sizes = vec![min_size; b];
    let mut left = n - b * min_size;
    while left > 0 {
        let i = r.below(b as u64) as usize;
        let add = 1 + r.below(left.min(1 + n / 3) as u64) as usize;
        let add = add.min(left);
        sizes[i] += add;
        left -= add;
    }
    sizes
}

fn fault_env(r: &mut Prng, pool: bool) -> Env {
    Env {
        threads: if pool { *r.pick(&[1usize, 2, 3, 4, 8]) } else { *r.pick(&[1usize, 1, 2]) },
        policy: r.pick(&["sequential", "eager-steal", "chaos", "random:0.3", "late-steal"]).to_string(),
        sched_seed: r.next_u64() >> 20,
        entropy_seed: r.next_u64() >> 20,
        clock_seed: r.next_u64() >> 20,
        context: *r.pick(&[Context::External, Context::InWorker]),
        cpus: *r.pick(&[1usize, 1, 2]),
        envvars_seed: if r.chance(0.3) { r.next_u64() >> 20 } else { 0 },
        heap_seed: if r.chance(0.3) { r.next_u64() >> 20 } else { 0 },
        replay: None,
    }
}

pub fn gen_case(r: &mut Prng, learner: Learner, big: bool) -> Case {
    let k = if matches!(learner, Learner::Gnb | Learner::Mnb) && r.chance(0.05) { 1 } else { r.usize_in(2, if learner == Learner::KMeans { 4 } else { 6 }) };
    // one naive-Bayes history in ten is wide (text-like data: dozens to hundreds of features)
    let d = if matches!(learner, Learner::Gnb | Learner::Mnb) && r.chance(0.1) { *r.pick(&[40usize, 120, 400]) } else { r.usize_in(1, 8) };
    // every eighth k-means history has batches of several hundred rows (parallel loops split)
    let huge = learner == Learner::KMeans && r.chance(0.125);
    let n = match learner {
        Learner::KMeans if huge => r.usize_in(1200, 3200),
        Learner::KMeans => r.usize_in(4 * k.max(3), if big { 400 } else { 120 }),
        _ => r.usize_in(6.max(k), if big { 300 } else { 80 }),
    };
    let min_size = if learner == Learner::KMeans { k } else { 1 };
    let mut cuts = random_cuts(r, n, if huge { 4 } else if big { 12 } else { 8 }, min_size);
    if learner == Learner::KMeans {
        // the first batch initialises the model: it must hold at least k rows
        cuts[0] = cuts[0].max(k);
        let s: usize = cuts.iter().sum();
        if s > n {
            // shrink later batches (keep them non-empty and >= 1)
            let mut over = s - n;
            for c in cuts.iter_mut().skip(1).rev() {
                let take = over.min(c.saturating_sub(1));
                *c -= take;
                over -= take;
            }
            if over > 0 {
                cuts.truncate(1);
                cuts[0] = n;
            }
        }
    }
    let nb = cuts.len();
    let mut ops: Vec<Op> = Vec::new();
    match learner {
        Learner::Ftrl => {
            // discrete-event queue: predict requests arrive in order, label feedback after a delay
            let mut events: Vec<(u64, u64, Op)> = Vec::new();
            let mut t = 0u64;
            let mut seq = 0u64;
            for j in 0..nb {
                t += 1 + r.below(10);
                if r.chance(0.35) {
                    events.push((t, seq, Op::Fit(j)));
                    seq += 1;
                } else {
                    events.push((t, seq, Op::Predict(j)));
                    seq += 1;
                    let delay = 1 + r.below(40);
                    events.push((t + delay, seq, Op::Update(j)));
                    seq += 1;
                }
            }
            events.sort_by_key(|e| (e.0, e.1));
            ops = events.into_iter().map(|e| e.2).collect();
        }
        _ => {
            for j in 0..nb {
                ops.push(Op::Fit(j));
                // a repeated batch now and then (legal history)
                if r.chance(0.08) {
                    ops.push(Op::Fit(j));
                }
            }
        }
    }
    let nops = ops.len();
    let mut faults = Vec::new();
    let ncrash = *r.pick(&[0usize, 1, 1, 2, 3]);
    let nckpt = r.usize_in(0, 4);
    let horizon = nops * 2 + 2;
    for _ in 0..nckpt {
        faults.push(FaultEv { at_step: 1 + r.below(horizon as u64) as usize, kind: FaultKind::Checkpoint });
    }
    for _ in 0..ncrash {
        let at = 1 + r.below(horizon as u64) as usize;
        // bias: a crash right after a checkpoint or right before one
        let at = if r.chance(0.4) && !faults.is_empty() { faults[r.below(faults.len() as u64) as usize].at_step + r.below(2) as usize } else { at };
        faults.push(FaultEv { at_step: at.max(1), kind: FaultKind::Crash });
    }
    faults.sort_by_key(|f| (f.at_step, f.kind == FaultKind::Crash));
    let pool = learner == Learner::KMeans;
    let envs: Vec<Env> = (0..(ncrash + 1)).map(|_| fault_env(r, pool)).collect();
    Case {
        learner,
        data_seed: r.next_u64() >> 16,
        n,
        d,
        k,
        string_labels: r.chance(0.4),
        sorted_classes: r.chance(0.5),
        cuts,
        hyper: Hyper {
            var_smoothing: *r.pick(&[1e-9, 1e-9, 1e-6, 1e-4]),
            mnb_alpha: *r.pick(&[1.0, 0.5, 1e-3, 2.0, 0.0001, 1e-12, 1e-9]),
            km_tolerance: *r.pick(&[1e-9, 0.01, 0.1, 0.5, 2.0, 1e9]),
            km_init: r.pick(&["random", "pp", "pre", "pre"]).to_string(),
            km_l1: r.chance(0.3),
            ftrl_alpha: *r.pick(&[0.005, 0.05, 0.5]),
            ftrl_beta: *r.pick(&[0.0, 0.1, 1.0]),
            ftrl_l1: *r.pick(&[0.0, 0.1, 0.5, 0.9, 1.0]),
            ftrl_l2: *r.pick(&[0.0, 0.5, 1.0]),
        }
        .sane(),
        ops,
        faults,
        envs,
        storage_seed: r.next_u64() >> 16,
        offset: 0.0,
        f32: false,
        colmajor: r.chance(0.25),
        strided: r.chance(0.2),
        x_scale: if learner == Learner::Ftrl && r.chance(0.3) {
            *r.pick(&[8.0, 30.0, 100.0])
        } else if learner == Learner::Gnb && r.chance(0.3) {
            // features in other units: variances of 1e-3 or 1e3 instead of 1
            *r.pick(&[0.03, 30.0])
        } else {
            0.0
        },
        fractional: learner == Learner::Mnb && r.chance(0.3),
        decoy_params: learner == Learner::Ftrl && r.chance(0.25),
        first_by_fit: matches!(learner, Learner::Gnb | Learner::Mnb) && r.chance(0.25),
        nq: if r.chance(0.08) { r.usize_in(1025, 2300) } else { 0 },
    }
    .with_precision(r, learner)
}

// ---------------------------------------------------------------------------
// running a case: fault-free reference run, then the faulty twin
// ---------------------------------------------------------------------------
fn run_with<S: Sut>(sut: &S, c: &Case) -> Out {
    let d = make_data(c);
    // run 1: no faults, reference environment, reference model checked after every op
    let (mut out, snaps_a) = execute(sut, c, &d, false, true);
    if out.violation.is_some() {
        out.violation = out.violation.map(|v| format!("[fault-free] {v}"));
        return out;
    }
    // run 2: same log under faults (crash/restart from checkpoints, other environments)
    let (out_b, snaps_b) = execute(sut, c, &d, true, true);
    let mut o = out_b;
    o.ref_checks += out.ref_checks;
    o.predictions_compared += out.predictions_compared;
    o.ties_skipped += out.ties_skipped;
    if let Some(v) = &o.violation {
        o.violation = Some(format!("[with faults] {v}"));
        return o;
    }
    // history determinism: the model is a function of the delivered history alone
    for (i, (a, b)) in snaps_a.iter().zip(&snaps_b).enumerate() {
        if let (Some(a), Some(b)) = (a, b) {
            if a != b {
                o.violation = Some(format!(
                    "state after {i} operations depends on more than the history: fault-free run in the reference environment and the run with crashes/restarts in other environments differ: {}",
                    first_text_diff(a, b)
                ));
                return o;
            }
        }
    }
    if snaps_b.last().map(|s| s.is_none()).unwrap_or(true) {
        o.violation = Some("the run with faults never reached the end of the log".into());
    }
    o.history_hash = crate::fp::fnv(snaps_b.iter().flatten().map(|s| s.as_str()).collect::<Vec<_>>().join("|").as_bytes());
    o
}

pub fn run_case(c: &Case) -> Out {
    use std::marker::PhantomData as Ph;
    match (c.learner, c.f32) {
        (Learner::Gnb, false) => run_with(&NbSut::<f64> { gaussian: true, _f: Ph }, c),
        (Learner::Mnb, false) => run_with(&NbSut::<f64> { gaussian: false, _f: Ph }, c),
        (Learner::KMeans, false) => run_with(&KmSut::<f64>(Ph), c),
        (Learner::Ftrl, false) => run_with(&FtrlSut::<f64>(Ph), c),
        (Learner::Gnb, true) => run_with(&NbSut::<f32> { gaussian: true, _f: Ph }, c),
        (Learner::Mnb, true) => run_with(&NbSut::<f32> { gaussian: false, _f: Ph }, c),
        (Learner::KMeans, true) => run_with(&KmSut::<f32>(Ph), c),
        (Learner::Ftrl, true) => run_with(&FtrlSut::<f32>(Ph), c),
    }
}

pub fn run_case_json(case: &Value) -> Value {
    match serde_json::from_value::<Case>(case.clone()) {
        Ok(c) => serde_json::to_value(run_case(&c)).unwrap(),
        Err(e) => json!({"violation": Value::Null, "harness_error": format!("bad C15 case: {e}")}),
    }
}

#[allow(dead_code)]
pub fn axis0() -> Axis {
    Axis(0)
}

// ---------------------------------------------------------------------------
// the check
// ---------------------------------------------------------------------------
fn viol_class(v: &str) -> String {
    // class = message without numbers
    let mut s: String = v.chars().filter(|c| !c.is_ascii_digit() && *c != '.' && *c != '-').collect();
    s.truncate(90);
    s
}

fn shrink_candidates(c: &Case) -> Vec<Case> {
    let mut v = Vec::new();
    // drop one fault
    for i in 0..c.faults.len() {
        let mut d = c.clone();
        d.faults.remove(i);
        v.push(d);
    }
    // all environments → reference
    if c.envs.iter().any(|e| *e != Env::reference()) {
        let mut d = c.clone();
        d.envs = vec![Env::reference()];
        v.push(d);
        for i in 0..c.envs.len() {
            let mut d = c.clone();
            d.envs[i] = Env::reference();
            v.push(d);
        }
    }
    // drop trailing operations (keeps Predict/Update pairing valid)
    if c.ops.len() > 1 {
        for keep in [c.ops.len() / 2, c.ops.len() - 1] {
            let mut d = c.clone();
            d.ops.truncate(keep.max(1));
            v.push(d);
        }
    }
    // drop one Fit op in the middle (naive Bayes / k-means histories)
    if c.learner != Learner::Ftrl {
        for i in 1..c.ops.len() {
            let mut d = c.clone();
            d.ops.remove(i);
            v.push(d);
        }
    }
    if c.string_labels {
        let mut d = c.clone();
        d.string_labels = false;
        v.push(d);
    }
    if c.nq > 0 {
        let mut d = c.clone();
        d.nq = 0;
        v.push(d);
    }
    if c.fractional {
        let mut d = c.clone();
        d.fractional = false;
        v.push(d);
    }
    if c.decoy_params {
        let mut d = c.clone();
        d.decoy_params = false;
        v.push(d);
    }
    if c.x_scale != 0.0 {
        let mut d = c.clone();
        d.x_scale = 0.0;
        v.push(d);
    }
    v
}

pub fn minimise(c: &Case) -> (Case, String) {
    let mut cur = c.clone();
    let mut msg = run_case(&cur).violation.unwrap_or_default();
    let class = viol_class(&msg);
    let mut budget = 120;
    loop {
        let mut progressed = false;
        for cand in shrink_candidates(&cur) {
            if budget == 0 {
                return (cur, msg);
            }
            budget -= 1;
            if let Some(m) = run_case(&cand).violation {
                if viol_class(&m) == class {
                    cur = cand;
                    msg = m;
                    progressed = true;
                    break;
                }
            }
        }
        if !progressed {
            return (cur, msg);
        }
    }
}

pub fn check(tier: &str, seed: u64) -> i32 {
    use crate::driver::{run_in_fresh_process, run_jobs, Body, Job, JobKind};
    use crate::report::*;
    use std::collections::HashSet;
    let t0 = crate::seams::real_now_s();
    if crate::selftest::run() != 0 {
        harness_error("seam self-test failed");
    }
    let thorough = tier == "thorough";
    let total = if thorough { 160_000 } else { 8_000 };
    let mut r = Prng::new(seed ^ 0xC15C15);
    let learners = [Learner::Gnb, Learner::Mnb, Learner::KMeans, Learner::Ftrl];
    let cases: Vec<Case> = (0..total).map(|i| gen_case(&mut r, learners[i % 4], thorough && i % 5 == 0)).collect();
    let jobs: Vec<Job> = cases.iter().enumerate().map(|(i, c)| Job { id: i, kind: JobKind::C15 { case: serde_json::to_value(c).unwrap() } }).collect();
    let results = run_jobs(&jobs, crate::driver::host_workers());
    let mut agg = Out::default();
    let mut by_learner: BTreeMap<String, u64> = BTreeMap::new();
    let mut distinct: HashSet<(u64, u64)> = HashSet::new();
    let mut failing = Vec::new();
    let mut fault_free_cases = 0u64;
    let mut sim_procs = 0u64;
    for (i, res) in results.iter().enumerate() {
        let o: Out = match &res.body {
            Body::C15 { out } => {
                if let Some(e) = out.get("harness_error") {
                    harness_error(&format!("C15 worker: {e}"));
                }
                serde_json::from_value(out.clone()).unwrap_or_else(|e| harness_error(&format!("C15 result: {e}")))
            }
            Body::Timeout { seconds } => harness_error(&format!("a C15 history did not finish within {seconds} s: {}", serde_json::to_string(&cases[i]).unwrap_or_default())),
            _ => harness_error("wrong result kind"),
        };
        *by_learner.entry(format!("{:?}{}", cases[i].learner, if cases[i].f32 { "/f32" } else { "/f64" })).or_default() += 1;
        merge(&mut agg, &Out { violation: None, ..o.clone() });
        agg.crashes += o.crashes;
        agg.epochs += o.epochs;
        agg.steps += o.steps;
        agg.restart_between_batches_of_same_class += o.restart_between_batches_of_same_class;
        sim_procs += o.epochs as u64 + 1;
        if cases[i].faults.is_empty() {
            fault_free_cases += 1;
        }
        // non-trivial: a crash or a checkpoint restore actually happened, a label arrived
        // late / out of order, a batch lacked a class, or NotConverged was taken
        let nontrivial = o.crashes > 0 || o.reexecuted_ops > 0 || o.delayed_updates > 0 || o.class_missing_batches > 0 || o.not_converged > 0 || cases[i].cuts.len() > 1;
        if nontrivial {
            distinct.insert((o.history_hash, crate::fp::fnv(serde_json::to_string(&cases[i].faults).unwrap().as_bytes())));
        }
        if o.violation.is_some() {
            failing.push((i, o.violation.clone().unwrap()));
        }
    }
    let known = known_findings();
    let mut reported = 0;
    let mut classes: HashSet<String> = HashSet::new();
    for (i, msg) in &failing {
        let class = format!("{:?}|{}", cases[*i].learner, viol_class(msg));
        if !classes.insert(class.clone()) || classes.len() > 6 {
            continue;
        }
        let (min, mmsg) = minimise(&cases[*i]);
        // the minimised case must fail again in a fresh OS process before it is reported
        let fresh = run_in_fresh_process(&[Job { id: 0, kind: JobKind::C15 { case: serde_json::to_value(&min).unwrap() } }]);
        let confirmed = matches!(&fresh[0].body, Body::C15 { out } if !out["violation"].is_null());
        if !confirmed {
            eprintln!("HARNESS ERROR: C15 violation did not reproduce in a fresh process: {mmsg}");
            return 2;
        }
        let identity = format!("{:?}|{}", min.learner, viol_class(&mmsg));
        if let Some(k) = match_known(&known, "C15", &identity) {
            println!("KNOWN-FINDING: property=C15 {}", k.what);
            continue;
        }
        reported += 1;
        let tag = format!("{}-{:?}-{:08x}", seed, min.learner, crate::fp::fnv(serde_json::to_string(&min).unwrap().as_bytes()) as u32);
        report_violation("C15", &tag, &json!({"property": "C15", "seed": seed, "identity": identity, "case": min, "original_case": cases[*i], "violation": mmsg}));
        println!("  C15: {mmsg}");
    }
    let wall = crate::seams::real_now_s() - t0;
    let samples: Vec<Value> = [0usize, 1, 2, 3].iter().filter(|&&i| i < cases.len()).map(|&i| json!({"learner": cases[i].learner, "cuts": cases[i].cuts, "ops": cases[i].ops, "faults": cases[i].faults, "envs": cases[i].envs.iter().map(|e| e.describe()).collect::<Vec<_>>(), "hyper": cases[i].hyper})).collect();
    write_evidence(&Evidence {
        property_id: "C15",
        tier: tier.to_string(),
        seed,
        level: "exploration",
        coverage: json!({
            "evaluations": total,
            "distinct_nontrivial": distinct.len(),
            "rule": "one evaluation = one history (operation log + fault plan + environments) executed twice against the real learner: fault-free in the reference environment and with checkpoints/crashes/restarts in seeded environments, the reference model compared after every operation and all snapshots compared bit for bit between the two executions and across re-executions. Non-trivial: more than one batch, or a crash/restore happened, or label feedback arrived late, or a batch lacked a class, or the NotConverged path was taken; distinct = distinct (hash of all state snapshots of the history, fault plan) pairs, counted with a hash set",
            "samples": samples,
            "histories_by_learner": by_learner,
            "fault_free_histories": fault_free_cases,
            "simulated_processes": sim_procs,
            "operations_executed": agg.steps,
            "reference_model_checks": agg.ref_checks,
            "faults_fired": {
                "crashes": agg.crashes, "checkpoints_written": agg.checkpoints, "operations_re_executed_after_restart": agg.reexecuted_ops,
                "short_transfers_on_checkpoint_io": agg.short_writes, "interrupted_io_calls": agg.interrupts,
                "delayed_label_updates": agg.delayed_updates, "reordered_label_updates": agg.reordered_updates,
            },
            "reach_probes": {
                "batch_lacking_a_class": agg.class_missing_batches, "class_first_seen_after_first_batch": agg.class_first_seen_late,
                "not_converged_path_taken": agg.not_converged, "converged_path_taken": agg.converged,
                "restart_between_two_batches_of_the_same_class": agg.restart_between_batches_of_same_class,
                "ftrl_exact_zero_weights_checked": agg.exact_zero_weights, "ftrl_weights_just_above_threshold": agg.near_threshold_weights,
                "predictions_compared_with_reference_posterior": agg.predictions_compared, "tied_posteriors_skipped": agg.ties_skipped,
            },
            "violating_histories": failing.len(),
            "runs_per_hour": (total as f64 / wall.max(1e-9) * 3600.0) as u64,
            "real_components": ["linfa-bayes GaussianNb/MultinomialNb fit_with + predict", "linfa-clustering KMeans fit_with (on the simulated pool)", "linfa-ftrl fit_with/predict/update", "serde + bincode for checkpoints"],
            "simulated_components": ["batch source and re-delivery after restart", "label-feedback channel with delays (discrete-event queue)", "checkpoint file (SimFile)", "process crash/restart", "rayon-core, entropy, clock"],
        }),
        assumptions: vec![
            "variance tolerance admits linfa's per-batch re-derivation of the smoothing epsilon (an O(var_smoothing) effect, as in scikit-learn)".into(),
            "k-means and FTRL start states drawn from the seeded generator are not observable before the first operation; the recurrence is checked from the second operation on (always for precomputed centroids)".into(),
            "predictions are compared with the reference posterior only where its margin exceeds the tolerance".into(),
        ],
        wall_s: wall,
        violations: reported,
    });
    println!("C15 {tier}: {total} histories, {} distinct non-trivial, {} crashes, {} violating, {reported} reported, {wall:.1}s", distinct.len(), agg.crashes, failing.len());
    if reported > 0 {
        1
    } else {
        0
    }
}

pub fn replay(v: &Value) -> i32 {
    let c: Case = serde_json::from_value(v["case"].clone()).unwrap_or_else(|e| crate::report::harness_error(&format!("bad C15 replay: {e}")));
    match run_case(&c).violation {
        Some(m) => {
            println!("C15 replay: {m}");
            1
        }
        None => {
            println!("C15 replay: history passes on this tree");
            0
        }
    }
}
