//! The scenario catalogue shared by C20, C19 (and C15 for incremental learners).
//!
//! A *scenario* maps `(data seed, size class)` to a [`Fingerprint`]: it builds
//! tie-rich data with the harness PRNG, runs an estimator through linfa's public
//! API and records the bit patterns of every learned quantity and prediction.
//! A *model entry* additionally splits that into `build` (fit) and `fp`
//! (observe), which is what the persistence check (C19) needs.

use crate::fp::Fingerprint;
use crate::prng::Prng;
use serde::de::DeserializeOwned;
use serde::{Deserialize, Serialize};
use std::sync::Arc;

#[derive(Clone, Copy, Debug, PartialEq, Eq, Hash, Serialize, Deserialize)]
pub enum Size {
    /// smallest data on which the scenario is still meaningful (minimisation)
    S,
    /// quick tier
    M,
    /// large enough that every parallel loop splits at 16 workers
    L,
}

#[derive(Clone, Copy, Debug, Serialize, Deserialize, PartialEq, Eq, Hash)]
pub struct P {
    pub seed: u64,
    pub size: Size,
}

impl P {
    pub fn rng(&self, tag: u64) -> Prng {
        Prng::new(self.seed.wrapping_mul(0x9E3779B97F4A7C15) ^ tag)
    }
    /// pick by size class
    pub fn pick<T: Copy>(&self, s: T, m: T, l: T) -> T {
        match self.size {
            Size::S => s,
            Size::M => m,
            Size::L => l,
        }
    }
}

#[derive(Clone, Copy, Debug, PartialEq, Eq, Serialize, Deserialize)]
pub enum Kind {
    /// covered by C20's claim: must be bit-identical in every environment
    Claim,
    /// excluded by C20's own text and used as a positive control: expected to
    /// diverge when the named dimension varies
    ControlSchedule,
    ControlEntropy,
    /// excluded and only required not to crash (never compared)
    NoCompare,
}

pub type ScenFn = Arc<dyn Fn(&P) -> Fingerprint + Send + Sync>;

pub struct Scenario {
    pub name: String,
    pub krate: &'static str,
    pub kind: Kind,
    /// reaches rayon (k-means family): gets the full schedule sweep
    pub uses_pool: bool,
    pub run: ScenFn,
}

/// what one persist → restart → restore round trip found
#[derive(Clone, Debug, Default, Serialize, Deserialize)]
pub struct C19Outcome {
    /// restored@envB differs from orig@envB (the C19 violation), first difference
    pub restored_differs: Option<(String, String, String)>,
    /// `==` said "different" although it is defined
    pub eq_failed: bool,
    pub eq_checked: bool,
    /// (de)serialisation itself failed on an intact file
    pub codec_error: Option<String>,
    /// orig@envA differs from orig@envB — environment dependence, C20's subject
    pub env_dependent: Option<String>,
    pub bytes: usize,
    pub json_exact: Option<bool>,
    pub json_note: Option<String>,
    pub fields: usize,
    pub storage: crate::simfile::StorageStats,
    /// out-of-contract probes (torn file, flipped byte): outcome counts only, never a violation
    #[serde(default)]
    pub probes: std::collections::BTreeMap<String, u64>,
    /// a panic in process A / while observing the ORIGINAL value: the scenario itself
    /// is broken (harness error), not a persistence defect
    #[serde(default)]
    pub scenario_panic: Option<String>,
}

pub struct C19Cfg<'a> {
    pub env_a: &'a crate::env::Env,
    pub env_b: &'a crate::env::Env,
    pub storage_seed: u64,
}

pub type C19Fn = Arc<dyn Fn(&P, &C19Cfg) -> C19Outcome + Send + Sync>;

pub struct C19Entry {
    pub name: String,
    pub krate: &'static str,
    /// names of the serde-deriving types this entry round-trips (registry cross-check)
    pub types: Vec<&'static str>,
    pub run: C19Fn,
}

#[derive(Default)]
pub struct Registry {
    pub scenarios: Vec<Scenario>,
    pub c19: Vec<C19Entry>,
}

impl Registry {
    pub fn scenario(
        &mut self,
        name: &str,
        krate: &'static str,
        kind: Kind,
        uses_pool: bool,
        run: impl Fn(&P) -> Fingerprint + Send + Sync + 'static,
    ) {
        assert!(self.scenarios.iter().all(|s| s.name != name), "duplicate scenario {name}");
        self.scenarios.push(Scenario { name: name.to_string(), krate, kind, uses_pool, run: Arc::new(run) });
    }

    /// Register a serialisable value (fitted model, parameter set, selector …):
    /// `build` obtains it through the public API, `fp` records everything
    /// observable about it (learned quantities, predictions on query rows,
    /// `check()` verdict and refit for parameter sets).  Registers a C20 scenario
    /// `fp(build(p))` (when `kind` is given) and a C19 round-trip entry.
    #[allow(clippy::too_many_arguments)]
    pub fn model<T>(
        &mut self,
        name: &str,
        krate: &'static str,
        types: &[&'static str],
        c20: Option<(Kind, bool)>,
        build: fn(&P) -> T,
        fp: fn(&T, &P, &mut Fingerprint),
        eq: Option<fn(&T, &T) -> bool>,
    ) where
        T: Serialize + DeserializeOwned + Send + 'static,
    {
        if let Some((kind, uses_pool)) = c20 {
            self.scenario(name, krate, kind, uses_pool, move |p| {
                let m = build(p);
                let mut f = Fingerprint::new();
                fp(&m, p, &mut f);
                f
            });
        }
        assert!(self.c19.iter().all(|s| s.name != name), "duplicate c19 entry {name}");
        self.c19.push(C19Entry {
            name: name.to_string(),
            krate,
            types: types.to_vec(),
            run: Arc::new(move |p, cfg| crate::c19::round_trip::<T>(p, cfg, build, fp, eq)),
        });
    }

    pub fn find(&self, name: &str) -> Option<&Scenario> {
        self.scenarios.iter().find(|s| s.name == name)
    }
    pub fn find_c19(&self, name: &str) -> Option<&C19Entry> {
        self.c19.iter().find(|s| s.name == name)
    }
}
