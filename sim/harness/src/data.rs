//! Data generators.  All randomness comes from the harness PRNG (never from OS
//! entropy), so data is a pure function of `(seed, size)`.  Generators are
//! tie-rich on purpose — duplicate rows with conflicting labels, classes with
//! identical statistics, equidistant points, equal word frequencies — because
//! hash-order and schedule bugs only show at ties.

use crate::prng::Prng;
use ndarray::{Array1, Array2};

/// `k` Gaussian blobs in `d` dimensions, centres on a lattice (so that several
/// points are equidistant from two centres), plus a share of exact duplicates.
pub fn blobs(r: &mut Prng, n: usize, d: usize, k: usize, spread: f64) -> (Array2<f64>, Array1<usize>) {
    let mut x = Array2::<f64>::zeros((n, d));
    let mut y = Array1::<usize>::zeros(n);
    for i in 0..n {
        let c = i % k;
        y[i] = c;
        for j in 0..d {
            let centre = if j % 2 == 0 { (c as f64) * 4.0 } else { ((c * 7) % 5) as f64 * 3.0 };
            x[[i, j]] = centre + spread * r.normal();
        }
    }
    // exact duplicates (every 7th row copies an earlier row of the same blob)
    for i in (k..n).step_by(7) {
        let src = i - k;
        for j in 0..d {
            x[[i, j]] = x[[src, j]];
        }
    }
    // lattice points exactly half-way between the first two centres
    if k >= 2 && n > 8 {
        for i in 0..(n / 16).max(1) {
            let row = n - 1 - i;
            for j in 0..d {
                let c0 = if j % 2 == 0 { 0.0 } else { 0.0 };
                let c1 = if j % 2 == 0 { 4.0 } else { 3.0 * (7 % 5) as f64 };
                x[[row, j]] = (c0 + c1) / 2.0;
            }
        }
    }
    (x, y)
}

/// classification data with many ties: integer-valued features on a small grid,
/// duplicated rows carrying conflicting labels, and `k` classes of which two have
/// exactly the same rows (hence identical statistics)
pub fn tied_classes(r: &mut Prng, n: usize, d: usize, k: usize) -> (Array2<f64>, Array1<usize>) {
    let mut x = Array2::<f64>::zeros((n, d));
    let mut y = Array1::<usize>::zeros(n);
    let base = (n / 2).max(1);
    for i in 0..n {
        if i < base {
            for j in 0..d {
                x[[i, j]] = r.below(4) as f64;
            }
            y[i] = r.below(k as u64) as usize;
        } else {
            // copy an earlier row but give it the "next" label: conflicting duplicates
            let src = i - base;
            for j in 0..d {
                x[[i, j]] = x[[src % base, j]];
            }
            y[i] = (y[src % base] + 1) % k;
        }
    }
    (x, y)
}

/// linear regression data `y = X w + noise` with `t` target columns, offset and
/// badly scaled features
pub fn regression(r: &mut Prng, n: usize, d: usize, t: usize) -> (Array2<f64>, Array2<f64>) {
    let mut x = Array2::<f64>::zeros((n, d));
    for i in 0..n {
        for j in 0..d {
            let scale = [1.0, 10.0, 0.1, 100.0][j % 4];
            x[[i, j]] = scale * (r.normal() + j as f64);
        }
    }
    let w = Array2::from_shape_fn((d, t), |(j, c)| ((j + 2 * c) % 5) as f64 - 2.0);
    let mut y = x.dot(&w);
    for v in y.iter_mut() {
        *v += 0.1 * r.normal();
    }
    (x, y)
}

/// non-negative integer count features (multinomial naive Bayes, text-like)
pub fn counts(r: &mut Prng, n: usize, d: usize, k: usize) -> (Array2<f64>, Array1<usize>) {
    let mut x = Array2::<f64>::zeros((n, d));
    let mut y = Array1::<usize>::zeros(n);
    for i in 0..n {
        let c = i % k;
        y[i] = c;
        for j in 0..d {
            let boost = if j % k == c { 3 } else { 0 };
            x[[i, j]] = (r.below(3) + boost) as f64;
        }
    }
    (x, y)
}

const WORDS: &[&str] = &[
    "alpha", "beta", "gamma", "delta", "epsilon", "zeta", "eta", "theta", "iota", "kappa", "lambda", "mu",
    "the", "and", "Of", "ONE", "two", "Two", "three", "caf\u{e9}", "cafe\u{301}", "x", "yy", "zzz",
];

/// small corpus over a small alphabet; many words have exactly equal document
/// and term frequencies (so that a feature cap has to break ties)
pub fn corpus(r: &mut Prng, docs: usize) -> Vec<String> {
    let mut out = Vec::with_capacity(docs);
    for i in 0..docs {
        let len = 3 + r.below(8) as usize;
        let mut s = String::new();
        for k in 0..len {
            let w = if k % 2 == 0 { WORDS[(i + k) % WORDS.len()] } else { *r.pick(WORDS) };
            s.push_str(w);
            s.push_str(if r.chance(0.2) { ", " } else { " " });
        }
        out.push(s);
    }
    out.push(String::new()); // empty document
    out
}

/// query rows: some training rows, some fresh, some far away
pub fn queries(r: &mut Prng, train: &Array2<f64>, m: usize) -> Array2<f64> {
    let d = train.ncols();
    let n = train.nrows();
    Array2::from_shape_fn((m, d), |(i, j)| match i % 3 {
        0 => train[[(i * 31) % n, j]],
        1 => train[[(i * 17) % n, j]] + 0.5 * r.normal(),
        _ => 10.0 * r.normal(),
    })
}

pub fn to_f32(a: &Array2<f64>) -> Array2<f32> {
    a.mapv(|v| v as f32)
}
