//! Entropy and clock seams: the harness *binary* defines `getrandom`, `syscall`
//! and `clock_gettime`, so std's `RandomState` (hash-map keys), `rand`'s
//! `OsRng`/`thread_rng`/`from_entropy` (via the `getrandom` crate, which calls
//! `libc::syscall(SYS_getrandom, ..)`) and `Instant::now()` are served by the
//! simulator for every thread that carries a simulated thread id.  Threads with
//! id 0 (the driver) are passed through to the real kernel.

use crate::prng::mix3;
use libc::{c_int, c_long, c_uint, c_void, clockid_t, size_t, ssize_t, timespec};
use std::cell::Cell;
use std::sync::atomic::{AtomicU64, AtomicUsize, Ordering::SeqCst};

thread_local! {
    static TID: Cell<u64> = const { Cell::new(0) };
    static ECOUNT: Cell<u64> = const { Cell::new(0) };
}

static ENTROPY_SEED: AtomicU64 = AtomicU64::new(0);
static CLOCK_SEED: AtomicU64 = AtomicU64::new(0);
static CLOCK_NS: AtomicU64 = AtomicU64::new(0);

static ENTROPY_CALLS: AtomicU64 = AtomicU64::new(0);
static ENTROPY_BYTES: AtomicU64 = AtomicU64::new(0);
static HASHKEY_DRAWS: AtomicU64 = AtomicU64::new(0);
static CLOCK_READS: AtomicU64 = AtomicU64::new(0);

static REAL_SYSCALL: AtomicUsize = AtomicUsize::new(0);
static REAL_CLOCK: AtomicUsize = AtomicUsize::new(0);

const SYS_GETRANDOM: c_long = libc::SYS_getrandom;

/// give the calling thread a simulated identity (0 = pass-through)
pub fn set_thread_id(id: u64) {
    TID.with(|t| t.set(id));
    ECOUNT.with(|c| c.set(0));
}
pub fn thread_id() -> u64 {
    TID.with(|t| t.get())
}

#[derive(Clone, Copy, Debug, Default, PartialEq, Eq)]
pub struct SeamCounters {
    pub entropy_calls: u64,
    pub entropy_bytes: u64,
    pub hashkey_draws: u64,
    pub clock_reads: u64,
    pub sim_time_ns: u64,
}

/// start a simulated process: new entropy/clock streams, counters zeroed
pub fn begin_process(entropy_seed: u64, clock_seed: u64) {
    ENTROPY_SEED.store(entropy_seed, SeqCst);
    CLOCK_SEED.store(clock_seed, SeqCst);
    CLOCK_NS.store(0, SeqCst);
    ENTROPY_CALLS.store(0, SeqCst);
    ENTROPY_BYTES.store(0, SeqCst);
    HASHKEY_DRAWS.store(0, SeqCst);
    CLOCK_READS.store(0, SeqCst);
}
pub fn counters() -> SeamCounters {
    SeamCounters {
        entropy_calls: ENTROPY_CALLS.load(SeqCst),
        entropy_bytes: ENTROPY_BYTES.load(SeqCst),
        hashkey_draws: HASHKEY_DRAWS.load(SeqCst),
        clock_reads: CLOCK_READS.load(SeqCst),
        sim_time_ns: CLOCK_NS.load(SeqCst),
    }
}

type SyscallFn = unsafe extern "C" fn(c_long, c_long, c_long, c_long, c_long, c_long, c_long) -> c_long;
type ClockFn = unsafe extern "C" fn(clockid_t, *mut timespec) -> c_int;

unsafe fn real_syscall() -> SyscallFn {
    let mut p = REAL_SYSCALL.load(SeqCst);
    if p == 0 {
        p = libc::dlsym(libc::RTLD_NEXT, b"syscall\0".as_ptr() as *const _) as usize;
        if p == 0 {
            libc::abort();
        }
        REAL_SYSCALL.store(p, SeqCst);
    }
    std::mem::transmute::<usize, SyscallFn>(p)
}
unsafe fn real_clock() -> ClockFn {
    let mut p = REAL_CLOCK.load(SeqCst);
    if p == 0 {
        p = libc::dlsym(libc::RTLD_NEXT, b"clock_gettime\0".as_ptr() as *const _) as usize;
        if p == 0 {
            libc::abort();
        }
        REAL_CLOCK.store(p, SeqCst);
    }
    std::mem::transmute::<usize, ClockFn>(p)
}

unsafe fn fill_simulated(buf: *mut u8, len: usize, tid: u64) {
    let seed = ENTROPY_SEED.load(SeqCst);
    if len == 0 {
        // availability probe of the getrandom crate (once per OS process): not a draw
        return;
    }
    ENTROPY_CALLS.fetch_add(1, SeqCst);
    ENTROPY_BYTES.fetch_add(len as u64, SeqCst);
    if len == 16 {
        // the request std's RandomState makes once per thread
        HASHKEY_DRAWS.fetch_add(1, SeqCst);
    }
    let mut i = 0usize;
    while i < len {
        let c = ECOUNT.with(|c| {
            let v = c.get();
            c.set(v + 1);
            v
        });
        let w = mix3(seed, tid, c).to_le_bytes();
        let n = (len - i).min(8);
        std::ptr::copy_nonoverlapping(w.as_ptr(), buf.add(i), n);
        i += n;
    }
}

/// Interposed libc `getrandom` (std's weak reference resolves to this).
#[no_mangle]
pub unsafe extern "C" fn getrandom(buf: *mut c_void, len: size_t, flags: c_uint) -> ssize_t {
    let tid = TID.with(|t| t.get());
    if tid == 0 {
        return real_syscall()(SYS_GETRANDOM, buf as c_long, len as c_long, flags as c_long, 0, 0, 0) as ssize_t;
    }
    fill_simulated(buf as *mut u8, len, tid);
    len as ssize_t
}

/// Interposed libc `syscall`: everything but `SYS_getrandom` is forwarded.
#[no_mangle]
pub unsafe extern "C" fn syscall(
    num: c_long,
    a1: c_long,
    a2: c_long,
    a3: c_long,
    a4: c_long,
    a5: c_long,
    a6: c_long,
) -> c_long {
    if num == SYS_GETRANDOM {
        let tid = TID.with(|t| t.get());
        if tid != 0 {
            fill_simulated(a1 as *mut u8, a2 as usize, tid);
            return a2;
        }
    }
    real_syscall()(num, a1, a2, a3, a4, a5, a6)
}

/// Interposed `clock_gettime`: simulated threads read a simulated monotone
/// clock that jumps by a seeded amount (µs … hours) on every read.
#[no_mangle]
pub unsafe extern "C" fn clock_gettime(clk: clockid_t, ts: *mut timespec) -> c_int {
    let tid = TID.with(|t| t.get());
    if tid == 0 {
        return real_clock()(clk, ts);
    }
    let seed = CLOCK_SEED.load(SeqCst);
    let n = CLOCK_READS.fetch_add(1, SeqCst);
    let r = mix3(seed, n, 0xC10C);
    let jump: u64 = match r % 16 {
        0 => 3_600_000_000_000 + (r >> 8) % 7_200_000_000_000, // hours
        1 | 2 => 1_000_000_000 + (r >> 8) % 60_000_000_000,    // seconds..minute
        3..=6 => 1_000_000 + (r >> 8) % 1_000_000_000,         // ms..s
        _ => 1_000 + (r >> 8) % 1_000_000,                     // µs..ms
    };
    // saturating: a workload that reads the clock tens of millions of times must not wrap
    // the simulated clock (it stays monotone: once saturated it stands still)
    let prev = CLOCK_NS
        .fetch_update(SeqCst, SeqCst, |v| Some(v.saturating_add(jump).min(u64::MAX / 4)))
        .unwrap_or(0);
    let now = prev.saturating_add(jump).min(u64::MAX / 4);
    let base: u64 = if clk == libc::CLOCK_REALTIME {
        1_700_000_000 + mix3(seed, 1, 2) % 100_000_000
    } else {
        1_000 + mix3(seed, 3, 4) % 1_000_000
    };
    (*ts).tv_sec = (base + now / 1_000_000_000) as libc::time_t;
    (*ts).tv_nsec = (now % 1_000_000_000) as c_long;
    0
}

static ENVVARS_SEED: AtomicU64 = AtomicU64::new(0);
static REAL_GETENV: AtomicUsize = AtomicUsize::new(0);
static GETENV_CALLS: AtomicU64 = AtomicU64::new(0);
static GETENV_CACHE: std::sync::Mutex<Vec<(u64, Vec<u8>, Option<std::ffi::CString>)>> = std::sync::Mutex::new(Vec::new());

/// environment-variable seam: 0 = real environment
pub fn set_envvars_seed(seed: u64) {
    ENVVARS_SEED.store(seed, SeqCst);
    GETENV_CALLS.store(0, SeqCst);
}
pub fn getenv_calls() -> u64 {
    GETENV_CALLS.load(SeqCst)
}

/// variables the runtime itself, the allocator, the loader or the harness rely on
fn getenv_passthrough(name: &[u8]) -> bool {
    const EXACT: &[&[u8]] = &[b"TMPDIR", b"PATH", b"PWD", b"VERIF_ROOT", b"VERIF_SEED", b"VERIF_TIER", b"VERIF_ONLY", b"VERIF_WORKERS", b"VERIF_VERBOSE", b"VERIF_REPLAY_DIR", b"VERIF_EVIDENCE_DIR", b"LINFA_REPO", b"TERM"];
    const PREFIX: &[&[u8]] = &[b"RUST_", b"MALLOC_", b"LD_", b"GLIBC_", b"CARGO"];
    EXACT.contains(&name) || PREFIX.iter().any(|p| name.starts_with(p))
}

type GetenvFn = unsafe extern "C" fn(*const libc::c_char) -> *mut libc::c_char;

/// Interposed libc `getenv` (what `std::env::var` ends in).  For simulated threads under a
/// non-zero environment seed EVERY variable the code asks for — whatever its name — gets a
/// seeded answer: unset, or a small number (what thread counts, seeds, sizes and flags parse).
#[no_mangle]
pub unsafe extern "C" fn getenv(name: *const libc::c_char) -> *mut libc::c_char {
    let real: GetenvFn = {
        let mut p = REAL_GETENV.load(SeqCst);
        if p == 0 {
            p = libc::dlsym(libc::RTLD_NEXT, b"getenv\0".as_ptr() as *const _) as usize;
            if p == 0 {
                libc::abort();
            }
            REAL_GETENV.store(p, SeqCst);
        }
        std::mem::transmute::<usize, GetenvFn>(p)
    };
    let seed = ENVVARS_SEED.load(SeqCst);
    if seed == 0 || name.is_null() || TID.with(|t| t.get()) == 0 {
        return real(name);
    }
    let bytes = std::ffi::CStr::from_ptr(name).to_bytes();
    if getenv_passthrough(bytes) {
        return real(name);
    }
    GETENV_CALLS.fetch_add(1, SeqCst);
    let h = mix3(seed, crate::fp::fnv(bytes), 0xE27);
    let mut cache = match GETENV_CACHE.lock() {
        Ok(g) => g,
        Err(p) => p.into_inner(),
    };
    if let Some(e) = cache.iter().find(|e| e.0 == seed && e.1 == bytes) {
        return e.2.as_ref().map(|c| c.as_ptr() as *mut libc::c_char).unwrap_or(std::ptr::null_mut());
    }
    let val = if h % 4 == 0 { None } else { std::ffi::CString::new(format!("{}", 1 + (h >> 8) % 97)).ok() };
    cache.push((seed, bytes.to_vec(), val));
    let e = cache.last().unwrap();
    // the CString's heap buffer does not move when the Vec reallocates
    e.2.as_ref().map(|c| c.as_ptr() as *mut libc::c_char).unwrap_or(std::ptr::null_mut())
}

// ---------------------------------------------------------------------------
// threads the code under test creates itself (std::thread::spawn / scope)
// ---------------------------------------------------------------------------
static FOREIGN_SEED: AtomicU64 = AtomicU64::new(0);
static FOREIGN_THREADS: AtomicU64 = AtomicU64::new(0);
static REAL_PTHREAD_CREATE: AtomicUsize = AtomicUsize::new(0);
thread_local! {
    static CHILDREN: Cell<u64> = const { Cell::new(0) };
}

/// seed for the start-up delays of foreign threads; 0 = no delay (reference)
pub fn set_foreign_seed(seed: u64) {
    FOREIGN_SEED.store(seed, SeqCst);
    FOREIGN_THREADS.store(0, SeqCst);
}
pub fn foreign_threads() -> u64 {
    FOREIGN_THREADS.load(SeqCst)
}

type StartFn = extern "C" fn(*mut c_void) -> *mut c_void;
type PthreadCreateFn = unsafe extern "C" fn(*mut libc::pthread_t, *const libc::pthread_attr_t, StartFn, *mut c_void) -> c_int;

struct Foreign {
    start: StartFn,
    arg: *mut c_void,
    tid: u64,
    delay_ns: u64,
}

extern "C" fn foreign_trampoline(p: *mut c_void) -> *mut c_void {
    let f = unsafe { Box::from_raw(p as *mut Foreign) };
    // the thread belongs to the simulated process: its entropy and clock reads are simulated too
    set_thread_id(f.tid);
    if f.delay_ns > 0 {
        // "slow node" fault: a seeded start-up delay, so that the order in which such threads
        // reach their rendez-vous (channel sends, atomic updates, joins) follows the seed
        let ts = timespec { tv_sec: 0, tv_nsec: f.delay_ns as c_long };
        unsafe { libc::nanosleep(&ts, std::ptr::null_mut()) };
    }
    (f.start)(f.arg)
}

/// Interposed `pthread_create`: threads created BY simulated threads (i.e. by the code under
/// test; the harness creates its own threads from the pass-through driver thread) get a
/// simulated identity and a seeded start-up delay. They still run under the OS scheduler — the
/// simulator does not own their interleaving (DESIGN.md §9).
#[no_mangle]
pub unsafe extern "C" fn pthread_create(thread: *mut libc::pthread_t, attr: *const libc::pthread_attr_t, start: StartFn, arg: *mut c_void) -> c_int {
    let real: PthreadCreateFn = {
        let mut p = REAL_PTHREAD_CREATE.load(SeqCst);
        if p == 0 {
            p = libc::dlsym(libc::RTLD_NEXT, b"pthread_create\0".as_ptr() as *const _) as usize;
            if p == 0 {
                libc::abort();
            }
            REAL_PTHREAD_CREATE.store(p, SeqCst);
        }
        std::mem::transmute::<usize, PthreadCreateFn>(p)
    };
    let parent = TID.with(|t| t.get());
    if parent == 0 {
        return real(thread, attr, start, arg);
    }
    let k = CHILDREN.with(|c| {
        let v = c.get();
        c.set(v + 1);
        v
    });
    FOREIGN_THREADS.fetch_add(1, SeqCst);
    let tid = 1_000_000 + (mix3(parent, k, 0xF0E1) >> 24);
    let seed = FOREIGN_SEED.load(SeqCst);
    let delay_ns = if seed == 0 { 0 } else { mix3(seed, tid, 0xDE1A) % 600_000 };
    let f = Box::into_raw(Box::new(Foreign { start, arg, tid, delay_ns }));
    let rc = real(thread, attr, foreign_trampoline, f as *mut c_void);
    if rc != 0 {
        drop(Box::from_raw(f));
    }
    rc
}

/// real wall clock for evidence (`wall_s`), never the simulated one
pub fn real_now_s() -> f64 {
    unsafe {
        let mut ts: timespec = std::mem::zeroed();
        real_clock()(libc::CLOCK_MONOTONIC, &mut ts);
        ts.tv_sec as f64 + ts.tv_nsec as f64 * 1e-9
    }
}
