//! C01 — k-fold partitions the samples and leaves the dataset intact.
//!
//! The simulator plays the *user code* around which `iter_fold` /
//! `cross_validate` permute the caller's buffers in place: `SimFit` (implements
//! `Fit`), its model (implements `PredictInplace`) and the evaluation closure.
//! Every row carries an identity tag in every record and target cell, so each
//! callback reports exactly which rows it was shown.  Faults are injected at
//! `(fold, model, stage)` positions.  A reference k-fold over index vectors is
//! the oracle.

use crate::prng::{mix3, Prng};
use linfa::dataset::{AsTargets, DatasetBase, Records, TargetDim};
use linfa::traits::{Fit, PredictInplace};
use ndarray::{s, Array, Array1, Array2, ArrayView, ArrayView2, Axis, Dimension, Ix1, Ix2, RemoveAxis, ShapeBuilder};
use serde::{Deserialize, Serialize};
use std::cell::RefCell;
use std::panic::{self, AssertUnwindSafe};
use std::rc::Rc;

#[derive(Clone, Copy, Debug, PartialEq, Eq, Hash, Serialize, Deserialize, PartialOrd, Ord)]
pub enum Stage {
    Fit,
    Eval,
}
#[derive(Clone, Copy, Debug, PartialEq, Eq, Hash, Serialize, Deserialize, PartialOrd, Ord)]
pub struct Fault {
    pub fold: usize,
    pub model: usize,
    pub stage: Stage,
}
#[derive(Clone, Copy, Debug, PartialEq, Eq, Hash, Serialize, Deserialize)]
pub enum Api {
    Fold,
    IterFold,
    CrossValidate,
    CrossValidateSingle,
}
#[derive(Clone, Copy, Debug, PartialEq, Eq, Hash, Serialize, Deserialize)]
pub enum Layout {
    Owned,
    /// mutable view of the middle rows of a larger buffer (guard rows around it)
    ViewContig,
    /// every second row of a larger buffer (only `fold` accepts non-contiguous data)
    ViewStrided,
    /// owned arrays in column-major (Fortran) memory order (`fold` only)
    OwnedColMajor,
    /// transposed views of row-major buffers, i.e. column-major views (`fold` only)
    ViewTransposed,
}

#[derive(Clone, Debug, PartialEq, Eq, Hash, Serialize, Deserialize)]
pub struct Case {
    pub api: Api,
    pub n: usize,
    pub k: usize,
    pub nf: usize,
    /// 0 = single target column (one-dimensional targets), c >= 1 = two-dimensional with c columns
    pub nt: usize,
    pub layout: Layout,
    pub models: usize,
    pub faults: Vec<Fault>,
    pub f32acc: bool,
    /// evaluation values are multiples of 1/8 (sums exact) or arbitrary floats
    pub dyadic: bool,
    pub val_seed: u64,
    /// a callback that panics instead of returning (observation only — the
    /// statement speaks about *returning*)
    #[serde(default)]
    pub panic_at: Option<Fault>,
    /// some evaluation values are NaN / +-infinity
    #[serde(default)]
    pub special: bool,
    /// invoke the API twice in a row on the same dataset
    #[serde(default)]
    pub repeat: bool,
    /// the dataset carries per-sample weights (owned layout, in-place APIs): a weight belongs to
    /// its row - wherever weights are visible they must be the rows' own, and after the call
    /// returns they must be where they were
    #[serde(default)]
    pub weighted: bool,
    /// multi-column targets: the evaluation closure returns ONE overall value (an array of length
    /// one) instead of one value per target column; the reported score of every column is then
    /// the mean of that value (the accumulation broadcasts it)
    #[serde(default)]
    pub eval_scalar: bool,
    /// the simulated models hand out column-major prediction buffers
    #[serde(default)]
    pub pred_colmajor: bool,
}

#[derive(Clone, Debug, Default, Serialize, Deserialize)]
pub struct CaseOut {
    pub violation: Option<String>,
    pub fired: Vec<Fault>,
    pub fit_calls: usize,
    pub eval_calls: usize,
    pub returned_err: bool,
    /// panic probe: buffer left permuted after a panicking callback
    pub left_permuted_after_panic: Option<bool>,
    pub tail_rows: usize,
}

const IDM: f64 = 32.0;

fn rec_val(id: usize, j: usize) -> f64 {
    id as f64 * IDM + j as f64
}
fn tgt_val(id: usize, c: usize) -> f64 {
    id as f64 * IDM + 16.0 + c as f64
}
fn id_of(v: f64) -> (usize, usize) {
    ((v / IDM).floor() as usize, (v % IDM) as usize)
}
const TAG_ID: f64 = 1_048_576.0; // 2^20
fn pred_val(id: usize, fold: usize, model: usize, c: usize) -> f64 {
    id as f64 * TAG_ID + (fold * 1024 + model * 16 + c) as f64
}

#[derive(Debug)]
pub enum SimError {
    Injected(Fault),
    Linfa(linfa::error::Error),
}
impl std::fmt::Display for SimError {
    fn fmt(&self, f: &mut std::fmt::Formatter<'_>) -> std::fmt::Result {
        match self {
            SimError::Injected(x) => write!(f, "injected {:?}", x),
            SimError::Linfa(e) => write!(f, "linfa: {e}"),
        }
    }
}
impl std::error::Error for SimError {}
impl From<linfa::error::Error> for SimError {
    fn from(e: linfa::error::Error) -> Self {
        SimError::Linfa(e)
    }
}

#[derive(Default)]
struct Log {
    violations: Vec<String>,
    fired: Vec<Fault>,
    /// (block the training view was the complement of, model)
    fits: Vec<(usize, usize)>,
    /// (validation block, model, fold the model was trained on)
    evals: Vec<(usize, usize, usize)>,
}
type SharedLog = Rc<RefCell<Log>>;

fn eval_msg(f: &Fault) -> String {
    format!("injected eval fault f{} m{}", f.fold, f.model)
}

/// rows of a record matrix: every cell of a row must carry the same id and its own column
fn record_ids(x: &ArrayView2<f64>, nf: usize) -> Result<Vec<usize>, String> {
    if x.ncols() != nf {
        return Err(format!("records have {} columns, expected {nf}", x.ncols()));
    }
    if nf == 0 {
        // a dataset without feature columns: rows carry no tag, only their number is observable
        return Ok(vec![0; x.nrows()]);
    }
    let mut ids = Vec::with_capacity(x.nrows());
    for r in x.axis_iter(Axis(0)) {
        let (id0, _) = id_of(r[0]);
        for (j, &v) in r.iter().enumerate() {
            let (id, col) = id_of(v);
            if id != id0 || col != j {
                return Err(format!("record row mixes samples/columns: cell {j} holds id {id} col {col}, row id {id0}"));
            }
        }
        ids.push(id0);
    }
    Ok(ids)
}
fn target_ids<I: TargetDim>(t: &ArrayView<f64, I>, ncols: usize) -> Result<Vec<usize>, String> {
    let mut ids = Vec::new();
    for r in t.axis_iter(Axis(0)) {
        let mut first = None;
        let mut cnt = 0;
        for (c, &v) in r.iter().enumerate() {
            let (id, col) = id_of(v);
            if col != 16 + c {
                return Err(format!("target cell column tag {col} at column {c}"));
            }
            if *first.get_or_insert(id) != id {
                return Err("target row mixes samples".into());
            }
            cnt += 1;
        }
        if cnt != ncols {
            return Err(format!("target row has {cnt} columns, expected {ncols}"));
        }
        ids.push(first.unwrap_or(0));
    }
    Ok(ids)
}

struct Geometry {
    n: usize,
    k: usize,
    fs: usize,
}
impl Geometry {
    fn block(&self, i: usize) -> std::ops::Range<usize> {
        // ids are 1-based
        i * self.fs + 1..(i + 1) * self.fs + 1
    }
    /// which block is the complement of `ids` (as a multiset), if any
    fn complement_block(&self, ids: &[usize]) -> Result<usize, String> {
        if ids.len() != self.n - self.fs {
            return Err(format!("training part has {} rows, expected {}", ids.len(), self.n - self.fs));
        }
        let mut seen = vec![0u32; self.n + 1];
        for &id in ids {
            if id == 0 || id > self.n {
                return Err(format!("training part contains unknown sample id {id}"));
            }
            seen[id] += 1;
        }
        if let Some(d) = (1..=self.n).find(|&i| seen[i] > 1) {
            return Err(format!("sample {d} appears {} times in a training part", seen[d]));
        }
        let missing: Vec<usize> = (1..=self.n).filter(|&i| seen[i] == 0).collect();
        for i in 0..self.k {
            if missing.iter().copied().eq(self.block(i)) {
                return Ok(i);
            }
        }
        Err(format!("samples missing from a training part are {missing:?}, not a consecutive validation block of {} rows", self.fs))
    }
    fn which_block(&self, ids: &[usize]) -> Result<usize, String> {
        for i in 0..self.k {
            if ids.iter().copied().eq(self.block(i)) {
                return Ok(i);
            }
        }
        Err(format!("validation part {ids:?} is not a consecutive block of {} rows in original order", self.fs))
    }
}

struct SimFit<I> {
    pred_colmajor: bool,
    model: usize,
    geo: Rc<Geometry>,
    nf: usize,
    ncols: usize,
    faults: Vec<Fault>,
    panic_at: Option<Fault>,
    log: SharedLog,
    _i: std::marker::PhantomData<I>,
}
struct SimModel<I> {
    /// hand out column-major (Fortran-order) prediction buffers - legal for any model, and what
    /// linfa's own multi-target wrapper produces
    colmajor: bool,
    model: usize,
    fold: usize,
    nf: usize,
    ncols: usize,
    tshape: I,
    log: SharedLog,
}

impl<'c, I: TargetDim> Fit<ArrayView2<'c, f64>, ArrayView<'c, f64, I>, SimError> for SimFit<I> {
    type Object = SimModel<I>;
    fn fit(&self, train: &DatasetBase<ArrayView2<'c, f64>, ArrayView<'c, f64, I>>) -> Result<SimModel<I>, SimError> {
        let mut log = self.log.borrow_mut();
        let rid = record_ids(train.records(), self.nf);
        let tid = target_ids(&train.as_targets(), self.ncols);
        let mut fold = 0;
        match (rid, tid) {
            (Ok(r), Ok(t)) => {
                if self.nf > 0 && r != t {
                    log.violations.push("a record is no longer attached to its own target in a training part".into());
                }
                if r.len() != t.len() {
                    log.violations.push("training records and targets have different numbers of rows".into());
                }
                match self.geo.complement_block(if self.nf > 0 { &r } else { &t }) {
                    Ok(i) => fold = i,
                    Err(e) => log.violations.push(e),
                }
            }
            (Err(e), _) | (_, Err(e)) => log.violations.push(e),
        }
        // sample weights, where a training part shows any, are the rows' own
        if let (Some(w), Ok(t)) = (train.weights(), target_ids(&train.as_targets(), self.ncols)) {
            if w.len() == t.len() && w.iter().zip(&t).any(|(w, id)| *w != weight_of(*id)) {
                log.violations.push("a training part pairs a sample with another sample's weight".into());
            }
        }
        log.fits.push((fold, self.model));
        let here = Fault { fold, model: self.model, stage: Stage::Fit };
        if self.panic_at == Some(here) {
            drop(log);
            panic!("injected panic in fit");
        }
        if self.faults.contains(&here) {
            log.fired.push(here);
            return Err(SimError::Injected(here));
        }
        Ok(SimModel {
            colmajor: self.pred_colmajor,
            model: self.model,
            fold,
            nf: self.nf,
            ncols: self.ncols,
            tshape: train.as_targets().raw_dim(),
            log: self.log.clone(),
        })
    }
}

impl<'a, I: TargetDim> PredictInplace<ArrayView2<'a, f64>, Array<f64, I>> for SimModel<I> {
    fn predict_inplace<'b>(&'b self, x: &'b ArrayView2<'a, f64>, y: &mut Array<f64, I>) {
        match record_ids(x, self.nf) {
            Err(e) => self.log.borrow_mut().violations.push(format!("validation records: {e}")),
            Ok(ids) => {
                if y.len_of(Axis(0)) != ids.len() {
                    self.log.borrow_mut().violations.push("prediction target has wrong number of rows".into());
                    return;
                }
                // additive on purpose: the trait contract is `predict = default_target
                // + predict_inplace`, so a model may rely on the buffer it is handed being
                // the one its own default_target produced (zeros here)
                for (mut row, id) in y.axis_iter_mut(Axis(0)).zip(ids) {
                    for (c, v) in row.iter_mut().enumerate() {
                        *v += pred_val(id, self.fold, self.model, c);
                    }
                }
            }
        }
    }
    fn default_target(&self, x: &ArrayView2<'a, f64>) -> Array<f64, I> {
        let _ = self.ncols;
        let shape = self.tshape.clone().nsamples(x.nrows());
        if self.colmajor {
            Array::zeros(shape.f())
        } else {
            Array::zeros(shape)
        }
    }
}

fn eval_value(case: &Case, fold: usize, model: usize, c: usize) -> f64 {
    let r = mix3(case.val_seed, (fold * 64 + model) as u64, c as u64);
    if case.special && !case.dyadic {
        // "any evaluation closure": a fold score may be NaN or infinite, and the mean of the
        // fold scores is then whatever IEEE arithmetic makes of it
        match r % 11 {
            0 => return f64::NAN,
            1 => return f64::INFINITY,
            2 => return f64::NEG_INFINITY,
            _ => {}
        }
    }
    if case.dyadic {
        (r % 64) as f64 / 8.0
    } else {
        let u = (r >> 11) as f64 / (1u64 << 53) as f64;
        let v = (u - 0.5) * 2000.0;
        if case.f32acc {
            v as f32 as f64
        } else {
            v
        }
    }
}

/// the evaluation closure's body, shared by all instantiations
fn eval_body<I: TargetDim>(
    case: &Case,
    geo: &Geometry,
    ncols: usize,
    log: &SharedLog,
    pred: &Array<f64, I>,
    truth: &ArrayView<f64, I>,
) -> Result<Vec<f64>, linfa::error::Error> {
    let mut lg = log.borrow_mut();
    let mut fold = 0;
    let mut model = 0;
    match target_ids(truth, ncols) {
        Err(e) => lg.violations.push(format!("validation targets: {e}")),
        Ok(ids) => {
            match geo.which_block(&ids) {
                Ok(i) => fold = i,
                Err(e) => lg.violations.push(e),
            }
            if pred.len_of(Axis(0)) != ids.len() {
                lg.violations.push(format!("{} predictions for {} validation rows", pred.len_of(Axis(0)), ids.len()));
            } else {
                let mut trained = None;
                for (row, id) in pred.axis_iter(Axis(0)).zip(&ids) {
                    for (c, &v) in row.iter().enumerate() {
                        let pid = (v / TAG_ID).floor() as usize;
                        let rest = (v % TAG_ID) as usize;
                        let (pf, pm, pc) = (rest / 1024, (rest % 1024) / 16, rest % 16);
                        if (case.nf > 0 && pid != *id) || pc != c {
                            lg.violations.push(format!("prediction row for sample {pid} (col {pc}) evaluated against target of sample {id} (col {c})"));
                        }
                        model = pm;
                        trained.get_or_insert(pf);
                        if trained != Some(pf) {
                            lg.violations.push("predictions of several models mixed in one evaluation".into());
                        }
                    }
                }
                if let Some(pf) = trained {
                    if pf != fold {
                        lg.violations.push(format!(
                            "validation block {fold} evaluated with a model trained on the complement of block {pf} (it saw the validation rows)"
                        ));
                    }
                    lg.evals.push((fold, model, pf));
                }
            }
        }
    }
    let here = Fault { fold, model, stage: Stage::Eval };
    if case.panic_at == Some(here) {
        drop(lg);
        panic!("injected panic in eval");
    }
    if case.faults.contains(&here) {
        lg.fired.push(here);
        return Err(linfa::error::Error::Parameters(eval_msg(&here)));
    }
    Ok((0..ncols).map(|c| eval_value(case, fold, model, c)).collect())
}

struct Buffers {
    rec: Array2<f64>,
    tgt2: Array2<f64>,
    pad: usize,
    step: usize,
}
const GUARD: f64 = -7.25;

fn make_buffers(case: &Case) -> Buffers {
    let (pad, step) = match case.layout {
        Layout::Owned | Layout::OwnedColMajor | Layout::ViewTransposed => (0, 1),
        Layout::ViewContig => (3, 1),
        Layout::ViewStrided => (1, 2),
    };
    let rows = pad * 2 + case.n * step;
    let ncols = case.nt.max(1);
    let mut rec = Array2::from_elem((rows, case.nf), GUARD);
    let mut tgt2 = Array2::from_elem((rows, ncols), GUARD);
    for i in 0..case.n {
        let r = pad + i * step;
        for j in 0..case.nf {
            rec[[r, j]] = rec_val(i + 1, j);
        }
        for c in 0..ncols {
            tgt2[[r, c]] = tgt_val(i + 1, c);
        }
    }
    Buffers { rec, tgt2, pad, step }
}

fn check_scores(case: &Case, got: &[f64], ncols: usize, out: &mut CaseOut) {
    // reference: arithmetic mean over the k folds, accumulated in the score type
    for m in 0..case.models {
        for c in 0..ncols {
            let expect = if case.f32acc {
                let mut acc = 0f32;
                for i in 0..case.k {
                    acc += eval_value(case, i, m, if case.eval_scalar { 0 } else { c }) as f32;
                }
                (acc / case.k as f32) as f64
            } else {
                let mut acc = 0f64;
                for i in 0..case.k {
                    acc += eval_value(case, i, m, if case.eval_scalar { 0 } else { c });
                }
                acc / case.k as f64
            };
            let g = got[m * ncols + c];
            let ok = if expect.is_nan() || g.is_nan() {
                expect.is_nan() && g.is_nan()
            } else if expect.is_infinite() || g.is_infinite() {
                g == expect
            } else if case.dyadic {
                g == expect
            } else {
                let tol = if case.f32acc { 1e-4 } else { 1e-10 };
                (g - expect).abs() <= tol * (1.0 + expect.abs())
            };
            if !ok {
                out.violation.get_or_insert(format!(
                    "score for model {m} target column {c} is {g}, the mean over the {} folds of the evaluation values is {expect}",
                    case.k
                ));
            }
        }
    }
}

/// run cross_validate on a dataset with targets of dimension `I`
#[allow(clippy::too_many_arguments)]
fn drive_cv<I, D, S>(
    case: &Case,
    ds: &mut DatasetBase<ndarray::ArrayBase<D, Ix2>, ndarray::ArrayBase<S, I>>,
    geo: Rc<Geometry>,
    log: &SharedLog,
    out: &mut CaseOut,
) where
    I: TargetDim,
    D: ndarray::DataMut<Elem = f64>,
    S: ndarray::DataMut<Elem = f64>,
{
    let ncols = case.nt.max(1);
    let fits: Vec<SimFit<I>> = (0..case.models)
        .map(|m| SimFit {
            pred_colmajor: case.pred_colmajor,
            model: m,
            geo: geo.clone(),
            nf: case.nf,
            ncols,
            faults: case.faults.clone(),
            panic_at: case.panic_at,
            log: log.clone(),
            _i: std::marker::PhantomData,
        })
        .collect();
    let mut small_shape = ds.targets.raw_dim().remove_axis(Axis(0));
    if case.eval_scalar {
        // one overall value whatever the number of target columns
        for s in small_shape.slice_mut() {
            *s = 1;
        }
    }
    let nvals = small_shape.size();
    macro_rules! go {
        ($t:ty) => {{
            let r: Result<Array<$t, I>, SimError> = ds.cross_validate(case.k, &fits, |pred, truth| {
                eval_body(case, &geo, ncols, log, pred, truth).map(|v| {
                    Array::from_shape_vec(small_shape.clone(), v.into_iter().take(nvals).map(|x| x as $t).collect()).expect("score shape")
                })
            });
            r.map(|a| a.iter().map(|&v| v as f64).collect::<Vec<f64>>())
        }};
    }
    let res = if case.f32acc { go!(f32) } else { go!(f64) };
    finish_cv(case, res, ncols, log, out);
}

fn finish_cv(case: &Case, res: Result<Vec<f64>, SimError>, ncols: usize, log: &SharedLog, out: &mut CaseOut) {
    let lg = log.borrow();
    match res {
        Ok(scores) => {
            if !lg.fired.is_empty() {
                out.violation.get_or_insert(format!("{:?} failed but cross-validation returned Ok", lg.fired));
            } else if scores.len() != case.models * ncols {
                out.violation.get_or_insert(format!("score array has {} entries, expected {}", scores.len(), case.models * ncols));
            } else {
                check_scores(case, &scores, ncols, out);
                // fault-free: every (fold, model) evaluated exactly once
                let mut seen = vec![0u32; case.k * case.models];
                for &(f, m, _) in &lg.evals {
                    if f < case.k && m < case.models {
                        seen[f * case.models + m] += 1;
                    }
                }
                if let Some(p) = seen.iter().position(|&c| c != 1) {
                    out.violation.get_or_insert(format!(
                        "validation block {} was evaluated {} times for model {} (each of the first k*floor(n/k) samples must be validated exactly once)",
                        p / case.models,
                        seen[p],
                        p % case.models
                    ));
                }
            }
        }
        Err(e) => {
            out.returned_err = true;
            let surfaced = match &e {
                SimError::Injected(f) => lg.fired.contains(f),
                SimError::Linfa(linfa::error::Error::Parameters(msg)) => lg.fired.iter().any(|f| f.stage == Stage::Eval && &eval_msg(f) == msg),
                _ => false,
            };
            if lg.fired.is_empty() {
                out.violation.get_or_insert(format!("cross-validation returned Err({e}) although no callback failed"));
            } else if !surfaced {
                out.violation.get_or_insert(format!("returned error `{e}` is none of the errors the callbacks returned ({:?})", lg.fired));
            }
        }
    }
}

fn drive_iter_fold<I, D, S>(
    case: &Case,
    ds: &mut DatasetBase<ndarray::ArrayBase<D, Ix2>, ndarray::ArrayBase<S, I>>,
    geo: Rc<Geometry>,
    log: &SharedLog,
    out: &mut CaseOut,
) where
    I: TargetDim,
    D: ndarray::DataMut<Elem = f64>,
    S: ndarray::DataMut<Elem = f64>,
{
    let ncols = case.nt.max(1);
    let fit = SimFit::<I> {
        pred_colmajor: case.pred_colmajor,
        model: 0,
        geo: geo.clone(),
        nf: case.nf,
        ncols,
        faults: vec![],
        panic_at: case.panic_at,
        log: log.clone(),
        _i: std::marker::PhantomData,
    };
    let pairs: Vec<(usize, Vec<usize>, Vec<usize>)> = ds
        .iter_fold(case.k, |train| fit.fit(train).map(|m| m.fold).unwrap_or(usize::MAX))
        .map(|(fold, valid)| {
            let r = record_ids(valid.records(), case.nf).unwrap_or_else(|e| {
                log.borrow_mut().violations.push(e);
                vec![]
            });
            let t = target_ids(&valid.as_targets(), ncols).unwrap_or_else(|e| {
                log.borrow_mut().violations.push(e);
                vec![]
            });
            (fold, r, t)
        })
        .collect();
    if pairs.len() != case.k {
        out.violation.get_or_insert(format!("iter_fold yielded {} pairs for k = {}", pairs.len(), case.k));
    }
    for (i, (fold, r, t)) in pairs.iter().enumerate() {
        let r = if case.nf > 0 { r } else { t };
        if r.len() != t.len() {
            out.violation.get_or_insert("validation records and targets have different numbers of rows".into());
        }
        if r != t {
            out.violation.get_or_insert("a validation record is no longer attached to its own target".into());
        }
        match geo.which_block(r) {
            Ok(b) if b == i && *fold == i => {}
            Ok(b) => {
                out.violation.get_or_insert(format!("pair {i}: validation part is block {b}, model was trained on the complement of block {fold}"));
            }
            Err(e) => {
                out.violation.get_or_insert(format!("pair {i}: {e}"));
            }
        }
    }
}

fn drive_fold<D, T>(case: &Case, ds: &DatasetBase<ndarray::ArrayBase<D, Ix2>, T>, geo: &Geometry, out: &mut CaseOut)
where
    D: ndarray::Data<Elem = f64>,
    T: AsTargets<Elem = f64> + linfa::dataset::FromTargetArray<'static>,
    T::Owned: AsTargets<Elem = f64>,
{
    let ncols = case.nt.max(1);
    let pairs = ds.fold(case.k);
    if pairs.len() != case.k {
        out.violation.get_or_insert(format!("fold({}) returned {} pairs", case.k, pairs.len()));
    }
    for (i, (train, valid)) in pairs.iter().enumerate() {
        let check = |d: &DatasetBase<Array2<f64>, T::Owned>| -> Result<Vec<usize>, String> {
            let r = record_ids(&d.records().view(), case.nf)?;
            let t = target_ids(&d.as_targets(), ncols)?;
            if r.len() != t.len() {
                return Err("records and targets have different numbers of rows".into());
            }
            if case.nf == 0 {
                return Ok(t);
            }
            if r != t {
                return Err("a record is no longer attached to its own target".into());
            }
            Ok(r)
        };
        match (check(train), check(valid)) {
            (Ok(tr), Ok(va)) => {
                match geo.which_block(&va) {
                    Ok(b) if b == i => {}
                    Ok(b) => {
                        out.violation.get_or_insert(format!("pair {i}: validation part is block {b}"));
                    }
                    Err(e) => {
                        out.violation.get_or_insert(format!("pair {i}: {e}"));
                    }
                }
                match geo.complement_block(&tr) {
                    Ok(b) if b == i => {}
                    Ok(b) => {
                        out.violation.get_or_insert(format!("pair {i}: training part is the complement of block {b}"));
                    }
                    Err(e) => {
                        out.violation.get_or_insert(format!("pair {i}: {e}"));
                    }
                }
            }
            (Err(e), _) | (_, Err(e)) => {
                out.violation.get_or_insert(format!("pair {i}: {e}"));
            }
        }
    }
}

/// weight of the row with identity `id` (exactly representable in f32)
fn weight_of(id: usize) -> f32 {
    7000.0 + id as f32
}
/// one weight per buffer row, derived from the row's identity tag in the targets
fn row_weights(b: &Buffers) -> Array1<f32> {
    Array1::from_iter((0..b.tgt2.nrows()).map(|r| weight_of(id_of(b.tgt2[[r, 0]]).0)))
}
fn check_weights_after(case: &Case, b: &Buffers, now: Option<&[f32]>, log: &SharedLog) {
    if !case.weighted {
        return;
    }
    let want = row_weights(b);
    match now {
        Some(w) if w == want.as_slice().unwrap() => {}
        Some(_) => log.borrow_mut().violations.push(format!("after {:?} returned the sample weights are no longer in their original order", case.api)),
        None => log.borrow_mut().violations.push(format!("after {:?} returned the dataset lost its sample weights", case.api)),
    }
}

/// Run one case against the real `linfa::DatasetBase` code.
pub fn run_case(case: &Case) -> CaseOut {
    let mut b = make_buffers(case);
    let pristine_rec = b.rec.clone();
    let pristine_tgt = b.tgt2.clone();
    let mut out = run_once(case, &mut b, &pristine_rec, &pristine_tgt);
    if case.repeat && out.violation.is_none() && case.panic_at.is_none() {
        // the same call once more on the same dataset: nothing may be left behind by the first
        let second = run_once(case, &mut b, &pristine_rec, &pristine_tgt);
        out.fit_calls += second.fit_calls;
        out.eval_calls += second.eval_calls;
        if let Some(v) = second.violation {
            out.violation = Some(format!("second call on the same dataset: {v}"));
        }
    }
    out
}

fn run_once(case: &Case, b: &mut Buffers, pristine_rec: &Array2<f64>, pristine_tgt: &Array2<f64>) -> CaseOut {
    let mut out = CaseOut::default();
    let fs = case.n / case.k;
    let geo = Rc::new(Geometry { n: case.n, k: case.k, fs });
    out.tail_rows = case.n - fs * case.k;
    let log: SharedLog = Rc::new(RefCell::new(Log::default()));
    let (pad, step, n) = (b.pad, b.step, case.n);
    let single = case.nt == 0;

    let body = AssertUnwindSafe(|| {
        let rows = if step == 1 { s![pad..pad + n;1, ..] } else { s![pad..pad + n * step;2, ..] };
        match case.api {
            Api::Fold => {
                // immutable API: owned data and (possibly strided) views
                if single {
                    let t1: Array1<f64> = b.tgt2.column(0).to_owned();
                    match case.layout {
                        Layout::Owned => drive_fold(case, &DatasetBase::new(b.rec.clone(), t1), &geo, &mut out),
                        Layout::OwnedColMajor => {
                            let mut f = Array2::<f64>::zeros((b.rec.nrows(), b.rec.ncols()).f());
                            f.assign(&b.rec);
                            drive_fold(case, &DatasetBase::new(f, t1), &geo, &mut out)
                        }
                        Layout::ViewTransposed => {
                            let tr = b.rec.t().to_owned(); // standard layout of the transpose
                            drive_fold(case, &DatasetBase::new(tr.t(), t1.view()), &geo, &mut out)
                        }
                        _ => {
                            let tv = if step == 1 { t1.slice(s![pad..pad + n;1]) } else { t1.slice(s![pad..pad + n * step;2]) };
                            drive_fold(case, &DatasetBase::new(b.rec.slice(rows), tv), &geo, &mut out)
                        }
                    }
                } else {
                    match case.layout {
                        Layout::Owned => drive_fold(case, &DatasetBase::new(b.rec.clone(), b.tgt2.clone()), &geo, &mut out),
                        Layout::OwnedColMajor => {
                            let mut f = Array2::<f64>::zeros((b.rec.nrows(), b.rec.ncols()).f());
                            f.assign(&b.rec);
                            let mut ft = Array2::<f64>::zeros((b.tgt2.nrows(), b.tgt2.ncols()).f());
                            ft.assign(&b.tgt2);
                            drive_fold(case, &DatasetBase::new(f, ft), &geo, &mut out)
                        }
                        Layout::ViewTransposed => {
                            let tr = b.rec.t().to_owned();
                            let tt = b.tgt2.t().to_owned();
                            drive_fold(case, &DatasetBase::new(tr.t(), tt.t()), &geo, &mut out)
                        }
                        _ => drive_fold(case, &DatasetBase::new(b.rec.slice(rows), b.tgt2.slice(rows)), &geo, &mut out),
                    }
                }
            }
            Api::IterFold | Api::CrossValidate | Api::CrossValidateSingle => {
                assert!(step == 1, "in-place APIs need contiguous data");
                macro_rules! run_on {
                    ($ds:expr) => {{
                        let mut ds = $ds;
                        match case.api {
                            Api::IterFold => drive_iter_fold(case, &mut ds, geo.clone(), &log, &mut out),
                            _ => drive_cv(case, &mut ds, geo.clone(), &log, &mut out),
                        }
                    }};
                }
                if single {
                    let mut t1: Array1<f64> = b.tgt2.column(0).to_owned();
                    if case.api == Api::CrossValidateSingle {
                        let fits: Vec<SimFit<Ix1>> = (0..case.models)
                            .map(|m| SimFit {
                                pred_colmajor: case.pred_colmajor,
                                model: m,
                                geo: geo.clone(),
                                nf: case.nf,
                                ncols: 1,
                                faults: case.faults.clone(),
                                panic_at: case.panic_at,
                                log: log.clone(),
                                _i: std::marker::PhantomData,
                            })
                            .collect();
                        let mut ds = DatasetBase::new(b.rec.slice_mut(rows), t1.slice_mut(s![pad..pad + n]));
                        let res: Result<Vec<f64>, SimError> = if case.f32acc {
                            ds.cross_validate_single(case.k, &fits, |p, t| eval_body(case, &geo, 1, &log, p, t).map(|v| v[0] as f32))
                                .map(|a: Array1<f32>| a.iter().map(|&v| v as f64).collect())
                        } else {
                            ds.cross_validate_single(case.k, &fits, |p, t| eval_body(case, &geo, 1, &log, p, t).map(|v| v[0]))
                                .map(|a: Array1<f64>| a.to_vec())
                        };
                        finish_cv(case, res, 1, &log, &mut out);
                    } else if case.layout == Layout::Owned {
                        let owned = DatasetBase::new(b.rec.clone(), t1.clone());
                        let mut owned = if case.weighted { owned.with_weights(row_weights(b)) } else { owned };
                        match case.api {
                            Api::IterFold => drive_iter_fold(case, &mut owned, geo.clone(), &log, &mut out),
                            _ => drive_cv(case, &mut owned, geo.clone(), &log, &mut out),
                        }
                        check_weights_after(case, b, owned.weights(), &log);
                        b.rec.assign(owned.records());
                        t1.assign(&owned.as_targets());
                    } else {
                        run_on!(DatasetBase::new(b.rec.slice_mut(rows), t1.slice_mut(s![pad..pad + n])));
                    }
                    b.tgt2.column_mut(0).assign(&t1);
                } else if case.layout == Layout::Owned {
                    let owned = DatasetBase::new(b.rec.clone(), b.tgt2.clone());
                    let mut owned = if case.weighted { owned.with_weights(row_weights(b)) } else { owned };
                    match case.api {
                        Api::IterFold => drive_iter_fold(case, &mut owned, geo.clone(), &log, &mut out),
                        _ => drive_cv(case, &mut owned, geo.clone(), &log, &mut out),
                    }
                    check_weights_after(case, b, owned.weights(), &log);
                    b.rec.assign(owned.records());
                    b.tgt2.assign(&owned.as_targets());
                } else {
                    let (r, t) = (b.rec.slice_mut(rows), b.tgt2.slice_mut(rows));
                    run_on!(DatasetBase::new(r, t));
                }
            }
        }
    });
    let panicked = panic::catch_unwind(body).is_err();

    let lg = log.borrow();
    out.fired = lg.fired.clone();
    out.fit_calls = lg.fits.len();
    out.eval_calls = lg.evals.len();
    let intact = b.rec == *pristine_rec && b.tgt2 == *pristine_tgt;
    if panicked {
        if case.panic_at.is_some() {
            // outside the statement (it speaks about returning): observation only
            out.left_permuted_after_panic = Some(!intact);
            out.violation = None;
            return out;
        }
        out.violation = Some("linfa panicked on a valid (n, k) input".into());
        return out;
    }
    if let Some(v) = lg.violations.first() {
        out.violation.get_or_insert(v.clone());
    }
    if !intact {
        let what = if b.rec != *pristine_rec { "records" } else { "targets" };
        // first row that moved
        let row = (0..b.rec.nrows()).find(|&r| b.rec.row(r) != pristine_rec.row(r) || b.tgt2.row(r) != pristine_tgt.row(r)).unwrap_or(0);
        let guard = row < pad || row >= pad + n * step;
        out.violation.get_or_insert(format!(
            "after {:?} returned ({}) the dataset no longer holds its original rows in their original order: {what} differ first at buffer row {row}{}",
            case.api,
            if out.returned_err { "Err" } else { "Ok" },
            if guard { " (a row OUTSIDE the dataset view was modified)" } else { "" }
        ));
    }
    out
}

// ---------------------------------------------------------------------------
// case generation
// ---------------------------------------------------------------------------

/// all fault plans with at most `max` faults over (fold < k, model < m, stage)
fn fault_plans(k: usize, m: usize, max: usize) -> Vec<Vec<Fault>> {
    let mut sites = Vec::new();
    for fold in 0..k {
        for model in 0..m {
            sites.push(Fault { fold, model, stage: Stage::Fit });
            sites.push(Fault { fold, model, stage: Stage::Eval });
        }
    }
    let mut plans = vec![vec![]];
    if max >= 1 {
        for &a in &sites {
            plans.push(vec![a]);
        }
    }
    if max >= 2 {
        for i in 0..sites.len() {
            for j in i + 1..sites.len() {
                plans.push(vec![sites[i], sites[j]]);
            }
        }
    }
    plans
}

pub struct Plan {
    pub cases: Vec<Case>,
    pub exhaustive_grid: String,
}

pub fn plan(tier: &str, seed: u64) -> Plan {
    let thorough = tier == "thorough";
    let mut cases = Vec::new();
    let nmax = if thorough { 24 } else { 14 };
    let mut r = Prng::new(seed ^ 0xC01);
    // exhaustive grid over (n, k)
    for n in 2..=nmax {
        for k in 2..=n {
            // fold(): every layout, single/multi target
            for layout in [Layout::Owned, Layout::ViewContig, Layout::ViewStrided, Layout::OwnedColMajor, Layout::ViewTransposed] {
                for nt in [0usize, 2] {
                    cases.push(Case { api: Api::Fold, n, k, nf: 1 + (n + k) % 3, nt, layout, models: 1, faults: vec![], f32acc: false, dyadic: true, val_seed: 0, panic_at: None, special: false, repeat: false, weighted: false, eval_scalar: false, pred_colmajor: false });
                }
            }
            for layout in [Layout::Owned, Layout::ViewContig] {
                for nt in [0usize, 1, 3] {
                    cases.push(Case { api: Api::IterFold, n, k, nf: 1 + (n * k) % 4, nt, layout, models: 1, faults: vec![], f32acc: false, dyadic: true, val_seed: 0, panic_at: None, special: false, repeat: false, weighted: layout == Layout::Owned && (n + k + nt) % 2 == 0, eval_scalar: false, pred_colmajor: false });
                }
            }
            // cross_validate: fault plans — all singles everywhere; all pairs on the small grid
            let small = n <= if thorough { 12 } else { 8 };
            for models in 1..=if small { 3 } else { 2 } {
                let maxf = if small && k <= 4 { 2 } else { 1 };
                for (pi, faults) in fault_plans(k, models, maxf).into_iter().enumerate() {
                    // rotate the remaining configuration dimensions deterministically
                    let h = mix3(seed, (n * 64 + k) as u64, (models * 1000 + pi) as u64);
                    let nt = [0usize, 0, 1, 2, 3][(h % 5) as usize];
                    let layout = if h & 32 == 0 { Layout::Owned } else { Layout::ViewContig };
                    let single_api = nt == 0 && (h & 64 != 0);
                    cases.push(Case {
                        api: if single_api { Api::CrossValidateSingle } else { Api::CrossValidate },
                        n,
                        k,
                        nf: 1 + (h >> 8) as usize % 4,
                        nt,
                        layout: if single_api { Layout::ViewContig } else { layout },
                        models,
                        faults,
                        f32acc: h & 128 != 0,
                        dyadic: h & 256 != 0,
                        val_seed: h,
                        panic_at: None,
                        special: h & 512 != 0 && h & 256 == 0,
                        repeat: h & 1024 != 0,
                        weighted: h & 2048 != 0,
                        eval_scalar: nt >= 2 && !single_api && h & 4096 != 0,
                        pred_colmajor: nt >= 2 && h & 8192 != 0,
                    });
                }
            }
        }
    }
    // sampled larger cases
    let extra = if thorough { 600_000 } else { 40_000 };
    for _ in 0..extra {
        let n = r.usize_in(nmax + 1, if thorough { 400 } else { 120 });
        let k = if r.chance(0.3) { r.usize_in(2, n.min(60)) } else { r.usize_in(2, 12.min(n)) };
        let models = r.usize_in(1, 4);
        let nt = *r.pick(&[0usize, 0, 1, 2, 4]);
        let api = match r.below(6) {
            0 => Api::Fold,
            1 => Api::IterFold,
            2 if nt == 0 => Api::CrossValidateSingle,
            _ => Api::CrossValidate,
        };
        let layout = match api {
            Api::Fold => *r.pick(&[Layout::Owned, Layout::ViewContig, Layout::ViewStrided, Layout::OwnedColMajor, Layout::ViewTransposed]),
            Api::CrossValidateSingle => Layout::ViewContig,
            _ => *r.pick(&[Layout::Owned, Layout::ViewContig]),
        };
        let mut faults = Vec::new();
        if matches!(api, Api::CrossValidate | Api::CrossValidateSingle) {
            let nfaults = *r.pick(&[0usize, 0, 1, 1, 2, 3, 5]);
            for _ in 0..nfaults {
                faults.push(Fault { fold: r.below(k as u64) as usize, model: r.below(models as u64) as usize, stage: if r.chance(0.5) { Stage::Fit } else { Stage::Eval } });
            }
            faults.sort();
            faults.dedup();
        }
        cases.push(Case {
            api,
            n,
            k,
            nf: r.usize_in(1, 4),
            nt,
            layout,
            models: if matches!(api, Api::Fold | Api::IterFold) { 1 } else { models },
            faults,
            f32acc: r.chance(0.3),
            dyadic: r.chance(0.5),
            val_seed: r.next_u64(),
            panic_at: None,
            special: r.chance(0.2),
            repeat: r.chance(0.3),
            weighted: r.chance(0.3),
            eval_scalar: nt >= 2 && r.chance(0.25),
            pred_colmajor: nt >= 2 && r.chance(0.3),
        });
    }
    // datasets without feature columns (legal: only the targets carry information)
    for (n, k) in [(4usize, 2usize), (7, 3), (9, 4), (6, 6)] {
        for nt in [0usize, 2] {
            for api in [Api::Fold, Api::IterFold, Api::CrossValidate] {
                cases.push(Case { api, n, k, nf: 0, nt, layout: Layout::Owned, models: 2, faults: vec![], f32acc: false, dyadic: true, val_seed: 5, panic_at: None, special: false, repeat: false, weighted: false, eval_scalar: false, pred_colmajor: false });
            }
        }
    }
    // validation parts of several thousand rows (beyond any internal batch or block length,
    // and not a multiple of the usual powers of two)
    for (n, k) in [(10_000usize, 2usize), (12_292, 3), (8_200, 2), (20_000, 4)] {
        for (api, nt) in [(Api::CrossValidate, 0usize), (Api::CrossValidate, 2), (Api::IterFold, 1), (Api::Fold, 0)] {
            cases.push(Case { api, n, k, nf: 1, nt, layout: Layout::Owned, models: 1, faults: vec![], f32acc: false, dyadic: true, val_seed: 11, panic_at: None, special: false, repeat: false, weighted: api != Api::Fold, eval_scalar: false, pred_colmajor: nt >= 2 });
        }
    }
    // no candidate model at all ("any number of candidate models"): nothing to fit or score,
    // the dataset must still come back intact and the result is an empty score array
    for (n, k) in [(5usize, 2usize), (7, 3), (9, 9)] {
        for nt in [0usize, 2] {
            cases.push(Case { api: Api::CrossValidate, n, k, nf: 2, nt, layout: Layout::ViewContig, models: 0, faults: vec![], f32acc: false, dyadic: true, val_seed: 3, panic_at: None, special: false, repeat: false, weighted: false, eval_scalar: false, pred_colmajor: false });
        }
    }
    // panic probes (observation only)
    for n in [5usize, 9] {
        for k in [2usize, 3] {
            for stage in [Stage::Fit, Stage::Eval] {
                cases.push(Case {
                    api: Api::CrossValidate,
                    n,
                    k,
                    nf: 2,
                    nt: 0,
                    layout: Layout::Owned,
                    models: 1,
                    faults: vec![],
                    f32acc: false,
                    dyadic: true,
                    val_seed: 1,
                    panic_at: Some(Fault { fold: k - 1, model: 0, stage }),
                    special: false,
                    repeat: false,
                    weighted: false,
                    eval_scalar: false,
                    pred_colmajor: false,
                });
            }
        }
    }
    Plan {
        cases,
        exhaustive_grid: format!(
            "all 2<=k<=n<={nmax}: fold x 5 layouts (row-major, contiguous view, strided view, column-major owned, transposed view) x {{1-D, 2-col}} targets; iter_fold x 2 layouts x 3 target shapes; cross_validate x 1..3 models x every single fault (fold,model,stage) and every pair of faults where n<={} and k<=4",
            if thorough { 12 } else { 8 }
        ),
    }
}

/// candidate simplifications of a failing case, most aggressive first
pub fn shrink_candidates(c: &Case) -> Vec<Case> {
    let mut v = Vec::new();
    let push = |v: &mut Vec<Case>, mut d: Case| {
        d.faults.retain(|f| f.fold < d.k && f.model < d.models);
        if d.k >= 2 && d.k <= d.n && d != *c {
            v.push(d);
        }
    };
    for i in 0..c.faults.len() {
        let mut d = c.clone();
        d.faults.remove(i);
        push(&mut v, d);
    }
    if c.models > 1 {
        let mut d = c.clone();
        d.models -= 1;
        push(&mut v, d);
    }
    for n in [c.k, c.n / 2, c.n - 1] {
        let mut d = c.clone();
        d.n = n;
        push(&mut v, d);
    }
    for k in [2, c.k / 2, c.k - 1] {
        let mut d = c.clone();
        d.k = k;
        push(&mut v, d);
    }
    if c.nf > 1 {
        let mut d = c.clone();
        d.nf = 1;
        push(&mut v, d);
    }
    if c.nt > 0 && c.api != Api::CrossValidateSingle {
        let mut d = c.clone();
        d.nt = if c.nt > 1 { 1 } else { 0 };
        push(&mut v, d);
    }
    if c.layout != Layout::Owned && c.api != Api::CrossValidateSingle {
        let mut d = c.clone();
        d.layout = Layout::Owned;
        push(&mut v, d);
    }
    if c.f32acc {
        let mut d = c.clone();
        d.f32acc = false;
        push(&mut v, d);
    }
    if !c.dyadic {
        let mut d = c.clone();
        d.dyadic = true;
        push(&mut v, d);
    }
    if c.special {
        let mut d = c.clone();
        d.special = false;
        push(&mut v, d);
    }
    if c.repeat {
        let mut d = c.clone();
        d.repeat = false;
        push(&mut v, d);
    }
    if c.weighted {
        let mut d = c.clone();
        d.weighted = false;
        push(&mut v, d);
    }
    if c.eval_scalar {
        let mut d = c.clone();
        d.eval_scalar = false;
        push(&mut v, d);
    }
    if c.pred_colmajor {
        let mut d = c.clone();
        d.pred_colmajor = false;
        push(&mut v, d);
    }
    v
}

fn class_of(v: &str) -> String {
    // violation class = message with digits removed
    v.chars().filter(|c| !c.is_ascii_digit()).collect()
}

pub fn minimise(c: &Case) -> (Case, String) {
    let mut cur = c.clone();
    let mut msg = run_case(&cur).violation.unwrap_or_default();
    let class = class_of(&msg);
    loop {
        let mut progressed = false;
        for cand in shrink_candidates(&cur) {
            if let Some(m) = run_case(&cand).violation {
                if class_of(&m) == class {
                    cur = cand;
                    msg = m;
                    progressed = true;
                    break;
                }
            }
        }
        if !progressed {
            return (cur, msg);
        }
    }
}

#[allow(dead_code)]
pub fn records_of<R: Records>(_: &R) {}

// ---------------------------------------------------------------------------
// the check
// ---------------------------------------------------------------------------
pub fn check(tier: &str, seed: u64) -> i32 {
    use crate::report::*;
    use std::collections::{BTreeMap, HashSet};
    let t0 = crate::seams::real_now_s();
    let plan = plan(tier, seed);
    let total = plan.cases.len();
    let nthreads = 16.min(total.max(1));
    let cases = std::sync::Arc::new(plan.cases);
    let mut handles = Vec::new();
    for t in 0..nthreads {
        let cases = cases.clone();
        handles.push(std::thread::spawn(move || {
            let mut outs = Vec::new();
            let mut i = t;
            while i < cases.len() {
                outs.push((i, run_case(&cases[i])));
                i += nthreads;
            }
            outs
        }));
    }
    let mut outs: Vec<(usize, CaseOut)> = handles.into_iter().flat_map(|h| h.join().expect("c01 worker")).collect();
    outs.sort_by_key(|(i, _)| *i);

    let mut distinct: HashSet<&Case> = HashSet::new();
    let mut fired_by_stage: BTreeMap<String, u64> = BTreeMap::new();
    let mut by_api: BTreeMap<String, u64> = BTreeMap::new();
    let (mut fit_calls, mut eval_calls, mut err_returns, mut tails, mut multi_fault_runs) = (0u64, 0u64, 0u64, 0u64, 0u64);
    let (mut panic_probes, mut panic_left_permuted) = (0u64, 0u64);
    let mut failing: Vec<usize> = Vec::new();
    for (i, o) in &outs {
        let c = &cases[*i];
        *by_api.entry(format!("{:?}/{:?}", c.api, c.layout)).or_default() += 1;
        for f in &o.fired {
            *fired_by_stage.entry(format!("{:?}", f.stage)).or_default() += 1;
        }
        if o.fired.len() >= 2 {
            multi_fault_runs += 1;
        }
        fit_calls += o.fit_calls as u64;
        eval_calls += o.eval_calls as u64;
        err_returns += o.returned_err as u64;
        if o.tail_rows > 0 {
            tails += 1;
        }
        if let Some(p) = o.left_permuted_after_panic {
            panic_probes += 1;
            panic_left_permuted += p as u64;
        }
        if !o.fired.is_empty() || o.tail_rows > 0 {
            distinct.insert(c);
        }
        if o.violation.is_some() {
            failing.push(*i);
        }
    }
    // report: minimise the first few distinct violation classes
    let known = known_findings();
    let mut reported = 0usize;
    let mut classes: HashSet<String> = HashSet::new();
    for &i in &failing {
        let msg = outs[i].1.violation.clone().unwrap();
        let class = class_of(&msg);
        if !classes.insert(class) || classes.len() > 5 {
            continue;
        }
        let (min, mmsg) = minimise(&cases[i]);
        let identity = format!("{:?}|{}", min.api, class_of(&mmsg));
        if let Some(k) = match_known(&known, "C01", &identity) {
            println!("KNOWN-FINDING: property=C01 {}", k.what);
            continue;
        }
        reported += 1;
        let tag = format!("{}-{:08x}", seed, crate::fp::fnv(serde_json::to_string(&min).unwrap().as_bytes()) as u32);
        report_violation(
            "C01",
            &tag,
            &serde_json::json!({"property": "C01", "seed": seed, "case": min, "original_case": cases[i], "violation": mmsg, "identity": identity}),
        );
        println!("  C01: {mmsg}");
        println!("  minimised case: {}", serde_json::to_string(&min).unwrap());
    }
    let samples: Vec<serde_json::Value> = [0usize, total / 3, 2 * total / 3, total - 1]
        .iter()
        .map(|&i| serde_json::json!({"case": cases[i], "fired": outs[i].1.fired, "fit_calls": outs[i].1.fit_calls, "eval_calls": outs[i].1.eval_calls, "returned_err": outs[i].1.returned_err}))
        .collect();
    let wall = crate::seams::real_now_s() - t0;
    write_evidence(&Evidence {
        property_id: "C01",
        tier: tier.to_string(),
        seed,
        level: "fault_enumeration",
        coverage: serde_json::json!({
            "evaluations": total,
            "distinct_nontrivial": distinct.len(),
            "rule": "cases = (api, n, k, features, target shape, layout, models, fault plan, score type); enumerated exhaustively on the stated grid and sampled beyond it from VERIF_SEED. A case is non-trivial when at least one injected callback failure actually fired or when k does not divide n (training-only tail); distinct = distinct case descriptors among those (hash set)",
            "exhaustive": false,
            "exhaustive_grid": plan.exhaustive_grid,
            "samples": samples,
            "cases_by_api_layout": by_api,
            "faults_fired_by_stage": fired_by_stage,
            "runs_with_two_or_more_faults_fired": multi_fault_runs,
            "runs_returning_err": err_returns,
            "runs_with_tail_rows": tails,
            "fit_callbacks_observed": fit_calls,
            "eval_callbacks_observed": eval_calls,
            "panic_probes_observation_only": {"runs": panic_probes, "buffer_left_permuted": panic_left_permuted},
            "violating_cases": failing.len(),
            "runs_per_hour": (total as f64 / wall.max(1e-9) * 3600.0) as u64,
            "real_components": ["linfa::DatasetBase::{fold, iter_fold, cross_validate, cross_validate_single, sample_chunks}", "ndarray"],
            "simulated_components": ["Fit implementation", "PredictInplace implementation", "evaluation closure", "error values"],
        }),
        assumptions: vec![
            "callback failures are modelled as returned errors; panicking callbacks are observed but make no claim".into(),
            "the block the validation rows occupy during a fit callback is not observable by user code and is checked only after return".into(),
        ],
        wall_s: wall,
        violations: reported,
    });
    println!("C01 {tier}: {total} cases, {} distinct non-trivial, {} violating, {reported} reported, {:.1}s", distinct.len(), failing.len(), wall);
    if reported > 0 {
        1
    } else {
        0
    }
}

pub fn replay(v: &serde_json::Value) -> i32 {
    let case: Case = match serde_json::from_value(v["case"].clone()) {
        Ok(c) => c,
        Err(e) => crate::report::harness_error(&format!("bad C01 replay file: {e}")),
    };
    let out = run_case(&case);
    match out.violation {
        Some(m) => {
            println!("C01 replay: {m}");
            1
        }
        None => {
            println!("C01 replay: case passes on this tree");
            0
        }
    }
}
