//! C20 — same data, parameters and seed ⇒ bit-identical results in every
//! simulated environment (pool size, schedule, worker identity, hash seeds,
//! entropy, clock, calling context, process history).

use crate::driver::{run_in_fresh_process, run_jobs, Body, Job, JobKind, JobResult};
use crate::env::{Context, Env};
use crate::fp::Fingerprint;
use crate::prng::{mix3, Prng};
use crate::report::*;
use crate::scen::{Kind, Size, P};
use serde_json::json;
use std::collections::{BTreeMap, BTreeSet, HashSet};

const POLICIES: &[&str] = &["eager-steal", "late-steal", "chaos", "switchy", "random:0.05", "random:0.3", "random:0.7"];
const POOLS: &[usize] = &[2, 3, 4, 5, 8, 16];

fn random_env(r: &mut Prng, pool_heavy: bool) -> Env {
    Env {
        threads: if pool_heavy || r.chance(0.5) { *r.pick(POOLS) } else { 1 },
        policy: r.pick(POLICIES).to_string(),
        sched_seed: r.next_u64() >> 16,
        entropy_seed: 1 + (r.next_u64() >> 16),
        clock_seed: 1 + (r.next_u64() >> 16),
        context: *r.pick(&[Context::External, Context::InWorker, Context::Siblings, Context::Warm]),
        cpus: *r.pick(&[1usize, 1, 2, 3, 4]),
        envvars_seed: r.next_u64() >> 20,
        heap_seed: r.next_u64() >> 20,
        replay: None,
    }
}

/// the environments a `(scenario, data seed)` pair is run in besides env0
fn envs_for(r: &mut Prng, uses_pool: bool, thorough: bool) -> Vec<Env> {
    let e0 = Env::reference();
    let mut v = vec![
        // one dimension varied alone each
        Env { entropy_seed: 1 + (r.next_u64() >> 16), ..e0.clone() },
        Env { clock_seed: 1 + (r.next_u64() >> 16), ..e0.clone() },
        Env { context: Context::InWorker, ..e0.clone() },
        Env { context: Context::Warm, ..e0.clone() },
        Env { cpus: *r.pick(&[2usize, 3, 4]), ..e0.clone() },
        Env { envvars_seed: 1 + (r.next_u64() >> 20), ..e0.clone() },
        Env { heap_seed: 1 + (r.next_u64() >> 20), ..e0.clone() },
        Env { heap_seed: 1 + (r.next_u64() >> 20), ..e0.clone() },
        Env { threads: *r.pick(&[2usize, 3, 4, 5]), policy: "eager-steal".into(), sched_seed: r.next_u64() >> 16, ..e0.clone() },
        Env { threads: 16, policy: "chaos".into(), sched_seed: r.next_u64() >> 16, ..e0.clone() },
        // all together
        random_env(r, true),
    ];
    if !uses_pool {
        // no parallel work expected: spend the budget on hash seeds instead
        v.push(Env { entropy_seed: 1 + (r.next_u64() >> 16), ..e0.clone() });
        v.push(Env { entropy_seed: 1 + (r.next_u64() >> 16), context: Context::Siblings, threads: 2, policy: "chaos".into(), ..e0.clone() });
    } else {
        v.push(Env { threads: 8, policy: "late-steal".into(), sched_seed: r.next_u64() >> 16, context: Context::Siblings, ..e0.clone() });
    }
    // seeded swarm on top of the fixed dimensions
    for _ in 0..(if thorough { 8 } else { 2 }) {
        v.push(random_env(r, uses_pool));
    }
    v
}

struct Planned {
    jobs: Vec<Job>,
    /// job index → (scenario idx, p, is_reference)
    meta: Vec<(usize, P, bool)>,
}

fn plan(reg: &crate::scen::Registry, tier: &str, seed: u64, only: Option<&str>) -> Planned {
    let thorough = tier == "thorough";
    let mut jobs = Vec::new();
    let mut meta = Vec::new();
    let nseeds = if thorough { 40 } else { 6 };
    for (si, s) in reg.scenarios.iter().enumerate() {
        if let Some(pfx) = only {
            if !s.name.starts_with(pfx) {
                continue;
            }
        }
        for d in 0..nseeds {
            let data_seed = mix3(seed, crate::fp::fnv(s.name.as_bytes()), d as u64) >> 20;
            let size = if thorough && s.uses_pool && d % 3 == 0 {
                Size::L
            } else if d % 4 == 3 {
                Size::S
            } else {
                Size::M
            };
            let p = P { seed: data_seed, size };
            let mut r = Prng::new(mix3(seed ^ 0xE2, si as u64, d as u64));
            let mut envs = vec![Env::reference()];
            if s.kind != Kind::NoCompare {
                envs.extend(envs_for(&mut r, s.uses_pool, thorough));
            }
            for (ei, env) in envs.into_iter().enumerate() {
                meta.push((si, p, ei == 0));
                jobs.push(Job { id: 0, kind: JobKind::C20 { scenario: s.name.clone(), p, env } });
            }
        }
    }
    // seeded shuffle so that heavy scenarios spread over the children and the
    // "k-th run in a process" position of every job varies with VERIF_SEED
    let mut order: Vec<usize> = (0..jobs.len()).collect();
    Prng::new(seed ^ 0x5AFE).shuffle(&mut order);
    let jobs2: Vec<Job> = order.iter().enumerate().map(|(i, &o)| Job { id: i, kind: jobs[o].kind.clone() }).collect();
    let meta2: Vec<(usize, P, bool)> = order.iter().map(|&o| meta[o]).collect();
    Planned { jobs: jobs2, meta: meta2 }
}

fn job_env(j: &Job) -> &Env {
    match &j.kind {
        JobKind::C20 { env, .. } => env,
        _ => unreachable!(),
    }
}

#[derive(Clone, Debug)]
enum Outcome {
    Fp(Fingerprint),
    Panic(String),
    /// the two sibling tasks of one run disagree with each other
    SiblingsDisagree(Fingerprint, Fingerprint),
    /// the run was stopped at the per-job time limit (or skipped after one): non-termination of
    /// the code under test — possibly of the warm-up workload on OTHER data — says nothing
    /// about run-to-run reproducibility and is never compared
    NoInformation,
}

fn outcome(r: &JobResult) -> Outcome {
    match &r.body {
        Body::C20 { fps: Ok(v), .. } => {
            if v.len() == 2 && v[0] != v[1] {
                Outcome::SiblingsDisagree(v[0].clone(), v[1].clone())
            } else {
                Outcome::Fp(v[0].clone())
            }
        }
        Body::C20 { fps: Err(e), .. } => Outcome::Panic(e.clone()),
        Body::Timeout { .. } | Body::Skipped => Outcome::NoInformation,
        _ => unreachable!(),
    }
}

/// `None` if equal, else (field, reference side, other side)
fn differs(reference: &Outcome, other: &Outcome) -> Option<(String, String, String)> {
    match (reference, other) {
        (Outcome::NoInformation, _) | (_, Outcome::NoInformation) => None,
        // an invariant broken inside one run (a repeated call on the same objects, thread state
        // left changed) makes that run differ from what the reference environment must show
        (Outcome::Fp(a), Outcome::Fp(b)) => b.broken_invariant().or_else(|| a.broken_invariant()).or_else(|| a.first_diff(b)),
        (_, Outcome::SiblingsDisagree(a, b)) => a.first_diff(b).map(|(f, x, y)| (format!("{f} (two sibling tasks of one run)"), x, y)),
        (Outcome::Panic(a), Outcome::Panic(b)) if a == b => None,
        (Outcome::Panic(a), Outcome::Panic(b)) => Some(("<panic message>".into(), a.clone(), b.clone())),
        (Outcome::Panic(a), _) => Some(("<outcome>".into(), format!("panic: {a}"), "value".into())),
        (_, Outcome::Panic(b)) => Some(("<outcome>".into(), "value".into(), format!("panic: {b}"))),
        (Outcome::SiblingsDisagree(..), _) => Some(("<reference>".into(), "siblings disagree".into(), "".into())),
    }
}

fn c20_job(scenario: &str, p: P, env: &Env) -> Job {
    Job { id: 0, kind: JobKind::C20 { scenario: scenario.to_string(), p, env: env.clone() } }
}

/// run one (scenario, p, env) in a fresh OS process, after an optional prelude
fn fresh(scenario: &str, p: P, env: &Env, prelude: &[Job]) -> JobResult {
    let mut js = prelude.to_vec();
    js.push(c20_job(scenario, p, env));
    run_in_fresh_process(&js).pop().unwrap()
}

fn cause_of(fail: &Env, e0: &Env) -> String {
    let mut c = Vec::new();
    if fail.threads != e0.threads || fail.policy != e0.policy || fail.sched_seed != e0.sched_seed || fail.replay.is_some() {
        c.push("schedule");
    }
    if fail.entropy_seed != e0.entropy_seed {
        c.push("entropy");
    }
    if fail.clock_seed != e0.clock_seed {
        c.push("clock");
    }
    if fail.context != e0.context {
        c.push("context");
    }
    if fail.cpus != e0.cpus {
        c.push("cpus");
    }
    if fail.envvars_seed != e0.envvars_seed {
        c.push("envvars");
    }
    if fail.heap_seed != e0.heap_seed {
        c.push("heap-addresses");
    }
    if c.is_empty() {
        c.push("history");
    }
    c.join("+")
}

pub struct Minimised {
    pub scenario: String,
    pub p: P,
    pub env_ref: Env,
    pub env_fail: Env,
    pub prelude: Vec<Job>,
    pub field: String,
    pub ref_side: String,
    pub fail_side: String,
    pub cause: String,
    pub trials: usize,
    /// how many times a replay may have to be attempted (1 unless the source is uncontrolled)
    pub attempts: usize,
}

/// Confirm in fresh processes and minimise.  `Err` = could not be reproduced.
fn minimise(scenario: &str, p: P, fail_env: &Env, prelude_fail: &[Job], prelude_ref: &[Job]) -> Result<Minimised, String> {
    let e0 = Env::reference();
    let trials_c = std::cell::Cell::new(0usize);
    let run = |p: P, env: &Env, prelude: &[Job]| -> Outcome {
        trials_c.set(trials_c.get() + 1);
        outcome(&fresh(scenario, p, env, prelude))
    };
    // A: history-free reproduction
    let mut prelude: Vec<Job> = vec![];
    let mut reference = run(p, &e0, &[]);
    let mut d = differs(&reference, &run(p, fail_env, &[]));
    if d.is_none() {
        // needs process history: replay with the jobs that ran before it in its child
        let r2 = run(p, &e0, prelude_ref);
        let f2 = run(p, fail_env, prelude_fail);
        let dd = differs(&run(p, &e0, &[]), &f2).or_else(|| differs(&r2, &f2)).or_else(|| differs(&reference, &r2));
        match dd {
            Some(x) => {
                d = Some(x);
                // shortest suffix of the history that still reproduces (doubling), then drop
                // chunks inside it (bounded): the culprit is usually one earlier job
                let full = prelude_fail.to_vec();
                let mut len = 1usize;
                prelude = full.clone();
                while len < full.len() && trials_c.get() < 40 {
                    let cand = full[full.len() - len..].to_vec();
                    if differs(&reference, &run(p, fail_env, &cand)).is_some() {
                        prelude = cand;
                        break;
                    }
                    len *= 2;
                }
                let mut chunk = (prelude.len() / 2).max(1);
                while prelude.len() > 1 && trials_c.get() < 60 {
                    let mut i = 0;
                    let mut removed = false;
                    while i < prelude.len() && prelude.len() > 1 && trials_c.get() < 60 {
                        let mut cand = prelude.clone();
                        let end = (i + chunk).min(cand.len());
                        cand.drain(i..end);
                        if !cand.is_empty() && differs(&reference, &run(p, fail_env, &cand)).is_some() {
                            prelude = cand;
                            removed = true;
                        } else {
                            i += chunk;
                        }
                    }
                    if chunk == 1 && !removed {
                        break;
                    }
                    chunk = (chunk / 2).max(1);
                }
            }
            None => {
                // Last resort: a source the simulator does not own (threads the library spawns
                // itself, memory addresses, real time inside such threads) varies from run to
                // run even in one environment. Repeat both runs a few times; a difference between
                // two runs of the SAME environment is reported as such.
                let mut found = None;
                for _ in 0..6 {
                    let r1 = run(p, &e0, &[]);
                    if let Some(x) = differs(&reference, &r1) {
                        found = Some((e0.clone(), x));
                        break;
                    }
                    let f1 = run(p, fail_env, &[]);
                    if let Some(x) = differs(&reference, &f1) {
                        found = Some((fail_env.clone(), x));
                        break;
                    }
                }
                match found {
                    Some((env, (field, a, b))) => {
                        return Ok(Minimised {
                            scenario: scenario.to_string(),
                            p,
                            env_ref: e0.clone(),
                            cause: if env == e0 { "uncontrolled (two runs in the identical reference environment differ)".into() } else { format!("uncontrolled+{}", cause_of(&env, &e0)) },
                            env_fail: env,
                            prelude: vec![],
                            field,
                            ref_side: a,
                            fail_side: b,
                            trials: trials_c.get(),
                            attempts: 12,
                        })
                    }
                    None => return Err("difference seen in the batch did not reproduce in fresh processes, with or without its process history, in 12 further runs".into()),
                }
            }
        }
    }
    let mut cur = fail_env.clone();
    // B: reset one dimension at a time towards env0
    let resets: Vec<Box<dyn Fn(&Env) -> Env>> = vec![
        Box::new(|e: &Env| Env { context: Context::External, ..e.clone() }),
        Box::new(|e: &Env| Env { cpus: 1, ..e.clone() }),
        Box::new(|e: &Env| Env { envvars_seed: 0, ..e.clone() }),
        Box::new(|e: &Env| Env { heap_seed: 0, ..e.clone() }),
        Box::new(|e: &Env| Env { clock_seed: 0, ..e.clone() }),
        Box::new(|e: &Env| Env { entropy_seed: 0, ..e.clone() }),
        Box::new(|e: &Env| Env { threads: 1, policy: "sequential".into(), sched_seed: 0, replay: None, ..e.clone() }),
        Box::new(|e: &Env| Env { threads: 2.min(e.threads), ..e.clone() }),
    ];
    for reset in &resets {
        let cand = reset(&cur);
        if cand == cur {
            continue;
        }
        if let Some(x) = differs(&reference, &run(p, &cand, &prelude)) {
            cur = cand;
            d = Some(x);
        }
    }
    // C: smaller data
    let mut pp = p;
    if p.size != Size::S {
        let ps = P { seed: p.seed, size: Size::S };
        let rs = run(ps, &e0, &[]);
        if let Some(x) = differs(&rs, &run(ps, &cur, &prelude)) {
            pp = ps;
            reference = rs;
            d = Some(x);
        }
    }
    // D: schedule minimisation by delta debugging over the recorded non-zero choices
    if cur.threads > 1 {
        let rec = fresh(scenario, pp, &cur, &prelude);
        trials_c.set(trials_c.get() + 1);
        if let Body::C20 { choices, .. } = &rec.body {
            let mut list = choices.clone();
            let replay_env = |l: &Vec<(u64, u32)>| Env { replay: Some(l.clone()), policy: "sequential".into(), sched_seed: 0, ..cur.clone() };
            if differs(&reference, &run(pp, &replay_env(&list), &prelude)).is_some() {
                let mut chunk = (list.len() / 2).max(1);
                while chunk >= 1 && !list.is_empty() && trials_c.get() < 140 {
                    let mut i = 0;
                    let mut removed_any = false;
                    while i < list.len() && trials_c.get() < 140 {
                        let mut cand = list.clone();
                        let end = (i + chunk).min(cand.len());
                        cand.drain(i..end);
                        if let Some(x) = differs(&reference, &run(pp, &replay_env(&cand), &prelude)) {
                            list = cand;
                            d = Some(x);
                            removed_any = true;
                        } else {
                            i += chunk;
                        }
                    }
                    if chunk == 1 && !removed_any {
                        break;
                    }
                    chunk = if chunk == 1 { 1 } else { chunk / 2 };
                    if chunk == 1 && !removed_any && list.len() <= 1 {
                        break;
                    }
                }
                cur = replay_env(&list);
            }
        }
    }
    // final confirmation in fresh processes
    let fin = differs(&run(pp, &e0, &[]), &run(pp, &cur, &prelude));
    let (field, a, b) = match fin.or(d) {
        Some(x) => x,
        None => return Err("minimised run did not reproduce".into()),
    };
    Ok(Minimised {
        scenario: scenario.to_string(),
        p: pp,
        env_ref: e0.clone(),
        cause: {
            let c = cause_of(&cur, &e0);
            if prelude.is_empty() || c.contains("history") {
                c
            } else {
                format!("history+{c}")
            }
        },
        env_fail: cur,
        prelude,
        field,
        ref_side: a,
        fail_side: b,
        trials: trials_c.get(),
        attempts: 1,
    })
}

fn field_key(field: &str) -> String {
    // strip trailing digits / indices so that "centroids3" and "centroids5" are one finding
    field.trim_end_matches(|c: char| c.is_ascii_digit()).to_string()
}

pub fn check(tier: &str, seed: u64, only: Option<&str>) -> i32 {
    let t0 = crate::seams::real_now_s();
    let reg = crate::scenarios::registry();
    // harness-owned sensitivity controls first: a dead seam must never look like a pass
    if crate::selftest::run() != 0 {
        harness_error("seam self-test failed");
    }
    let planned = plan(&reg, tier, seed, only);
    let nworkers = crate::driver::host_workers();
    let results = run_jobs(&planned.jobs, nworkers);
    // fresh-OS-process sweep: the same reference jobs, each as the FIRST run of a new
    // process, must give the fingerprint they gave as the k-th run of a batch child
    let mut fresh_mismatch: Vec<(usize, (String, String, String))> = Vec::new();
    let mut fresh_runs = 0usize;
    {
        let stride = if tier == "thorough" { 3 } else { 23 };
        let picked: Vec<usize> = (0..planned.jobs.len()).filter(|i| i % stride == 0 && reg.scenarios[planned.meta[*i].0].kind == Kind::Claim).collect();
        let fj: Vec<Job> = picked.iter().enumerate().map(|(k, &i)| Job { id: k, kind: planned.jobs[i].kind.clone() }).collect();
        let fr = crate::driver::run_jobs_fresh_each(&fj, nworkers);
        fresh_runs = fr.len();
        for (k, r) in fr.iter().enumerate() {
            if matches!(results[picked[k]].body, Body::Skipped | Body::Timeout { .. }) || matches!(r.body, Body::Timeout { .. }) {
                continue;
            }
            if let Some(d) = differs(&outcome(&results[picked[k]]), &outcome(r)) {
                fresh_mismatch.push((picked[k], d));
            }
        }
    }
    let wall_batch = crate::seams::real_now_s() - t0;

    // group by (scenario, p)
    let mut groups: BTreeMap<(usize, u64, u8), Vec<usize>> = BTreeMap::new();
    for (i, (si, p, _)) in planned.meta.iter().enumerate() {
        groups.entry((*si, p.seed, p.size as u8)).or_default().push(i);
    }
    let mut evaluations = 0u64;
    let mut distinct: HashSet<(usize, u64, u8, u64, u64, u64, Context)> = HashSet::new();
    let mut pool_sizes: BTreeSet<usize> = BTreeSet::new();
    let mut tot = BTreeMap::<&str, u64>::new();
    let mut matrix: BTreeMap<String, BTreeMap<String, u64>> = BTreeMap::new();
    let mut candidates: Vec<(usize, usize, (String, String, String))> = Vec::new(); // (ref job, failing job, diff)
    let mut controls_fired: BTreeMap<String, u64> = BTreeMap::new();
    let mut controls_seen: BTreeSet<String> = BTreeSet::new();
    let mut nocompare_crashes = Vec::new();
    let mut nonterminating: BTreeSet<String> = BTreeSet::new();
    let mut kth_positions: BTreeSet<usize> = BTreeSet::new();
    let mut sim_time_ns = 0u128;
    let mut schedules: HashSet<u64> = HashSet::new();
    let mut samples = Vec::new();

    for ((si, _, _), idxs) in &groups {
        let s = &reg.scenarios[*si];
        let ref_idx = *idxs.iter().find(|&&i| planned.meta[i].2).expect("reference job");
        let ref_out = outcome(&results[ref_idx]);
        if matches!(results[ref_idx].body, Body::Skipped) {
            // the whole group was abandoned after a non-terminating run
            continue;
        }
        if s.kind != Kind::Claim {
            controls_seen.insert(s.name.clone());
        }
        for &i in idxs {
            if matches!(results[i].body, Body::Skipped) {
                *tot.entry("runs_skipped_because_their_scenario_did_not_terminate").or_default() += 1;
                continue;
            }
            if matches!(results[i].body, Body::Timeout { .. }) {
                *tot.entry("runs_stopped_for_non_termination").or_default() += 1;
                nonterminating.insert(s.name.clone());
            }
            evaluations += 1;
            let r = &results[i];
            let env = job_env(&planned.jobs[i]);
            kth_positions.insert(r.kth_in_process);
            if let Body::C20 { stats, .. } = &r.body {
                pool_sizes.insert(env.threads);
                *tot.entry("steals").or_default() += stats.steals;
                *tot.entry("scheduler_decisions").or_default() += stats.decisions;
                *tot.entry("non_default_choices").or_default() += stats.nonzero_choices;
                *tot.entry("handoffs").or_default() += stats.handoffs;
                *tot.entry("jobs_pushed").or_default() += stats.pushes;
                *tot.entry("preemption_points_inside_jobs").or_default() += stats.preempt_points;
                *tot.entry("threads_created_by_the_code_under_test").or_default() += stats.foreign_threads;
                *tot.entry("callback_faults_injected_in_warm_up").or_default() += stats.callback_faults;
                *tot.entry("injected_jobs").or_default() += stats.injections;
                *tot.entry("entropy_bytes_served").or_default() += stats.entropy_bytes;
                *tot.entry("hash_key_draws").or_default() += stats.hashkey_draws;
                *tot.entry("clock_reads").or_default() += stats.clock_reads;
                sim_time_ns += stats.sim_time_ns as u128;
                if stats.steals > 0 {
                    schedules.insert(stats.sched_hash);
                }
                let nontrivial = stats.steals > 0
                    || stats.workers_used >= 2
                    || (stats.hashkey_draws > 0 && env.entropy_seed != 0)
                    || (stats.clock_reads > 0 && env.clock_seed != 0)
                    || (r.kth_in_process > 0 && planned.meta[i].2)
                    || env.context == Context::Warm
                    || env.cpus != 1
                    || env.envvars_seed != 0
                    || env.heap_seed != 0;
                if nontrivial {
                    distinct.insert((*si, planned.meta[i].1.seed, planned.meta[i].1.size as u8, stats.sched_hash, env.entropy_seed, env.clock_seed, env.context));
                }
                let col = format!(
                    "T={}{}{}{}{}{}{}",
                    if env.threads == 1 { "1".to_string() } else { format!("{}:{}", env.threads, env.policy) },
                    if env.entropy_seed != 0 { " +entropy" } else { "" },
                    if env.clock_seed != 0 { " +clock" } else { "" },
                    if env.cpus != 1 { " +cpus" } else { "" },
                    if env.envvars_seed != 0 { " +envvars" } else { "" },
                    if env.heap_seed != 0 { " +heap" } else { "" },
                    match env.context {
                        Context::External => "",
                        Context::InWorker => " +inworker",
                        Context::Siblings => " +siblings",
                        Context::Warm => " +warm",
                    }
                );
                *matrix.entry(s.krate.to_string()).or_default().entry(col).or_default() += 1;
                if samples.len() < 4 && stats.steals > 0 && i % 7 == 0 {
                    samples.push(json!({"scenario": s.name, "p": planned.meta[i].1, "env": env, "stats": stats, "kth_run_in_its_process": r.kth_in_process,
                        "fingerprint_digest": match &ref_out { Outcome::Fp(f) => format!("{:016x}", f.digest()), _ => "n/a".into() }}));
                }
            }
            if s.kind == Kind::NoCompare {
                if let Outcome::Panic(m) = outcome(r) {
                    nocompare_crashes.push(format!("{}: {m}", s.name));
                }
                continue;
            }
            if i == ref_idx {
                continue;
            }
            if let Some(d) = differs(&ref_out, &outcome(r)) {
                match s.kind {
                    Kind::Claim => candidates.push((ref_idx, i, d)),
                    _ => *controls_fired.entry(s.name.clone()).or_default() += 1,
                }
            }
        }
    }

    for (i, d) in &fresh_mismatch {
        // same job, same environment, different position in its OS process: history dependence
        let g = &groups[&(planned.meta[*i].0, planned.meta[*i].1.seed, planned.meta[*i].1.size as u8)];
        let ref_idx = *g.iter().find(|&&j| planned.meta[j].2).unwrap();
        candidates.push((ref_idx, *i, (format!("{} (k-th run in a process vs first run of a fresh process)", d.0), d.1.clone(), d.2.clone())));
    }
    // one confirmation + minimisation per (scenario, field) class
    let known = known_findings();
    let mut classes: BTreeMap<(String, String), Vec<(usize, usize)>> = BTreeMap::new();
    for (ri, fi, d) in &candidates {
        let name = reg.scenarios[planned.meta[*fi].0].name.clone();
        classes.entry((name, field_key(&d.0))).or_default().push((*ri, *fi));
    }
    let mut reported = 0usize;
    let mut known_hits = Vec::new();
    let mut unreproducible = Vec::new();
    let max_classes = if tier == "thorough" { 40 } else { 24 };
    let budget_s = if tier == "thorough" { 900.0 } else { 180.0 };
    let t_min = crate::seams::real_now_s();
    let mut skipped_for_time = 0usize;
    for ((name, fkey), list) in classes.iter().take(max_classes) {
        if reported > 0 && crate::seams::real_now_s() - t_min > budget_s {
            // at least one violation is already confirmed, minimised and reported: the
            // remaining classes are listed, not minimised
            skipped_for_time += 1;
            println!("  C20: further divergence (not minimised, time budget): scenario {name} field `{fkey}` ({} runs)", list.len());
            continue;
        }
        let (ri, fi) = list[0];
        let p = planned.meta[fi].1;
        let fail_env = job_env(&planned.jobs[fi]).clone();
        // process history of both jobs inside their children
        let hist = |idx: usize| -> Vec<Job> {
            let child = results[idx].child;
            let k = results[idx].kth_in_process;
            let mut v: Vec<(usize, Job)> = results
                .iter()
                .enumerate()
                .filter(|(_, r)| r.child == child && r.kth_in_process < k)
                .map(|(j, r)| (r.kth_in_process, planned.jobs[j].clone()))
                .collect();
            v.sort_by_key(|x| x.0);
            v.into_iter().map(|x| x.1).collect()
        };
        match minimise(name, p, &fail_env, &hist(fi), &hist(ri)) {
            Err(why) => unreproducible.push(format!("{name}/{fkey}: {why}")),
            Ok(m) => {
                let identity = format!("{}|{}|{}", m.scenario, m.cause, field_key(&m.field));
                if let Some(k) = match_known(&known, "C20", &identity) {
                    known_hits.push(identity.clone());
                    println!("KNOWN-FINDING: property=C20 {} [{identity}]", k.what);
                    continue;
                }
                reported += 1;
                let tag = format!("{}-{}-{}", seed, m.scenario, fkey.replace(|c: char| !c.is_ascii_alphanumeric(), "_"));
                report_violation(
                    "C20",
                    &tag,
                    &json!({
                        "property": "C20", "seed": seed, "identity": identity,
                        "scenario": m.scenario, "p": m.p, "env_ref": m.env_ref, "env_fail": m.env_fail,
                        "prelude": m.prelude, "cause": m.cause,
                        "first_difference": {"field": m.field, "reference": m.ref_side, "failing": m.fail_side},
                        "occurrences_in_batch": list.len(), "minimisation_trials": m.trials, "replay_attempts": m.attempts,
                    }),
                );
                println!("  C20: scenario {} diverges at `{}` when only [{}] differs from the reference environment", m.scenario, m.field, m.cause);
                println!("       reference: {}", m.ref_side);
                println!("       failing  : {} in {}", m.fail_side, m.env_fail.describe());
            }
        }
    }
    if !nonterminating.is_empty() {
        println!("note: scenarios with a run that did not terminate within the per-job limit (stopped; never compared): {nonterminating:?}");
    }
    if !unreproducible.is_empty() {
        for u in &unreproducible {
            eprintln!("NOT REPRODUCED (never reported as a violation): {u}");
        }
        if reported == 0 {
            // differences were seen in the batch but none replays: a harness problem (or a
            // dependence on something the simulator does not control), never a VIOLATION
            eprintln!("HARNESS ERROR: {} difference(s) seen in the batch did not reproduce in fresh processes", unreproducible.len());
            write_c20_evidence(tier, seed, evaluations, &distinct, &pool_sizes, &tot, &matrix, &controls_fired, &controls_seen, &kth_positions, sim_time_ns, &samples, &planned, &reg, reported, &known_hits, t0, wall_batch, &nocompare_crashes, classes.len(), fresh_runs, schedules.len());
            return 2;
        }
    }
    write_c20_evidence(tier, seed, evaluations, &distinct, &pool_sizes, &tot, &matrix, &controls_fired, &controls_seen, &kth_positions, sim_time_ns, &samples, &planned, &reg, reported, &known_hits, t0, wall_batch, &nocompare_crashes, classes.len(), fresh_runs, schedules.len());
    let _ = skipped_for_time;
    println!(
        "C20 {tier}: {} simulated runs over {} scenarios, {} distinct non-trivial, {} divergence classes ({} reported, {} known), {:.1}s",
        evaluations,
        groups.keys().map(|k| k.0).collect::<BTreeSet<_>>().len(),
        distinct.len(),
        classes.len(),
        reported,
        known_hits.len(),
        crate::seams::real_now_s() - t0
    );
    if reported > 0 {
        1
    } else {
        0
    }
}

#[allow(clippy::too_many_arguments)]
fn write_c20_evidence(
    tier: &str,
    seed: u64,
    evaluations: u64,
    distinct: &HashSet<(usize, u64, u8, u64, u64, u64, Context)>,
    pool_sizes: &BTreeSet<usize>,
    tot: &BTreeMap<&str, u64>,
    matrix: &BTreeMap<String, BTreeMap<String, u64>>,
    controls_fired: &BTreeMap<String, u64>,
    controls_seen: &BTreeSet<String>,
    kth: &BTreeSet<usize>,
    sim_time_ns: u128,
    samples: &[serde_json::Value],
    planned: &Planned,
    reg: &crate::scen::Registry,
    reported: usize,
    known_hits: &[String],
    t0: f64,
    wall_batch: f64,
    nocompare_crashes: &[String],
    classes: usize,
    fresh_runs: usize,
    distinct_schedules: usize,
) {
    let wall = crate::seams::real_now_s() - t0;
    let mut samples = samples.to_vec();
    if samples.is_empty() {
        if let Some(j) = planned.jobs.first() {
            samples.push(serde_json::to_value(j).unwrap());
        }
    }
    let scen_names: BTreeSet<&str> = planned.meta.iter().map(|m| reg.scenarios[m.0].name.as_str()).collect();
    write_evidence(&Evidence {
        property_id: "C20",
        tier: tier.to_string(),
        seed,
        level: "exploration",
        coverage: json!({
            "evaluations": evaluations,
            "distinct_nontrivial": distinct.len(),
            "rule": "one evaluation = one simulated process running one scenario (data seed, size) in one environment (pool size, policy, scheduler seed, entropy seed, clock seed, calling context); every fingerprint is compared bit for bit with the same scenario in the reference environment (T=1, sequential, entropy 0, clock 0, external caller). Non-trivial: at least one steal happened or at least two workers executed jobs, or a hash-key draw was served under a non-reference entropy seed, or a clock read under a non-reference clock seed, or a reference run that was not the first run of its OS process, or a run preceded by a warm-up fit on the same threads; distinct = distinct (scenario, data seed, size, executed-schedule hash, entropy seed, clock seed, context) tuples among those, counted with a hash set",
            "samples": samples,
            "scenarios": scen_names.len(),
            "scenario_names": scen_names,
            "pool_sizes_seen": pool_sizes,
            "distinct_executed_schedules_with_steals": distinct_schedules,
            "fault_and_schedule_events": tot,
            "crate_by_environment_matrix": matrix,
            "in_tree_controls": {"seen": controls_seen, "diverged_runs": controls_fired, "note": "documented exclusions of C20 (k-means||, unseeded FastICA, permutation p-values): expected to diverge, informational; harness-owned controls (parallel float sum, probe hash map, thread_rng, Instant) are enforced by the self-test before every run"},
            "excluded_must_not_crash_failures": nocompare_crashes,
            "kth_run_in_process_positions_seen": kth.len(),
            "fresh_os_process_runs_compared_with_their_batch_run": fresh_runs,
            "simulated_time_covered_s": (sim_time_ns / 1_000_000_000) as u64,
            "divergence_classes_found": classes,
            "known_findings_matched": known_hits,
            "runs_per_hour": (evaluations as f64 / wall_batch.max(1e-9) * 3600.0) as u64,
            "host_worker_processes": crate::driver::host_workers(),
            "real_components": ["all linfa crates", "ndarray incl. parallel", "rayon iterator layer (rayon 1.12)", "std collections + SipHash", "rand / rand_xoshiro / ndarray-rand", "linfa-linalg", "argmin", "kdtree", "kodama", "sprs", "regex"],
            "simulated_components": ["rayon-core (scheduler, workers, deques, injector)", "getrandom / SYS_getrandom", "clock_gettime", "process start (fresh caller + pool threads, fresh thread-locals); the thorough tier and every confirmation/minimisation run use real fresh OS processes"],
        }),
        assumptions: vec![
            "a leaf job body is atomic in the simulation: interleavings are explored at job granularity (exact for today's tree, where the only shared synchronised object in a parallel region is one fetch_add per leaf in k-means||)".into(),
            "the host CPU count (read only by sprs' unreachable CSR x CSR path) is not simulated".into(),
            "sampling evidence, not proof".into(),
        ],
        wall_s: wall,
        violations: reported,
    });
}

pub fn replay(v: &serde_json::Value) -> i32 {
    let scenario = v["scenario"].as_str().unwrap_or_else(|| harness_error("replay: no scenario")).to_string();
    let p: P = serde_json::from_value(v["p"].clone()).unwrap_or_else(|e| harness_error(&format!("replay p: {e}")));
    let env_ref: Env = serde_json::from_value(v["env_ref"].clone()).unwrap_or_else(|e| harness_error(&format!("replay env_ref: {e}")));
    let env_fail: Env = serde_json::from_value(v["env_fail"].clone()).unwrap_or_else(|e| harness_error(&format!("replay env_fail: {e}")));
    let prelude: Vec<Job> = serde_json::from_value(v["prelude"].clone()).unwrap_or_default();
    let attempts = v["replay_attempts"].as_u64().unwrap_or(1).max(1);
    for k in 0..attempts {
        let a = outcome(&fresh(&scenario, p, &env_ref, &[]));
        let b = outcome(&fresh(&scenario, p, &env_fail, &prelude));
        if let Some((f, x, y)) = differs(&a, &b) {
            println!("C20 replay: scenario {scenario} diverges at `{f}` (attempt {})\n  reference [{}]: {x}\n  failing   [{}]: {y}", k + 1, env_ref.describe(), env_fail.describe());
            return 1;
        }
    }
    println!("C20 replay: identical fingerprints on this tree ({attempts} attempt(s))");
    0
}

/// Determinism of the simulator itself: the same jobs at host parallelism 16, 3 and 1
/// (different children, different k-th positions) must give identical event logs.
pub fn determinism_test(seed: u64, njobs: usize) -> i32 {
    let reg = crate::scenarios::registry();
    let planned = plan(&reg, "quick", seed, None);
    let stride = (planned.jobs.len() / njobs.max(1)).max(1);
    let jobs: Vec<Job> = planned.jobs.iter().step_by(stride).enumerate().map(|(i, j)| Job { id: i, kind: j.kind.clone() }).collect();
    let log = |rs: &[JobResult]| -> Vec<String> {
        rs.iter()
            .map(|r| match &r.body {
                Body::C20 { fps, stats, choices } => format!(
                    "{:?}|{}|{}|{}|{}|{}|{}|{}|{}|{:x}",
                    fps.as_ref().map(|v| v.iter().map(|f| f.digest()).collect::<Vec<_>>()),
                    stats.sched_hash, stats.decisions, stats.steals, stats.entropy_calls, stats.entropy_bytes, stats.hashkey_draws, stats.clock_reads, stats.sim_time_ns,
                    crate::fp::fnv(format!("{choices:?}").as_bytes())
                ),
                _ => String::new(),
            })
            .collect()
    };
    let a = log(&run_jobs(&jobs, 16));
    let b = log(&run_jobs(&jobs, 3));
    let c = log(&crate::driver::run_jobs_fresh_each(&jobs, 16));
    let mut bad = 0;
    for i in 0..jobs.len() {
        if a[i] != b[i] || a[i] != c[i] {
            bad += 1;
            if bad <= 5 {
                eprintln!("determinism test: job {} differs between host configurations:\n  16 workers: {}\n   3 workers: {}\n  fresh proc: {}\n  job: {}", i, a[i], b[i], c[i], serde_json::to_string(&jobs[i]).unwrap());
            }
        }
    }
    println!("determinism test: {} jobs x 3 host configurations (16 children, 3 children, one fresh process each), {} differing", jobs.len(), bad);
    if bad > 0 { 2 } else { 0 }
}
