//! Fingerprints: ordered list of named fields, each the exact bit pattern of a
//! learned quantity or prediction.  Comparison is bit for bit, never tolerant.

use ndarray::{ArrayBase, Data, Dimension};
use serde::{Deserialize, Serialize};

pub trait Bits {
    fn bits(&self) -> u64;
}
macro_rules! bits_int { ($($t:ty),*) => { $(impl Bits for $t { fn bits(&self) -> u64 { *self as u64 } })* } }
bits_int!(u8, u16, u32, u64, usize, i8, i16, i32, i64, isize);
impl Bits for f64 {
    fn bits(&self) -> u64 {
        self.to_bits()
    }
}
impl Bits for f32 {
    fn bits(&self) -> u64 {
        self.to_bits() as u64
    }
}
impl Bits for bool {
    fn bits(&self) -> u64 {
        *self as u64
    }
}
impl Bits for linfa::dataset::Pr {
    fn bits(&self) -> u64 {
        (**self).to_bits() as u64
    }
}
impl<T: Bits> Bits for Option<T> {
    fn bits(&self) -> u64 {
        match self {
            None => 0xFFFF_FFFF_FFFF_FFF1,
            Some(v) => v.bits(),
        }
    }
}
impl<A: Bits, B: Bits> Bits for (A, B) {
    fn bits(&self) -> u64 {
        self.0.bits().wrapping_mul(0x100000001b3) ^ self.1.bits().rotate_left(17)
    }
}
impl<T: Bits> Bits for &T {
    fn bits(&self) -> u64 {
        (*self).bits()
    }
}
impl Bits for String {
    fn bits(&self) -> u64 {
        fnv(self.as_bytes())
    }
}
impl Bits for &str {
    fn bits(&self) -> u64 {
        fnv(self.as_bytes())
    }
}

pub fn fnv(b: &[u8]) -> u64 {
    let mut h = 0xcbf29ce484222325u64;
    for &x in b {
        h = (h ^ x as u64).wrapping_mul(0x100000001b3);
    }
    h
}

#[derive(Clone, Debug, PartialEq, Eq, Serialize, Deserialize)]
pub struct Field {
    pub name: String,
    pub len: usize,
    pub hash: u64,
    /// first values, for human-readable replay output
    pub head: Vec<u64>,
}

#[derive(Clone, Debug, Default, PartialEq, Eq, Serialize, Deserialize)]
pub struct Fingerprint {
    pub fields: Vec<Field>,
}

const HEAD: usize = 6;

impl Fingerprint {
    pub fn new() -> Self {
        Self::default()
    }
    pub fn raw(&mut self, name: &str, vals: impl IntoIterator<Item = u64>) {
        let mut h = 0xcbf29ce484222325u64;
        let mut len = 0usize;
        let mut head = Vec::new();
        for v in vals {
            if len < HEAD {
                head.push(v);
            }
            len += 1;
            for b in v.to_le_bytes() {
                h = (h ^ b as u64).wrapping_mul(0x100000001b3);
            }
        }
        self.fields.push(Field { name: name.to_string(), len, hash: h, head });
    }
    pub fn seq<T: Bits>(&mut self, name: &str, vals: impl IntoIterator<Item = T>) {
        self.raw(name, vals.into_iter().map(|v| v.bits()))
    }
    pub fn one<T: Bits>(&mut self, name: &str, v: T) {
        self.raw(name, std::iter::once(v.bits()))
    }
    /// array in logical (row-major) order, shape included
    pub fn arr<A: Bits, S: Data<Elem = A>, D: Dimension>(&mut self, name: &str, a: &ArrayBase<S, D>) {
        let shape: Vec<u64> = a.shape().iter().map(|&s| s as u64).collect();
        self.raw(name, shape.into_iter().chain(a.iter().map(|v| v.bits())))
    }
    pub fn text(&mut self, name: &str, s: &str) {
        self.raw(name, s.bytes().map(|b| b as u64))
    }
    /// outcome of a fallible step: error text is part of the fingerprint
    pub fn err(&mut self, name: &str, e: &dyn std::fmt::Display) {
        self.text(name, &format!("ERR:{e}"))
    }
    pub fn extend(&mut self, prefix: &str, other: Fingerprint) {
        for mut f in other.fields {
            f.name = format!("{prefix}{}", f.name);
            self.fields.push(f);
        }
    }
    /// In-run invariant: two observations made inside ONE run that must be equal whatever the
    /// environment - the same call repeated on the same objects, an object reused against a fresh
    /// one, a piece of thread state before and after the run.  Stored as a two-value field whose
    /// name starts with `must_agree:`; [`Fingerprint::broken_invariant`] finds a violated one.
    pub fn must_agree(&mut self, name: &str, first: u64, second: u64) {
        self.raw(&format!("must_agree:{name}"), [first, second]);
    }
    pub fn broken_invariant(&self) -> Option<(String, String, String)> {
        self.fields
            .iter()
            .find(|f| f.name.starts_with("must_agree:") && f.head.len() == 2 && f.head[0] != f.head[1])
            .map(|f| (format!("{} (two observations inside one run that must be equal)", &f.name["must_agree:".len()..]), format!("{:016x}", f.head[0]), format!("{:016x}", f.head[1])))
    }
    pub fn digest(&self) -> u64 {
        let mut h = 0xcbf29ce484222325u64;
        for f in &self.fields {
            h = (h ^ fnv(f.name.as_bytes())).wrapping_mul(0x100000001b3);
            h = (h ^ f.hash).wrapping_mul(0x100000001b3);
            h = (h ^ f.len as u64).wrapping_mul(0x100000001b3);
        }
        h
    }
    /// first difference, as `(field name, ours, theirs)`
    pub fn first_diff(&self, other: &Fingerprint) -> Option<(String, String, String)> {
        let n = self.fields.len().max(other.fields.len());
        for i in 0..n {
            match (self.fields.get(i), other.fields.get(i)) {
                (Some(a), Some(b)) if a == b => {}
                (Some(a), Some(b)) => {
                    return Some((
                        if a.name == b.name { a.name.clone() } else { format!("{}|{}", a.name, b.name) },
                        format!("len={} hash={:016x} head={:x?}", a.len, a.hash, a.head),
                        format!("len={} hash={:016x} head={:x?}", b.len, b.hash, b.head),
                    ))
                }
                (Some(a), None) => return Some((a.name.clone(), "present".into(), "missing".into())),
                (None, Some(b)) => return Some((b.name.clone(), "missing".into(), "present".into())),
                (None, None) => unreachable!(),
            }
        }
        None
    }
}
