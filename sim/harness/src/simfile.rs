//! Storage seam: an in-memory file whose `Write`/`Read` implementations deliver
//! seeded short transfers and `ErrorKind::Interrupted`, and that can be torn
//! (writer crashed mid-stream) or bit-flipped for the out-of-contract probes.

use crate::prng::Prng;
use std::io::{self, Read, Write};

#[derive(Clone, Debug, Default, serde::Serialize, serde::Deserialize)]
pub struct StorageStats {
    pub writes: u64,
    pub short_writes: u64,
    pub write_interrupts: u64,
    pub reads: u64,
    pub short_reads: u64,
    pub read_interrupts: u64,
    pub one_byte_transfers: u64,
}

pub struct SimFile {
    pub data: Vec<u8>,
    rng: Prng,
    pos: usize,
    /// probability that a call is interrupted / shortened
    p_intr: f64,
    p_short: f64,
    pub stats: StorageStats,
}

impl SimFile {
    pub fn new(seed: u64) -> SimFile {
        let mut rng = Prng::new(seed ^ 0xF11E);
        // swarm: per file pick how hostile the medium is (incl. fully benign)
        // seed 0 = benign medium (used by minimisation)
        let mode = if seed == 0 { 0 } else { rng.below(4) };
        let (p_intr, p_short) = match mode {
            0 => (0.0, 0.0),
            1 => (0.05, 0.3),
            2 => (0.3, 0.9),
            _ => (0.1, 1.0),
        };
        SimFile { data: Vec::new(), rng, pos: 0, p_intr, p_short, stats: StorageStats::default() }
    }
    pub fn from_bytes(data: Vec<u8>, seed: u64) -> SimFile {
        let mut f = SimFile::new(seed ^ 0xBEEF);
        f.data = data;
        f
    }
    pub fn rewind(&mut self) {
        self.pos = 0;
    }
    fn len_for(&mut self, want: usize, short: &mut u64, one: &mut u64) -> usize {
        if want > 1 && self.rng.chance(self.p_short) {
            *short += 1;
            let n = if self.rng.chance(0.5) { 1 } else { 1 + self.rng.below(want as u64 - 1) as usize };
            if n == 1 {
                *one += 1;
            }
            n
        } else {
            want
        }
    }
}

impl Write for SimFile {
    fn write(&mut self, buf: &[u8]) -> io::Result<usize> {
        self.stats.writes += 1;
        if buf.is_empty() {
            return Ok(0);
        }
        if self.rng.chance(self.p_intr) {
            self.stats.write_interrupts += 1;
            return Err(io::Error::new(io::ErrorKind::Interrupted, "simulated EINTR"));
        }
        let (mut s, mut o) = (0, 0);
        let n = self.len_for(buf.len(), &mut s, &mut o);
        self.stats.short_writes += s;
        self.stats.one_byte_transfers += o;
        self.data.extend_from_slice(&buf[..n]);
        Ok(n)
    }
    fn flush(&mut self) -> io::Result<()> {
        Ok(())
    }
}

impl Read for SimFile {
    fn read(&mut self, buf: &mut [u8]) -> io::Result<usize> {
        self.stats.reads += 1;
        let left = self.data.len() - self.pos;
        if buf.is_empty() || left == 0 {
            return Ok(0);
        }
        if self.rng.chance(self.p_intr) {
            self.stats.read_interrupts += 1;
            return Err(io::Error::new(io::ErrorKind::Interrupted, "simulated EINTR"));
        }
        let (mut s, mut o) = (0, 0);
        let n = self.len_for(buf.len().min(left), &mut s, &mut o);
        self.stats.short_reads += s;
        self.stats.one_byte_transfers += o;
        buf[..n].copy_from_slice(&self.data[self.pos..self.pos + n]);
        self.pos += n;
        Ok(n)
    }
}
