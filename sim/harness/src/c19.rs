//! C19 — persist → crash → restart in a different environment → restore.
//!
//! Two simulated processes A and B (independent hash seeds, pool, clock) are
//! connected only by a `SimFile`.  A builds the value through the public API,
//! observes it, writes it with bincode (the deciding lossless format) and JSON
//! (second format) through the storage seam, and exits.  B restores and must be
//! indistinguishable from the value A kept: `==` where defined, same
//! fingerprint (learned quantities, predictions, check() verdict, refit).
//! Triple comparison: `orig@A`, `orig@B`, `restored@B`; C19 is violated iff
//! `restored@B != orig@B`; `orig@A != orig@B` is environment dependence (C20).

use crate::driver::{run_in_fresh_process, run_jobs, Body, Job, JobKind};
use crate::env::{run_sim_once, Context, Env};
use crate::fp::Fingerprint;
use crate::prng::{mix3, Prng};
use crate::report::*;
use crate::scen::{C19Cfg, C19Outcome, Size, P};
use crate::simfile::SimFile;
use serde::de::DeserializeOwned;
use serde::Serialize;
use serde_json::json;
use std::collections::{BTreeMap, BTreeSet, HashSet};
use std::panic::{catch_unwind, AssertUnwindSafe};

fn fp_of<T>(v: &T, p: &P, fp: fn(&T, &P, &mut Fingerprint)) -> Fingerprint {
    let mut f = Fingerprint::new();
    fp(v, p, &mut f);
    f
}

/// Run an out-of-contract probe in a forked child process: a damaged file may make a
/// deserialiser panic, allocate without bound (which aborts the process, it does not unwind)
/// or spin; none of that may take the checking process down with it.  The child has only the
/// calling thread, a 10 s alarm and no stderr.
fn in_child(f: impl FnOnce() -> bool) -> &'static str {
    unsafe {
        let pid = libc::fork();
        if pid < 0 {
            return "not_run";
        }
        if pid == 0 {
            libc::alarm(10);
            let devnull = libc::open(b"/dev/null\0".as_ptr() as *const libc::c_char, libc::O_WRONLY);
            if devnull >= 0 {
                libc::dup2(devnull, 2);
            }
            let r = catch_unwind(AssertUnwindSafe(f));
            libc::_exit(match r {
                Ok(true) => 0,
                Ok(false) => 1,
                Err(_) => 2,
            });
        }
        let mut st: libc::c_int = 0;
        loop {
            let r = libc::waitpid(pid, &mut st, 0);
            if r == pid {
                break;
            }
            if r < 0 && *libc::__errno_location() != libc::EINTR {
                return "not_run";
            }
        }
        if libc::WIFEXITED(st) {
            match libc::WEXITSTATUS(st) {
                0 => "accepted",
                1 => "rejected",
                _ => "panicked",
            }
        } else {
            "aborted_or_hung"
        }
    }
}

const EMBED_SENTINEL: u64 = 0x5EA7_1E55_0DD5_EED5;

pub fn round_trip<T>(p: &P, cfg: &C19Cfg, build: fn(&P) -> T, fp: fn(&T, &P, &mut Fingerprint), eq: Option<fn(&T, &T) -> bool>) -> C19Outcome
where
    T: Serialize + DeserializeOwned + Send + 'static,
{
    let mut out = C19Outcome::default();
    let p = *p;
    let storage_seed = cfg.storage_seed;
    // ---- simulated process A: build, observe, persist, exit
    let a = run_sim_once(cfg.env_a, move || {
        let v = build(&p);
        let fa = fp_of(&v, &p, fp);
        let mut file = SimFile::new(storage_seed);
        let w = bincode::serialize_into(&mut file, &v).map_err(|e| e.to_string());
        let json = serde_json::to_string(&v).map_err(|e| e.to_string());
        // the same self-describing data as a document tree (`serde_json::Value`): what a model
        // embedded in a larger JSON document goes through.  Object keys come back in sorted
        // order, not in the order they were written - JSON objects are unordered.
        let json_tree = serde_json::to_value(&v).map_err(|e| e.to_string());
        // the value as PART of something larger (a pipeline struct, a checkpoint with a trailer):
        // in a positional format a writer and a reader that disagree about the value's extent
        // only show once something follows it
        let embedded = bincode::serialize(&(&v, EMBED_SENTINEL, &v, EMBED_SENTINEL ^ 1)).map_err(|e| e.to_string());
        (v, fa, file, w, json, embedded, json_tree)
    });
    let (orig, fa, mut file, w, json, embedded, json_tree) = match a {
        Ok(t) => t,
        Err(panic) => {
            out.scenario_panic = Some(format!("process A panicked: {panic}"));
            return out;
        }
    };
    if let Err(e) = w {
        out.codec_error = Some(format!("serialize: {e}"));
        return out;
    }
    out.bytes = file.data.len();
    out.fields = fa.fields.len();
    out.storage = file.stats.clone();
    // ---- simulated process B (different hash seed, pool, clock): restore, observe
    let b = run_sim_once(cfg.env_b, move || {
        let mut probes: BTreeMap<String, u64> = BTreeMap::new();
        // fault: the first attempts to read the file fail (it is still being written - a torn
        // prefix), on this same thread; the reader gives an error each time and the attempt on
        // the complete file right afterwards must not be able to tell.  (A torn prefix cannot
        // carry a corrupted length - lengths are either complete and true or incomplete - so
        // this is safe in-process, unlike the bit-flip probe below.)
        if file.data.len() > 1 {
            let mut rr = Prng::new(storage_seed ^ 0x7043);
            // (types that compile a regular expression on every read are two orders of magnitude
            // dearer to deserialise: fewer attempts for them - decided by type, not by a clock)
            let tn = std::any::type_name::<T>();
            let dear = tn.contains("Vectorizer") || tn.contains("Regex");
            let attempts = (if dear { 6usize } else { 1200 }).min((1 << 20) / file.data.len().max(1)).max(2);
            let mut failed = 0u64;
            for _ in 0..attempts {
                let cut = rr.below(file.data.len() as u64 - 1) as usize;
                let data = &file.data;
                if !matches!(catch_unwind(AssertUnwindSafe(|| bincode::deserialize::<T>(&data[..cut]).is_ok())), Ok(true)) {
                    failed += 1;
                }
            }
            *probes.entry("failed_reads_of_a_torn_file_before_the_real_read".to_string()).or_default() += failed;
        }
        file.rewind();
        let restored: Result<T, String> = bincode::deserialize_from(&mut file).map_err(|e| e.to_string());
        let stats = file.stats.clone();
        let fb_orig = fp_of(&orig, &p, fp);
        // out-of-contract probes on damaged files: the statement promises nothing, outcomes are counted
        let mut r = Prng::new(storage_seed ^ 0x7042);
        if file.data.len() > 1 {
            let cut = r.below(file.data.len() as u64 - 1) as usize;
            let data = &file.data;
            let torn = in_child(|| bincode::deserialize::<T>(&data[..cut]).is_ok());
            *probes.entry(format!("torn_file_{torn}")).or_default() += 1;
            let mut flipped = file.data.clone();
            let at = r.below(flipped.len() as u64) as usize;
            flipped[at] ^= 1 << r.below(8);
            // bound allocation on corrupted length prefixes
            use bincode::Options;
            let opts = bincode::DefaultOptions::new().with_fixint_encoding().allow_trailing_bytes().with_limit(16 << 20);
            let fl = in_child(|| opts.deserialize::<T>(&flipped).is_ok());
            *probes.entry(format!("bit_flip_{fl}")).or_default() += 1;
        }
        match restored {
            Err(e) => (fb_orig, Err(e), None, None, stats, probes),
            Ok(rest) => {
                // a panic while using the RESTORED value is a finding, not a harness error
                let fb_rest = catch_unwind(AssertUnwindSafe(|| fp_of(&rest, &p, fp))).map_err(|_| "restored value panicked when used".to_string());
                // `==` is only an oracle where it is an equivalence on this value: a NaN inside the
                // original (e.g. an SVM's internal `r` when no free support vector exists) makes the
                // original unequal to itself, and then nothing can be demanded of the restored copy
                let reflexive = eq.map(|f| catch_unwind(AssertUnwindSafe(|| f(&orig, &orig))).unwrap_or(false));
                if reflexive == Some(false) {
                    *probes.entry("original_not_equal_to_itself_(NaN_inside)".to_string()).or_default() += 1;
                }
                let eqr = if reflexive == Some(true) { eq.map(|f| catch_unwind(AssertUnwindSafe(|| f(&orig, &rest))).unwrap_or(false)) } else { None };
                // second generation: the restored value is persisted again (a service that
                // checkpoints what it restored) and restored once more
                let gen2: Result<Fingerprint, String> = (|| {
                    let mut f2 = SimFile::new(storage_seed ^ 0x2222);
                    bincode::serialize_into(&mut f2, &rest).map_err(|e| format!("second-generation serialize: {e}"))?;
                    f2.rewind();
                    let r2: T = bincode::deserialize_from(&mut f2).map_err(|e| format!("second-generation deserialize: {e}"))?;
                    catch_unwind(AssertUnwindSafe(|| fp_of(&r2, &p, fp))).map_err(|_| "second-generation value panicked when used".to_string())
                })();
                *probes.entry("second_generation_round_trips".to_string()).or_default() += 1;
                let gen2 = gen2.and_then(|g| {
                    let bytes = embedded.as_ref().map_err(|e| format!("embedded serialize: {e}"))?;
                    let (e1, s1, e2, s2): (T, u64, T, u64) = bincode::deserialize(bytes).map_err(|e| format!("value embedded in a larger record (value, marker, value, marker) does not deserialize: {e}"))?;
                    if s1 != EMBED_SENTINEL || s2 != EMBED_SENTINEL ^ 1 {
                        return Err(format!("data FOLLOWING the value in one positional record came back changed ({s1:#x}, {s2:#x}): writer and reader disagree about where the value ends"));
                    }
                    // (what the two copies hold is what the stand-alone restore above already
                    // compared field by field; here only the framing is at stake)
                    drop((e1, e2));
                    Ok(g)
                });
                let js = match &json {
                    Ok(s) => match serde_json::from_str::<T>(s) {
                        Ok(jv) => catch_unwind(AssertUnwindSafe(|| fp_of(&jv, &p, fp))).map_err(|_| "json-restored value panicked when used".to_string()),
                        Err(e) => Err(format!("json deserialize: {e}")),
                    },
                    Err(e) => Err(format!("json serialize: {e}")),
                };
                // through the document tree, only where the text form worked
                let js = match (js, &json_tree) {
                    (Ok(fj), Ok(tree)) => match serde_json::from_value::<T>(tree.clone()) {
                        Ok(tv) => match catch_unwind(AssertUnwindSafe(|| fp_of(&tv, &p, fp))) {
                            Ok(ft) if ft == fj => Ok(fj),
                            Ok(ft) => Ok(if fj == fb_orig { ft } else { fj }),
                            Err(_) => Err("value restored from a JSON document tree panicked when used".to_string()),
                        },
                        Err(e) => Err(format!("json document tree (keys in sorted order) deserialize: {e}")),
                    },
                    (Ok(_), Err(e)) => Err(format!("json document tree serialize: {e}")),
                    (Err(e), _) => Err(e),
                };
                (fb_orig, Ok((fb_rest, gen2)), eqr, Some(js), stats, probes)
            }
        }
    });
    match b {
        Err(panic) => {
            out.scenario_panic = Some(format!("process B panicked outside the restored value: {panic}"));
        }
        Ok((fb_orig, rest, eqr, js, stats, probes)) => {
            out.probes = probes;
            out.storage.reads = stats.reads;
            out.storage.short_reads = stats.short_reads;
            out.storage.read_interrupts = stats.read_interrupts;
            out.storage.one_byte_transfers = stats.one_byte_transfers;
            if let Some((f, a, b)) = fa.first_diff(&fb_orig) {
                out.env_dependent = Some(format!("{f}: {a} vs {b}"));
            }
            match rest {
                Err(e) => out.codec_error = Some(format!("deserialize: {e}")),
                Ok((Err(p), _)) => out.restored_differs = Some(("<use of restored value>".into(), "value".into(), p)),
                Ok((Ok(fb_rest), gen2)) => {
                    out.restored_differs = fb_orig.first_diff(&fb_rest);
                    if out.restored_differs.is_none() {
                        match gen2 {
                            Ok(f2) => {
                                out.restored_differs = fb_orig.first_diff(&f2).map(|(f, a, b)| (format!("{f} (second generation: restored, persisted again, restored again)"), a, b))
                            }
                            Err(e) => out.restored_differs = Some(("<second generation>".into(), "value".into(), e)),
                        }
                    }
                    if let Some(e) = eqr {
                        out.eq_checked = true;
                        out.eq_failed = !e;
                    }
                    match js {
                        Some(Ok(fj)) => out.json_exact = Some(fj == fb_orig),
                        Some(Err(e)) => out.json_note = Some(e),
                        None => {}
                    }
                }
            }
        }
    }
    out
}

// ---------------------------------------------------------------------------
// registry cross-check against the source tree
// ---------------------------------------------------------------------------

/// serde-deriving types that no public API can produce (reviewed by hand); they
/// are still exercised when they sit inside a reachable type
pub const UNREACHABLE: &[&str] = &[
    // algorithms/linfa-clustering/src/appx_dbscan/ is not compiled at all: lib.rs has no
    // `mod appx_dbscan;` and the public `AppxDbscan*` names are type aliases of exact DBSCAN
    // (which IS covered, through the aliases too)
    "AppxDbscan",
    "Cell",
    "CellsGrid",
    "CoreCellInfo",
    "IntersectionType",
    "StatusPoint",
    "TreeStructure",
    // linfa-kernel: the derive is bounded by `KernelInner<K1, K2>: Serialize`, and KernelInner
    // implements neither trait, so no Kernel value can be serialised (a compile error, not a
    // run-time behaviour); kernels are covered by C20 scenarios only
    "KernelBase",
    // linfa-logistic: `pub struct` inside the private module `argmin_param`, never re-exported
    // and never part of a fitted model or parameter set (solver-internal wrapper)
    "ArgminParam",
];

pub fn repo_root() -> std::path::PathBuf {
    std::env::var_os("LINFA_REPO").map(Into::into).unwrap_or_else(|| "/repo".into())
}

/// `(type name, is_pub, file)` for every `derive(Serialize, Deserialize)` site
pub fn scan_serde_types() -> Vec<(String, bool, String)> {
    fn walk(dir: &std::path::Path, out: &mut Vec<std::path::PathBuf>) {
        if let Ok(rd) = std::fs::read_dir(dir) {
            let mut ents: Vec<_> = rd.flatten().map(|e| e.path()).collect();
            ents.sort();
            for p in ents {
                if p.is_dir() {
                    if p.file_name().map(|n| n == "target" || n == "benches" || n == "examples" || n == "tests").unwrap_or(false) {
                        continue;
                    }
                    walk(&p, out);
                } else if p.extension().map(|e| e == "rs").unwrap_or(false) {
                    out.push(p);
                }
            }
        }
    }
    let root = repo_root();
    let mut files = Vec::new();
    walk(&root.join("src"), &mut files);
    if let Ok(rd) = std::fs::read_dir(root.join("algorithms")) {
        let mut ds: Vec<_> = rd.flatten().map(|e| e.path()).collect();
        ds.sort();
        for d in ds {
            walk(&d.join("src"), &mut files);
        }
    }
    let mut found = Vec::new();
    for f in files {
        let text = match std::fs::read_to_string(&f) {
            Ok(t) => t,
            Err(_) => continue,
        };
        let lines: Vec<&str> = text.lines().collect();
        for (i, l) in lines.iter().enumerate() {
            if !(l.contains("derive(") && l.contains("Serialize") && l.contains("Deserialize")) || l.trim_start().starts_with("//") {
                continue;
            }
            // the item follows within the next lines (attributes / doc comments between)
            for l2 in lines.iter().skip(i + 1).take(220) {
                let t = l2.trim_start();
                let (is_pub, rest) = if let Some(r) = t.strip_prefix("pub(crate) ") {
                    (false, r)
                } else if let Some(r) = t.strip_prefix("pub ") {
                    (true, r)
                } else {
                    (false, t)
                };
                let rest = rest.strip_prefix("struct ").or_else(|| rest.strip_prefix("enum "));
                if let Some(r) = rest {
                    let name: String = r.chars().take_while(|c| c.is_alphanumeric() || *c == '_' || *c == '[' || *c == '<' || *c == ' ' || *c == '$' || *c == '>' || *c == ']').collect();
                    let name = name.trim().to_string();
                    let rel = f.strip_prefix(&root).unwrap_or(&f).display().to_string();
                    if name.starts_with("[<Pls") {
                        for n in ["PlsRegression", "PlsCanonical", "PlsCca"] {
                            found.push((n.to_string(), true, rel.clone()));
                        }
                    } else {
                        let name: String = name.chars().take_while(|c| c.is_alphanumeric() || *c == '_').collect();
                        found.push((name, is_pub, rel));
                    }
                    break;
                }
            }
        }
    }
    found
}

// ---------------------------------------------------------------------------
// the check
// ---------------------------------------------------------------------------
fn env_for(r: &mut Prng, hostile: bool) -> Env {
    if !hostile {
        return Env::reference();
    }
    Env {
        threads: *r.pick(&[1usize, 2, 3, 4, 8]),
        policy: r.pick(&["sequential", "eager-steal", "chaos", "random:0.3"]).to_string(),
        sched_seed: r.next_u64() >> 20,
        entropy_seed: 1 + (r.next_u64() >> 20),
        clock_seed: r.next_u64() >> 20,
        context: *r.pick(&[Context::External, Context::InWorker]),
        cpus: *r.pick(&[1usize, 1, 2]),
        envvars_seed: if r.chance(0.3) { r.next_u64() >> 20 } else { 0 },
        heap_seed: if r.chance(0.3) { r.next_u64() >> 20 } else { 0 },
        replay: None,
    }
}

fn failed(entry: &str, o: &C19Outcome) -> Option<String> {
    if let Some((f, a, b)) = &o.restored_differs {
        return Some(format!("restored value differs from the original at `{f}`: original {a}, restored {b}"));
    }
    if o.eq_failed {
        return Some("restored value does not compare equal (==) to the original".into());
    }
    if let Some(e) = &o.codec_error {
        return Some(format!("an intact file does not round-trip: {e}"));
    }
    // second format: JSON must be exact wherever it can represent the value
    if o.json_exact == Some(false) {
        return Some("restored value differs from the original at `<json round trip>`: the JSON round trip succeeds but the restored value is observably different".into());
    }
    if let Some(n) = &o.json_note {
        if !json_exempt(entry, n) {
            return Some(format!("restored value differs from the original at `<json round trip>`: {n}"));
        }
    }
    None
}

/// JSON cannot represent non-finite floats (serde_json writes `null` and refuses to read it
/// back as a float) nor maps with non-string keys: a format limitation, not a linfa defect
fn json_exempt(entry: &str, note: &str) -> bool {
    note.contains("invalid type: null") || (note.contains("key must be a string") && JSON_NON_STRING_KEYS.contains(&entry))
}

/// entries whose value holds a map keyed by something JSON cannot write as an object key
/// (reviewed by hand: naive-Bayes models keep `HashMap<L, ClassInfo>`, and `None` is no JSON
/// key).  Pinned by name: the same message from any other entry is a violation.
const JSON_NON_STRING_KEYS: &[&str] = &["nb_gauss_model_option_string", "nb_multi_model_option_string"];

fn c19_job(entry: &str, p: P, a: &Env, b: &Env, storage_seed: u64) -> Job {
    Job { id: 0, kind: JobKind::C19 { entry: entry.to_string(), p, env_a: a.clone(), env_b: b.clone(), storage_seed } }
}

fn outcome_of(r: &crate::driver::JobResult) -> C19Outcome {
    match &r.body {
        Body::C19 { out } => out.clone(),
        // building or observing the value did not terminate: nothing to persist (counted like a build panic)
        Body::Timeout { seconds } => C19Outcome { scenario_panic: Some(format!("did not terminate within {seconds} s")), ..Default::default() },
        Body::Skipped => C19Outcome { scenario_panic: Some("skipped after a non-terminating run of the same entry".into()), ..Default::default() },
        _ => harness_error("wrong result kind"),
    }
}

pub fn check(tier: &str, seed: u64, only: Option<&str>) -> i32 {
    let t0 = crate::seams::real_now_s();
    if crate::selftest::run() != 0 {
        harness_error("seam self-test failed");
    }
    let reg = crate::scenarios::registry();
    let thorough = tier == "thorough";
    // ---- registry vs source tree
    let scanned = scan_serde_types();
    if scanned.len() < 20 {
        harness_error(&format!("found only {} serde derive sites under {} — wrong repository path?", scanned.len(), repo_root().display()));
    }
    let covered: BTreeSet<&str> = reg.c19.iter().flat_map(|e| e.types.iter().copied()).chain(UNREACHABLE.iter().copied()).collect();
    let pub_types: BTreeSet<String> = scanned.iter().filter(|t| t.1).map(|t| t.0.clone()).collect();
    let private_types: BTreeSet<String> = scanned.iter().filter(|t| !t.1).map(|t| t.0.clone()).collect();
    let missing: Vec<&String> = pub_types.iter().filter(|t| !covered.contains(t.as_str())).collect();
    if !missing.is_empty() && only.is_none() {
        harness_error(&format!(
            "types deriving Serialize/Deserialize in the source tree without a C19 registry entry: {missing:?} (add a model entry in sim/harness/src/scenarios or list it in c19::UNREACHABLE with the reason)"
        ));
    }
    let stale: Vec<&&str> = covered.iter().filter(|t| !pub_types.contains(**t) && !private_types.contains(**t)).collect();
    // ---- plan
    let instances = if thorough { 20 } else { 4 };
    let pairs = if thorough { 8 } else { 3 };
    let mut jobs = Vec::new();
    let mut meta = Vec::new();
    for (ei, e) in reg.c19.iter().enumerate() {
        if let Some(pfx) = only {
            if !e.name.starts_with(pfx) {
                continue;
            }
        }
        for inst in 0..instances {
            let p = P { seed: mix3(seed, crate::fp::fnv(e.name.as_bytes()), inst as u64) >> 20, size: if inst % 3 == 2 { Size::M } else { Size::S } };
            for pi in 0..pairs {
                let mut r = Prng::new(mix3(seed ^ 0xC19, ei as u64, (inst * 100 + pi) as u64));
                // pair 0: A reference, B hostile; others: both hostile
                let env_a = env_for(&mut r, pi > 0);
                let env_b = env_for(&mut r, true);
                for chunking in 0..2u64 {
                    let storage_seed = 1 + (r.next_u64() >> 20) + chunking;
                    meta.push(ei);
                    jobs.push(c19_job(&e.name, p, &env_a, &env_b, storage_seed));
                }
            }
        }
    }
    let mut order: Vec<usize> = (0..jobs.len()).collect();
    Prng::new(seed ^ 0x19).shuffle(&mut order);
    let jobs: Vec<Job> = order.iter().enumerate().map(|(i, &o)| Job { id: i, kind: jobs[o].kind.clone() }).collect();
    let meta: Vec<usize> = order.iter().map(|&o| meta[o]).collect();
    let results = run_jobs(&jobs, crate::driver::host_workers());

    let mut st = crate::simfile::StorageStats::default();
    let mut probes: BTreeMap<String, u64> = BTreeMap::new();
    let mut distinct: HashSet<u64> = HashSet::new();
    let (mut eq_checked, mut json_exact, mut json_inexact, mut json_unsupported, mut env_dep, mut bytes) = (0u64, 0u64, 0u64, 0u64, 0u64, 0u64);
    let mut env_dep_entries: BTreeSet<String> = BTreeSet::new();
    let mut json_inexact_entries: BTreeSet<String> = BTreeSet::new();
    let mut json_notes: BTreeSet<String> = BTreeSet::new();
    let mut failing: Vec<(usize, String)> = Vec::new();
    let mut by_crate: BTreeMap<String, u64> = BTreeMap::new();
    let mut build_panics: BTreeMap<String, u64> = BTreeMap::new();
    let mut build_panic_sample: BTreeMap<String, String> = BTreeMap::new();
    let mut good_trips: BTreeMap<String, u64> = BTreeMap::new();
    for (i, r) in results.iter().enumerate() {
        let o = outcome_of(r);
        let e = &reg.c19[meta[i]];
        if let Some(p) = &o.scenario_panic {
            // building or observing the ORIGINAL panicked (e.g. a fit that fails on this data
            // seed): no value to persist. Counted; fatal only if an entry never gets a value.
            *build_panics.entry(e.name.clone()).or_default() += 1;
            build_panic_sample.entry(e.name.clone()).or_insert_with(|| p.chars().take(160).collect());
            continue;
        }
        *good_trips.entry(e.name.clone()).or_default() += 1;
        *by_crate.entry(e.krate.to_string()).or_default() += 1;
        st.writes += o.storage.writes;
        st.short_writes += o.storage.short_writes;
        st.write_interrupts += o.storage.write_interrupts;
        st.reads += o.storage.reads;
        st.short_reads += o.storage.short_reads;
        st.read_interrupts += o.storage.read_interrupts;
        st.one_byte_transfers += o.storage.one_byte_transfers;
        for (k, v) in &o.probes {
            *probes.entry(k.clone()).or_default() += v;
        }
        eq_checked += o.eq_checked as u64;
        bytes += o.bytes as u64;
        match o.json_exact {
            Some(true) => json_exact += 1,
            Some(false) => {
                json_inexact += 1;
                json_inexact_entries.insert(e.name.clone());
            }
            None => {
                json_unsupported += 1;
                if let Some(n) = &o.json_note {
                    json_notes.insert(format!("{}: {}", e.name, n.chars().take(120).collect::<String>()));
                }
            }
        }
        if o.env_dependent.is_some() {
            env_dep += 1;
            env_dep_entries.insert(e.name.clone());
        }
        // non-trivial: the two processes really differ (hash seeds) or a storage fault fired
        let (ea, eb) = match &jobs[i].kind {
            JobKind::C19 { env_a, env_b, .. } => (env_a, env_b),
            _ => unreachable!(),
        };
        if ea.entropy_seed != eb.entropy_seed || o.storage.short_writes + o.storage.short_reads + o.storage.write_interrupts + o.storage.read_interrupts > 0 {
            distinct.insert(crate::fp::fnv(serde_json::to_string(&jobs[i].kind).unwrap().as_bytes()));
        }
        if let Some(why) = failed(&e.name, &o) {
            failing.push((i, why));
        }
    }
    for name in build_panics.keys() {
        if !good_trips.contains_key(name) {
            harness_error(&format!("C19 entry {name} never produced a value to persist: {}", build_panic_sample[name]));
        }
    }
    // ---- report: one minimised replay per entry
    let known = known_findings();
    let mut reported = 0;
    let mut seen_entries: BTreeSet<String> = BTreeSet::new();
    let mut known_hits = Vec::new();
    for (i, why) in &failing {
        let e = &reg.c19[meta[*i]];
        if !seen_entries.insert(e.name.clone()) || seen_entries.len() > 30 {
            continue;
        }
        let (p, env_a, env_b, storage_seed) = match &jobs[*i].kind {
            JobKind::C19 { p, env_a, env_b, storage_seed, .. } => (*p, env_a.clone(), env_b.clone(), *storage_seed),
            _ => unreachable!(),
        };
        // minimise in fresh processes: benign storage, then equal environments, then smallest data
        let mut cur = (p, env_a, env_b, storage_seed);
        let mut msg = why.clone();
        let try_it = |c: &(P, Env, Env, u64)| -> Option<String> { failed(&e.name, &outcome_of(&run_in_fresh_process(&[c19_job(&e.name, c.0, &c.1, &c.2, c.3)])[0])) };
        match try_it(&cur) {
            Some(m) => msg = m,
            None => {
                eprintln!("HARNESS ERROR: C19 failure of {} did not reproduce in a fresh process: {why}", e.name);
                return 2;
            }
        }
        let cands: Vec<Box<dyn Fn(&(P, Env, Env, u64)) -> (P, Env, Env, u64)>> = vec![
            Box::new(|c| (c.0, c.1.clone(), c.2.clone(), 0)),
            Box::new(|c| (c.0, Env::reference(), c.2.clone(), c.3)),
            Box::new(|c| (c.0, c.1.clone(), c.1.clone(), c.3)),
            Box::new(|c| (P { seed: c.0.seed, size: Size::S }, c.1.clone(), c.2.clone(), c.3)),
        ];
        for cand in &cands {
            let c2 = cand(&cur);
            if let Some(m) = try_it(&c2) {
                cur = c2;
                msg = m;
            }
        }
        let field = msg.split('`').nth(1).unwrap_or("").trim_end_matches(|c: char| c.is_ascii_digit()).to_string();
        let identity = format!("{}|{}", e.name, field);
        if let Some(k) = match_known(&known, "C19", &identity) {
            known_hits.push(identity.clone());
            println!("KNOWN-FINDING: property=C19 {} [{identity}]", k.what);
            continue;
        }
        reported += 1;
        report_violation(
            "C19",
            &format!("{seed}-{}", e.name),
            &json!({"property": "C19", "seed": seed, "identity": identity, "entry": e.name, "types": e.types, "p": cur.0, "env_a": cur.1, "env_b": cur.2, "storage_seed": cur.3, "violation": msg,
                "needs_environment_change": cur.1 != cur.2, "needs_storage_faults": cur.3 != 0}),
        );
        println!("  C19: {} ({:?}): {msg}", e.name, e.types);
    }
    let wall = crate::seams::real_now_s() - t0;
    let samples: Vec<_> = jobs.iter().take(3).map(|j| serde_json::to_value(&j.kind).unwrap()).collect();
    write_evidence(&Evidence {
        property_id: "C19",
        tier: tier.to_string(),
        seed,
        level: "exploration",
        coverage: json!({
            "evaluations": jobs.len(),
            "distinct_nontrivial": distinct.len(),
            "rule": "one evaluation = one persist -> restart -> restore round trip of one registry entry (value built through the public API from a data seed) between two simulated processes, through the storage seam, in bincode and JSON. Non-trivial: the two processes have different hash/entropy seeds, or at least one short transfer / interrupted I/O call fired; distinct = distinct (entry, data seed, size, environment pair, storage seed) among those, counted with a hash set",
            "samples": samples,
            "registry_entries": reg.c19.len(),
            "entries_run": meta.iter().collect::<BTreeSet<_>>().len(),
            "serde_derive_sites_in_tree": scanned.len(),
            "public_serde_types_in_tree": pub_types.len(),
            "public_serde_types_covered": pub_types.iter().filter(|t| covered.contains(t.as_str())).count(),
            "public_serde_types_without_entry": missing,
            "private_serde_types_in_tree_(covered_through_their_containers)": private_types,
            "registry_names_not_found_in_tree": stale,
            "round_trips_by_crate": by_crate,
            "storage_faults_fired": {"writes": st.writes, "short_writes": st.short_writes, "write_interrupts": st.write_interrupts, "reads": st.reads, "short_reads": st.short_reads, "read_interrupts": st.read_interrupts, "one_byte_transfers": st.one_byte_transfers},
            "bytes_persisted": bytes,
            "partial_eq_checked": eq_checked,
            "json_second_format": {"exact": json_exact, "not_exact": json_inexact, "not_representable_or_failed": json_unsupported, "entries_not_exact": json_inexact_entries, "not_representable_notes": json_notes, "note": "a JSON round trip that succeeds with a different value, or fails for a reason other than JSON's own limits (non-finite floats, non-string map keys), is a violation"},
            "environment_dependent_originals_(C20_subject)": {"round_trips": env_dep, "entries": env_dep_entries},
            "out_of_contract_probes": probes,
            "violating_round_trips": failing.len(),
            "round_trips_skipped_because_building_the_original_panicked": build_panics,
            "build_panic_samples": build_panic_sample,
            "known_findings_matched": known_hits,
            "runs_per_hour": (jobs.len() as f64 / wall.max(1e-9) * 3600.0) as u64,
            "real_components": ["every linfa crate built with its `serde` feature", "serde derive output", "bincode 1.3", "serde_json (float_roundtrip)"],
            "simulated_components": ["the file (short writes/reads down to one byte, EINTR)", "process exit and restart into another environment (hash seeds, pool, clock)"],
        }),
        assumptions: vec![
            "bincode is the deciding lossless format; JSON (serde_json with float_roundtrip) is required to be exact except for non-finite floats and non-string map keys, which it cannot represent".into(),
            "torn and bit-flipped files are outside the statement: outcomes are counted, never reported".into(),
        ],
        wall_s: wall,
        violations: reported,
    });
    println!("C19 {tier}: {} round trips over {} entries ({} public serde types, {} covered), {} distinct non-trivial, {} failing, {reported} reported, {wall:.1}s", jobs.len(), reg.c19.len(), pub_types.len(), pub_types.iter().filter(|t| covered.contains(t.as_str())).count(), distinct.len(), failing.len());
    if reported > 0 {
        1
    } else {
        0
    }
}

pub fn replay(v: &serde_json::Value) -> i32 {
    let entry = v["entry"].as_str().unwrap_or_else(|| harness_error("replay: no entry")).to_string();
    let p: P = serde_json::from_value(v["p"].clone()).unwrap_or_else(|e| harness_error(&format!("replay p: {e}")));
    let a: Env = serde_json::from_value(v["env_a"].clone()).unwrap_or_else(|e| harness_error(&format!("replay env_a: {e}")));
    let b: Env = serde_json::from_value(v["env_b"].clone()).unwrap_or_else(|e| harness_error(&format!("replay env_b: {e}")));
    let s = v["storage_seed"].as_u64().unwrap_or(0);
    let o = outcome_of(&run_in_fresh_process(&[c19_job(&entry, p, &a, &b, s)])[0]);
    match failed(&entry, &o) {
        Some(m) => {
            println!("C19 replay: {entry}: {m}");
            1
        }
        None => {
            println!("C19 replay: {entry} round-trips on this tree");
            0
        }
    }
}
