//! C19 machinery: persist → crash → restart in a different environment → restore.

use crate::env::{run_sim_once, Env};
use crate::fp::Fingerprint;
use crate::scen::{C19Cfg, C19Outcome, P};
use crate::simfile::SimFile;
use serde::de::DeserializeOwned;
use serde::Serialize;

fn fp_of<T>(v: &T, p: &P, fp: fn(&T, &P, &mut Fingerprint)) -> Fingerprint {
    let mut f = Fingerprint::new();
    fp(v, p, &mut f);
    f
}

pub fn round_trip<T>(
    p: &P,
    cfg: &C19Cfg,
    build: fn(&P) -> T,
    fp: fn(&T, &P, &mut Fingerprint),
    eq: Option<fn(&T, &T) -> bool>,
) -> C19Outcome
where
    T: Serialize + DeserializeOwned + Send + 'static,
{
    let mut out = C19Outcome::default();
    let p = *p;
    let storage_seed = cfg.storage_seed;
    // ---- simulated process A: build, observe, persist, exit
    let a = run_sim_once(cfg.env_a, move || {
        let v = build(&p);
        let fa = fp_of(&v, &p, fp);
        let mut file = SimFile::new(storage_seed);
        let w = bincode::serialize_into(&mut file, &v).map_err(|e| e.to_string());
        let json = serde_json::to_string(&v).map_err(|e| e.to_string());
        (v, fa, file, w, json)
    });
    let (orig, fa, mut file, w, json) = match a {
        Ok(t) => t,
        Err(panic) => {
            out.codec_error = Some(format!("process A panicked: {panic}"));
            return out;
        }
    };
    if let Err(e) = w {
        out.codec_error = Some(format!("serialize: {e}"));
        return out;
    }
    out.bytes = file.data.len();
    out.fields = fa.fields.len();
    out.storage = file.stats.clone();
    // ---- simulated process B (different hash seed, pool, clock): restore, observe
    let b = run_sim_once(cfg.env_b, move || {
        file.rewind();
        let restored: Result<T, String> = bincode::deserialize_from(&mut file).map_err(|e| e.to_string());
        let fb_orig = fp_of(&orig, &p, fp);
        let stats = file.stats.clone();
        match restored {
            Err(e) => (fb_orig, Err(e), None, None, stats),
            Ok(rest) => {
                let fb_rest = fp_of(&rest, &p, fp);
                let eqr = eq.map(|f| f(&orig, &rest));
                let js = match &json {
                    Ok(s) => match serde_json::from_str::<T>(s) {
                        Ok(jv) => Ok(fp_of(&jv, &p, fp)),
                        Err(e) => Err(format!("json deserialize: {e}")),
                    },
                    Err(e) => Err(format!("json serialize: {e}")),
                };
                (fb_orig, Ok(fb_rest), eqr, Some(js), stats)
            }
        }
    });
    match b {
        Err(panic) => {
            out.codec_error = Some(format!("process B panicked: {panic}"));
        }
        Ok((fb_orig, rest, eqr, js, stats)) => {
            out.storage.reads = stats.reads;
            out.storage.short_reads = stats.short_reads;
            out.storage.read_interrupts = stats.read_interrupts;
            out.storage.one_byte_transfers = stats.one_byte_transfers;
            if let Some((f, a, b)) = fa.first_diff(&fb_orig) {
                out.env_dependent = Some(format!("{f}: {a} vs {b}"));
            }
            match rest {
                Err(e) => out.codec_error = Some(format!("deserialize: {e}")),
                Ok(fb_rest) => {
                    out.restored_differs = fb_orig.first_diff(&fb_rest);
                    if let Some(e) = eqr {
                        out.eq_checked = true;
                        out.eq_failed = !e;
                    }
                    match js {
                        Some(Ok(fj)) => out.json_exact = Some(fj == fb_orig),
                        Some(Err(e)) => out.json_note = Some(e),
                        None => {}
                    }
                }
            }
        }
    }
    out
}

#[allow(dead_code)]
pub fn env_pair_desc(a: &Env, b: &Env) -> String {
    format!("A[{}] -> B[{}]", a.describe(), b.describe())
}
