//! Faults in *callbacks*: code the caller hands to the library (a distance function, a
//! tokenizer) fails — panics — at a seeded point in the middle of a library call, the caller
//! catches it and carries on.  Armed only during the warm-up of `Context::Warm`: the workload
//! proper then runs on a thread on which an earlier call was torn off half-way, and must not
//! be able to tell.
use std::sync::atomic::{AtomicI64, AtomicU64, Ordering};

static COUNTDOWN: AtomicI64 = AtomicI64::new(-1);
static FIRED: AtomicU64 = AtomicU64::new(0);
static TICKS: AtomicU64 = AtomicU64::new(0);

/// instrumented callback invocations seen while armed, since the last call
pub fn take_ticks() -> u64 {
    TICKS.swap(0, Ordering::SeqCst)
}

/// the `n`-th callback invocation from now panics (n >= 0)
pub fn arm(n: u64) {
    COUNTDOWN.store(n as i64, Ordering::SeqCst);
}
pub fn disarm() {
    COUNTDOWN.store(-1, Ordering::SeqCst);
}
/// number of injected callback faults since the last call
pub fn take_fired() -> u64 {
    FIRED.swap(0, Ordering::SeqCst)
}
/// called by every instrumented callback
#[inline]
pub fn tick() {
    if COUNTDOWN.load(Ordering::Relaxed) < 0 {
        return;
    }
    TICKS.fetch_add(1, Ordering::Relaxed);
    if COUNTDOWN.fetch_sub(1, Ordering::SeqCst) == 0 {
        FIRED.fetch_add(1, Ordering::SeqCst);
        panic!("injected fault in a caller-supplied callback");
    }
}

/// a distance function that fails when told to
#[derive(Clone, Debug, PartialEq)]
pub struct FaultyDist<D>(pub D);

impl<F: linfa::Float, D: linfa_nn::distance::Distance<F>> linfa_nn::distance::Distance<F> for FaultyDist<D> {
    fn distance<Dm: ndarray::Dimension>(&self, a: ndarray::ArrayView<F, Dm>, b: ndarray::ArrayView<F, Dm>) -> F {
        tick();
        self.0.distance(a, b)
    }
    fn rdistance<Dm: ndarray::Dimension>(&self, a: ndarray::ArrayView<F, Dm>, b: ndarray::ArrayView<F, Dm>) -> F {
        tick();
        self.0.rdistance(a, b)
    }
    fn rdist_to_dist(&self, rdist: F) -> F {
        self.0.rdist_to_dist(rdist)
    }
    fn dist_to_rdist(&self, dist: F) -> F {
        self.0.dist_to_rdist(dist)
    }
}

/// MXCSR on x86-64 (rounding control, FTZ, DAZ, exception masks; the sticky exception FLAGS in
/// the low six bits are masked out - every inexact operation sets them), FPCR on aarch64.
pub fn fp_control_state() -> u64 {
    #[cfg(target_arch = "x86_64")]
    {
        let mut v: u32 = 0;
        unsafe { std::arch::asm!("stmxcsr [{}]", in(reg) &mut v, options(nostack)) };
        (v & !0x3f) as u64
    }
    #[cfg(target_arch = "aarch64")]
    {
        let v: u64;
        unsafe { std::arch::asm!("mrs {}, fpcr", out(reg) v, options(nomem, nostack)) };
        v
    }
    #[cfg(not(any(target_arch = "x86_64", target_arch = "aarch64")))]
    {
        0
    }
}

/// What a fresh allocation holds is unspecified.  The harness' global allocator makes that a
/// seeded part of the environment: every block handed back to the allocator is first filled
/// with a byte pattern that follows the run's heap seed, so memory the code under test reads
/// before writing it (`Array::uninit`, `set_len`, a buffer "every element of which gets
/// written") holds different garbage in different simulated environments - and the same garbage
/// when a run is replayed.  (glibc overwrites the first 16 bytes of a freed chunk with its own
/// links; blocks large enough to be mapped afresh come zeroed from the kernel.)
pub struct PoisoningAllocator;
static POISON: std::sync::atomic::AtomicU8 = std::sync::atomic::AtomicU8::new(0);

pub fn set_heap_poison(heap_seed: u64) {
    // reference environment: zeros - what a quiet heap mostly shows
    let b = if heap_seed == 0 { 0 } else { 0x40 | (crate::prng::mix3(heap_seed, 0x9015, 0) as u8 & 0x3f) };
    POISON.store(b, Ordering::Relaxed);
}

unsafe impl std::alloc::GlobalAlloc for PoisoningAllocator {
    unsafe fn alloc(&self, l: std::alloc::Layout) -> *mut u8 {
        std::alloc::System.alloc(l)
    }
    unsafe fn alloc_zeroed(&self, l: std::alloc::Layout) -> *mut u8 {
        std::alloc::System.alloc_zeroed(l)
    }
    unsafe fn realloc(&self, p: *mut u8, l: std::alloc::Layout, n: usize) -> *mut u8 {
        std::alloc::System.realloc(p, l, n)
    }
    unsafe fn dealloc(&self, p: *mut u8, l: std::alloc::Layout) {
        // small and medium blocks only: those are the ones that get recycled
        if l.size() <= (1 << 17) {
            std::ptr::write_bytes(p, POISON.load(Ordering::Relaxed), l.size());
        }
        std::alloc::System.dealloc(p, l)
    }
}
