#!/bin/sh
# Apply a seeded change to /repo, run the named checks (quick tier unless TIER is set),
# print one line per check, and ALWAYS restore /repo afterwards.
#   tools/try_patch.sh seeded/<id>/patch.diff C20 [C19 ...]
# Exit 0 always (this is a development aid, not a registered check).
PATCH=$(readlink -f "$1"); shift
ROOT=$(cd "$(dirname "$0")/.." && pwd)
TIER=${TIER:-quick}
if ! git -C /repo diff --quiet; then echo "refusing: /repo has uncommitted changes"; exit 2; fi
restore() { git -C /repo checkout -- . ; git -C /repo clean -fdq -e target >/dev/null 2>&1; }
trap restore EXIT INT TERM
if ! git -C /repo apply "$PATCH"; then echo "patch does not apply"; exit 2; fi
for c in "$@"; do
    OUT=$(cd "$ROOT" && VERIF_REPLAY_DIR=/tmp/try-replays VERIF_EVIDENCE_DIR=/tmp/try-evidence ./check "$c" "$TIER" 2>&1); RC=$?
    echo "== $c exit=$RC"
    echo "$OUT" | grep -E "VIOLATION|KNOWN-FINDING|HARNESS ERROR|^  C[0-9]+:|^C[0-9]+ " | head -12
done
