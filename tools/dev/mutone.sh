#!/bin/bash
# mutone.sh <prop lower> <seeded id> [checks...] : one mutation against a fresh copy of the current simulator
P=$1; ID=$2; shift; shift; PU=${PROP:-$(echo $P | tr a-z A-Z)}; WT=/tmp/mut-$P
rm -rf /tmp/sim-$P && mkdir -p /tmp/sim-$P && cp -r /verif/sim/{Cargo.toml,Cargo.lock,.cargo,harness,rayon-core-sim,rayon-sim} /tmp/sim-$P/
sed -i "s#\"/repo#\"$WT#g" /tmp/sim-$P/harness/Cargo.toml
export CARGO_NET_OFFLINE=true CARGO_TARGET_DIR=/tmp/sim-$P-target LINFA_REPO=$WT VERIF_ROOT=/tmp/sim-$P-root
mkdir -p $VERIF_ROOT; cp /verif/known_findings.json /verif/properties.jsonl $VERIF_ROOT/
cd $WT || exit 9; git checkout -q -- . && git clean -fdq && git checkout -q --detach f6ea237
git apply /verif/seeded/$ID/patch.diff || { echo "$ID: patch failed"; exit 1; }
(cd /tmp/sim-$P && cargo build --release --offline 2>&1 | grep -E "^error" -A6 | head -20)
for C in ${@:-$PU}; do
  OUT=$(cd $VERIF_ROOT && /tmp/sim-$P-target/release/linfa-sim check $C ${TIER:-quick} 2>&1); RC=$?
  echo "== $ID check $C exit=$RC"; echo "$OUT" | grep -E "^  C[0-9]+:|HARNESS|^C[0-9]+ " | cut -c1-400 | head -6
done
cd $WT && git checkout -q -- .
