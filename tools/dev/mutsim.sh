#!/bin/bash
# mutsim.sh <prop lower> : build a copy of the simulator against worktree /tmp/mut-<prop> and run checks for each of its 4 mutations
P=$1; PU=${PROP:-$(echo $P | tr a-z A-Z)}; WT=/tmp/mut-$P
rm -rf /tmp/sim-$P && mkdir -p /tmp/sim-$P && cp -r /verif/sim/{Cargo.toml,Cargo.lock,.cargo,harness,rayon-core-sim,rayon-sim} /tmp/sim-$P/ 
sed -i "s#\"/repo#\"$WT#g" /tmp/sim-$P/harness/Cargo.toml
export CARGO_NET_OFFLINE=true CARGO_TARGET_DIR=/tmp/sim-$P-target LINFA_REPO=$WT VERIF_ROOT=/tmp/sim-$P-root
mkdir -p $VERIF_ROOT; cp /verif/known_findings.json /verif/properties.jsonl $VERIF_ROOT/
cd $WT || exit 9; git checkout -q -- . && git clean -fdq && git checkout -q --detach f6ea237
for i in 1 2 3 4; do
  cd $WT && git checkout -q -- . && git apply /verif/seeded/$PU-${SET:-m}$i/patch.diff || { echo "$PU-m$i: patch failed"; continue; }
  (cd /tmp/sim-$P && cargo build --release --offline 2>&1 | grep -E "^error" -A6 | head -20)
  for C in ${CHECKS:-$PU}; do
    OUT=$(cd $VERIF_ROOT && /tmp/sim-$P-target/release/linfa-sim check $C ${TIER:-quick} 2>&1); RC=$?
    echo "== $PU-${SET:-m}$i check $C exit=$RC"; echo "$OUT" | grep -E "^  C[0-9]+:|HARNESS|^C[0-9]+ " | cut -c1-400 | head -6
  done
done
cd $WT && git checkout -q -- .
