#!/bin/bash
# replaytest.sh <seeded id> <prop>
ID=$1; P=$2
cd /verif
git -C /repo diff --quiet || { echo "repo dirty"; exit 2; }
trap 'git -C /repo checkout -- .; git -C /repo clean -fdq -e target >/dev/null 2>&1' EXIT
rm -rf /tmp/rt-replays; git -C /repo apply /verif/seeded/$ID/patch.diff
VERIF_REPLAY_DIR=/tmp/rt-replays VERIF_EVIDENCE_DIR=/tmp/try-evidence ./check $P quick > /tmp/rt.out 2>&1; echo "check exit=$?"
F=$(ls /tmp/rt-replays/*.json | head -1); echo "replay file: $F ($(wc -c < $F) bytes)"
./check replay $F | tail -3 | cut -c1-250; echo "replay on mutated tree exit=${PIPESTATUS[0]}"
git -C /repo checkout -- .; git -C /repo clean -fdq -e target >/dev/null 2>&1
./check replay $F | tail -2 | cut -c1-250; echo "replay on clean tree exit=${PIPESTATUS[0]}"
