#!/bin/bash
cd /verif || exit 9
for d in seeded/*-[xy][0-9]/; do
  id=$(basename $d); prop=${id%%-*}
  checks=$prop
  case $id in C20-y1) checks="C01";; C20-x1) checks="C20 C01";; esac
  echo "##### $id"
  tools/try_patch.sh $d/patch.diff $checks 2>&1 | grep -E "^== |VIOLATION|HARNESS|refusing|patch does not" | cut -c1-200 | head -6
  git -C /repo status --short | head -2
done
echo ALLDONE
