#!/bin/bash
# confirm the C19 round-7 demos with the agents' own runner scripts, clean and mutated, plus suite
res() { echo "RESULT $1"; }
runA() { # i dir crate
  local i=$1 dir=$2 crate=$3 WT=/tmp/mut-c19 OUT=/tmp/mut-c19-out7
  cd $WT && git checkout -q -- . && git clean -fdq
  $OUT/run_demo.sh $i $dir $crate > /tmp/c19a-$i-clean.log 2>&1; C=$?
  cd $WT && git checkout -q -- . && git apply $OUT/$i/patch.diff
  $OUT/run_demo.sh $i $dir $crate > /tmp/c19a-$i-mut.log 2>&1; M=$?
  cd $WT && CARGO_NET_OFFLINE=true CARGO_TARGET_DIR=/tmp/mut-c19-target cargo test -p $crate --offline > /tmp/c19a-$i-suite.log 2>&1; S=$?
  cd $WT && git checkout -q -- . && git clean -fdq
  res "c19a/$i demo_clean_exit=$C demo_mutated_exit=$M suite_with_mutation_exit=$S"
}
runB() { # i crate devdeps...
  local i=$1 crate=$2; shift 2
  local WT=/tmp/mut-c19b OUT=/tmp/mut-c19b-out7
  cd $WT && git checkout -q -- . && git clean -fdq
  $OUT/run_demo.sh $i $crate "$@" > /tmp/c19b-$i-clean.log 2>&1
  cd $WT && git checkout -q -- . && git apply $OUT/$i/patch.diff
  $OUT/run_demo.sh $i $crate "$@" > /tmp/c19b-$i-mut.log 2>&1
  cd $WT && CARGO_NET_OFFLINE=true CARGO_TARGET_DIR=/tmp/mut-c19b-target cargo test -p $crate --offline > /tmp/c19b-$i-suite.log 2>&1; S=$?
  cd $WT && git checkout -q -- . && git clean -fdq
  C=$(grep -c "test result: ok" /tmp/c19b-$i-clean.log); CF=$(grep -c "test result: FAILED\|error\[" /tmp/c19b-$i-clean.log)
  M=$(grep -c "test result: FAILED" /tmp/c19b-$i-mut.log)
  res "c19b/$i clean_ok_lines=$C clean_failed_lines=$CF mutated_failed_lines=$M suite_with_mutation_exit=$S"
}
( runA 1 algorithms/linfa-trees linfa-trees; runA 2 algorithms/linfa-svm linfa-svm; runA 3 algorithms/linfa-trees linfa-trees; runA 4 algorithms/linfa-logistic linfa-logistic ) &
( runB 1 linfa-clustering 'bincode = "1"' 'rand_xoshiro = { version = "0.6", features = ["serde1"] }'
  runB 2 linfa-preprocessing 'serde_json = { version = "1", features = ["float_roundtrip"] }' 'bincode = "1"'
  runB 3 linfa-clustering 'bincode = "1"'
  runB 4 linfa-bayes 'serde_json = { version = "1", features = ["float_roundtrip"] }' 'bincode = "1"' ) &
wait
