#!/bin/bash
res() { echo "RESULT $1"; }
# C19-x via the agent's runner
runA() { local i=$1 dir=$2 crate=$3 extra=$4 WT=/tmp/mut-c19 OUT=/tmp/mut-c19-out8
  cd $WT || exit 9; git checkout -q -- . && git clean -fdq
  $OUT/run_demo.sh $dir $OUT/$i/demo.rs $extra > /tmp/c19x-$i-clean.log 2>&1; C=$?
  cd $WT && git checkout -q -- . && git apply $OUT/$i/patch.diff
  $OUT/run_demo.sh $dir $OUT/$i/demo.rs $extra > /tmp/c19x-$i-mut.log 2>&1; M=$?
  cd $WT && CARGO_NET_OFFLINE=true CARGO_TARGET_DIR=/tmp/mut-c19-target cargo test -p $crate --offline > /tmp/c19x-$i-suite.log 2>&1; S=$?
  cd $WT || exit 9; git checkout -q -- . && git clean -fdq
  res "c19x/$i demo_clean_exit=$C demo_mutated_exit=$M suite_with_mutation_exit=$S"; }
# demos that need rayon as a dev-dependency on the clean tree
runR() { local tag=$1 i=$2 crate=$3 cdir=$4; local WT=/tmp/mut-$tag OUT=/tmp/mut-$tag-out8
  export CARGO_NET_OFFLINE=true CARGO_TARGET_DIR=/tmp/mut-$tag-target
  cd $WT || exit 9; git checkout -q -- . && git clean -fdq
  mkdir -p $cdir/tests && cp $OUT/$i/demo.rs $cdir/tests/demo_mut.rs
  cp $cdir/Cargo.toml /tmp/$tag-$i-Cargo.bak
  sed -i 's/^\[dev-dependencies\]$/[dev-dependencies]\nrayon = "1"/' $cdir/Cargo.toml
  cargo test -p $crate --offline --test demo_mut > /tmp/confirm8-$tag-$i-clean.log 2>&1; C=$?
  cp /tmp/$tag-$i-Cargo.bak $cdir/Cargo.toml
  git apply $OUT/$i/patch.diff
  grep -q '^rayon' $cdir/Cargo.toml || sed -i 's/^\[dev-dependencies\]$/[dev-dependencies]\nrayon = "1"/' $cdir/Cargo.toml
  cargo test -p $crate --offline --test demo_mut > /tmp/confirm8-$tag-$i-mut.log 2>&1; M=$?
  rm -f $cdir/tests/demo_mut.rs
  git checkout -q -- . ; git apply $OUT/$i/patch.diff
  cargo test -p $crate --offline > /tmp/confirm8-$tag-$i-suite.log 2>&1; S=$?
  git checkout -q -- . && git clean -fdq
  res "$tag/$i demo_clean_exit=$C demo_mutated_exit=$M suite_with_mutation_exit=$S"; }
( runA 1 algorithms/linfa-preprocessing linfa-preprocessing ""; runA 2 algorithms/linfa-preprocessing linfa-preprocessing ""; runA 3 algorithms/linfa-trees linfa-trees ""; runA 4 algorithms/linfa-clustering linfa-clustering "--release" ) &
( runR c20 2 linfa-reduction algorithms/linfa-reduction ) &
( runR c20b 3 linfa-clustering algorithms/linfa-clustering ) &
wait
