#!/bin/bash
cd /verif || exit 9
for d in seeded/*-[zq][0-9]/; do
  id=$(basename $d); prop=${id%%-*}
  echo "##### $id"
  tools/try_patch.sh $d/patch.diff $prop 2>&1 | grep -E "^== |VIOLATION|HARNESS|refusing|patch does not" | cut -c1-200 | head -6
  git -C /repo status --short | head -2
done
echo ALLDONE
