#!/bin/bash
# confirm.sh <prop> <i> <crate> <cratedir-relative-to-worktree>
P=$1; I=$2; CRATE=$3; CDIR=$4
WT=/tmp/mut-$P; OUT=/tmp/mut-$P-out${ROUND:-}/$I
export CARGO_NET_OFFLINE=true CARGO_TARGET_DIR=/tmp/mut-$P-target
cd $WT || exit 9; git checkout -q -- . && git clean -fdq && git checkout -q --detach f6ea237 2>/dev/null
res() { echo "RESULT $P/$I $1"; }
if ! git apply --check $OUT/patch.diff 2>/dev/null; then res "patch-does-not-apply-to-HEAD"; exit 0; fi
if [ -d $OUT/demo ]; then
  # separate cargo project with path deps on the worktree
  (cd $OUT/demo && cargo test --offline >/tmp/confirm-$P-$I-clean.log 2>&1); C=$?
  git apply $OUT/patch.diff
  (cd $OUT/demo && cargo test --offline >/tmp/confirm-$P-$I-mut.log 2>&1); M=$?
else
  mkdir -p $CDIR/tests && cp $OUT/demo.rs $CDIR/tests/demo_mut.rs
  cargo test -p $CRATE --offline --test demo_mut >/tmp/confirm-$P-$I-clean.log 2>&1; C=$?
  git apply $OUT/patch.diff
  cargo test -p $CRATE --offline --test demo_mut >/tmp/confirm-$P-$I-mut.log 2>&1; M=$?
  rm -f $CDIR/tests/demo_mut.rs
fi
cargo test -p $CRATE --offline >/tmp/confirm-$P-$I-suite.log 2>&1; S=$?
git checkout -q -- . && git clean -fdq
res "demo_clean_exit=$C demo_mutated_exit=$M suite_with_mutation_exit=$S"
